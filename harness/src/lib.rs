//! rlv — property-based checks for risinglight (library part: engine, generators, properties).
//! See /verif/DESIGN.md. The binary `rlv` (src/main.rs) and the libFuzzer targets (../fuzz) use it.
#![allow(clippy::all)]
#![allow(dead_code)]

pub mod engine;
pub mod gens;
pub mod props;
pub mod sqlrun;
