//! C14 generators: typed expressions and boundary-biased batches, built deterministically from
//! streams of u16 choices (choice 0 is always the simplest alternative, so shrinking the stream
//! simplifies the case).
use serde::{Deserialize, Serialize};

use super::c14_model::*;
use crate::engine::Ctx;

/// Generator switches: `true` = the shape may be generated (no open finding excludes it).
#[derive(Clone, Debug)]
pub struct Sw {
    pub overflow: bool,
    pub rem_divisor: bool,
    pub case_nullable: bool,
    pub unimpl: bool,
    pub like_meta: bool,
    pub str_newline: bool,
    pub const_null_sub: bool,
    pub fold_untyped_null_logic: bool,
    pub bool_raw: bool,
    pub values_source: bool,
}

pub const SWITCHES: [&str; 10] = [
    "gen.arith_overflow",
    "gen.rem_nullable_or_zero_divisor",
    "gen.case_nullable_branch",
    "gen.typeck_unimplemented",
    "gen.like_regex_meta",
    "gen.like_newline",
    "gen.const_subexpr_null",
    "gen.fold_untyped_null_logic",
    "gen.bool_raw_under_null",
    "gen.values_source",
];

impl Sw {
    pub fn from_ctx(ctx: &Ctx) -> Sw {
        let on = |i: usize| !ctx.off(SWITCHES[i]);
        Sw {
            overflow: on(0),
            rem_divisor: on(1),
            case_nullable: on(2),
            unimpl: on(3),
            like_meta: on(4),
            str_newline: on(5),
            const_null_sub: on(6),
            fold_untyped_null_logic: on(7),
            bool_raw: on(8),
            values_source: on(9),
        }
    }
}

/// Kinds of string columns / literals (what the text is meant to be cast to).
pub const K_TEXT: u8 = 0;
pub const K_INT: u8 = 1;
pub const K_FLOAT: u8 = 2;
pub const K_BOOL: u8 = 3;
pub const K_DATE: u8 = 4;

#[derive(Clone, Copy, Debug, PartialEq, Eq)]
pub enum Dom {
    /// boundary values, may make expressions fail
    Extreme,
    /// small magnitudes: no arithmetic on them can overflow, every text parses
    Small,
}

fn ints(ty: Ty, d: Dom) -> &'static [i64] {
    match (ty, d) {
        (Ty::I16, Dom::Small) => &[1, 0, 2, -1, 3, -2, -3],
        (_, Dom::Small) => &[1, 0, 2, -1, 3, -2, 5, 7, -3, 10, 11, -11],
        (Ty::I16, _) => &[1, 0, 2, -1, 3, 7, -2, 100, 181, 182, -182, 255, 256, 32766, 32767, -32767, -32768],
        (Ty::I32, _) => &[
            1, 0, 2, -1, 3, 7, -2, 10, 100, 64, 255, 1000, 46341, 65536, -46341, 1073741824, 2147483646, 2147483647,
            -2147483647, -2147483648,
        ],
        _ => &[
            1,
            0,
            2,
            -1,
            3,
            -2,
            7,
            100,
            2147483647,
            2147483648,
            -2147483648,
            -2147483649,
            3037000500,
            -3037000500,
            4294967296,
            9007199254740993,
            9223372036854775806,
            9223372036854775807,
            -9223372036854775807,
            -9223372036854775808,
        ],
    }
}

fn floats(d: Dom) -> &'static [f64] {
    match d {
        Dom::Small => &[1.0, 0.0, 1.5, -1.5, 0.5, 2.0, -2.0, 0.25, 3.0, -0.125],
        _ => &[
            1.0,
            0.0,
            1.5,
            -1.5,
            0.5,
            2.0,
            -2.0,
            0.25,
            3.75,
            100.0,
            -0.125,
            1024.0,
            32767.5,
            -32768.5,
            32768.0,
            2147483647.5,
            -2147483648.5,
            4294967296.0,
            9007199254740992.0,
        ],
    }
}

fn decs(d: Dom) -> &'static [&'static str] {
    match d {
        Dom::Small => &["1.5", "0.0", "-1.5", "0.25", "2.0", "1.0", "-0.5", "3.0"],
        _ => &[
            "1.5", "0.0", "-1.5", "0.25", "2.0", "-0.01", "123.456", "99999.999", "-99999.999", "0.001", "1.0",
            "3.14", "32767.9", "-32768.9", "2147483648.5", "1000000.5",
        ],
    }
}

fn texts(kind: u8, d: Dom, sw: &Sw) -> Vec<&'static str> {
    match (kind, d) {
        (K_INT, Dom::Small) => vec!["1", "0", "-1", "12", "7", "3"],
        (K_INT, _) => vec![
            "1", "0", "-1", "12", "+7", "32767", "32768", "-32769", "2147483647", "2147483648", "-2147483649",
            "9223372036854775807", "9223372036854775808", "abc", "", " 1", "1.5",
        ],
        (K_FLOAT, Dom::Small) => vec!["1.5", "0", "-2.25", "10", "0.125"],
        (K_FLOAT, _) => vec!["1.5", "0", "-2.25", "10", "0.125", "abc", "", "1.5x", "100000"],
        (K_BOOL, Dom::Small) => vec!["true", "false"],
        (K_BOOL, _) => vec!["true", "false", "TRUE", "t", "", "yes", "1"],
        (K_DATE, Dom::Small) => vec!["2020-02-29", "1970-01-01", "1999-12-31"],
        (K_DATE, _) => vec!["2020-02-29", "1970-01-01", "1999-12-31", "2021-02-29", "abc", "", "2020-13-01"],
        _ => {
            let mut v = vec!["a", "", "ab", "b", "A", "abc", "a b", "é", "aé", "ba", "abcabc", "%", "a_c", "x'y"];
            if sw.str_newline {
                v.push("a\nb");
            }
            v
        }
    }
}

fn dates() -> Vec<i32> {
    [
        (2020, 2, 29),
        (1970, 1, 1),
        (2000, 2, 29),
        (1999, 12, 31),
        (2021, 1, 31),
        (1900, 3, 1),
        (2100, 12, 31),
        (2019, 3, 31),
        (2020, 1, 30),
        (1969, 12, 31),
    ]
    .iter()
    .map(|(y, m, d)| date_of(*y, *m, *d))
    .collect()
}

/// The k-th value (mod the domain size) of a type's domain; index 0 is the simplest value.
pub fn value(ty: Ty, kind: u8, d: Dom, sw: &Sw, k: usize) -> V {
    match ty {
        Ty::Bool => V::B(k % 2 == 0),
        Ty::I16 | Ty::I32 | Ty::I64 => {
            let l = ints(ty, d);
            V::I(l[k % l.len()])
        }
        Ty::F64 => {
            let l = floats(d);
            V::F(l[k % l.len()])
        }
        Ty::Dec => {
            let l = decs(d);
            V::D(l[k % l.len()].to_string())
        }
        Ty::Str => {
            let l = texts(kind, d, sw);
            V::S(l[k % l.len()].to_string())
        }
        Ty::Date => {
            let l = dates();
            V::Dt(l[k % l.len()])
        }
        Ty::Intv => {
            const L: [(i32, i32); 12] =
                [(0, 1), (1, 0), (0, -1), (-1, 0), (12, 0), (0, 30), (13, 0), (-13, 0), (0, 365), (24, 0), (0, 0), (-12, 0)];
            let (m, dd) = L[k % L.len()];
            V::Iv(m, dd)
        }
        Ty::Null => V::Null,
    }
}

#[derive(Clone, Debug, Serialize, Deserialize)]
pub struct ExprCase {
    pub e: E,
    /// only the outcome class is checked (the SQL value of this accepted shape is dialect-dependent)
    #[serde(default)]
    pub novalue: bool,
}

pub struct G<'a> {
    ch: &'a [u16],
    pos: usize,
    pub sw: &'a Sw,
    pub cols: Vec<(Ty, u8)>,
    max_cols: usize,
    pub steered: Vec<&'static str>,
    pub dom: Dom,
    /// inside an AND / OR / NOT operand or a CASE condition
    in_logic: bool,
    /// decimal -> text casts: the text shows the scale, and the planner merges constants that are
    /// equal as numbers (1.0 and 1), so only the kernel route can check it
    pub dec_text: bool,
}

const NUM: [Ty; 5] = [Ty::I32, Ty::I64, Ty::I16, Ty::F64, Ty::Dec];

impl<'a> G<'a> {
    pub fn new(ch: &'a [u16], sw: &'a Sw, dom: Dom, cols: Vec<(Ty, u8)>, max_cols: usize) -> G<'a> {
        G { ch, pos: 0, sw, cols, max_cols, steered: vec![], dom, in_logic: false, dec_text: false }
    }
    pub fn pick(&mut self, n: usize) -> usize {
        let c = self.ch.get(self.pos).copied().unwrap_or(0);
        self.pos += 1;
        (c as usize * n.max(1)) >> 16
    }
    /// true with probability pct/100; an exhausted stream says true (the simple option).
    fn chance(&mut self, pct: usize) -> bool {
        self.pick(100) < pct
    }
    fn wpick(&mut self, w: &[usize]) -> usize {
        let mut r = self.pick(w.iter().sum());
        for (i, x) in w.iter().enumerate() {
            if r < *x {
                return i;
            }
            r -= x;
        }
        0
    }
    fn steer(&mut self, s: &'static str) {
        if !self.steered.contains(&s) {
            self.steered.push(s);
        }
    }
    fn numty(&mut self) -> Ty {
        NUM[self.wpick(&[35, 20, 12, 15, 18])]
    }
    fn lit_dom(&self) -> Dom {
        self.dom
    }
    pub fn lit(&mut self, ty: Ty, kind: u8) -> E {
        let k = self.pick(64);
        E::Lit(ty, value(ty, kind, self.lit_dom(), self.sw, k))
    }
    fn nonzero_lit(&mut self, ty: Ty) -> E {
        let k = self.pick(64);
        for j in 0..64 {
            let v = value(ty, 0, self.lit_dom(), self.sw, k + j);
            let zero = match &v {
                V::I(i) => *i == 0,
                V::F(f) => *f == 0.0,
                V::D(_) => v.dec().is_zero(),
                _ => false,
            };
            if !zero {
                return E::Lit(ty, v);
            }
        }
        unreachable!()
    }
    pub fn col(&mut self, ty: Ty, kind: u8) -> E {
        let have: Vec<usize> = (0..self.cols.len()).filter(|i| self.cols[*i] == (ty, kind)).collect();
        if !have.is_empty() && (self.cols.len() >= self.max_cols || self.chance(60)) {
            let k = self.pick(have.len());
            E::Col(have[k])
        } else if self.cols.len() < self.max_cols {
            self.cols.push((ty, kind));
            E::Col(self.cols.len() - 1)
        } else {
            self.lit(ty, kind)
        }
    }
    fn leaf(&mut self, ty: Ty, kind: u8) -> E {
        if ty == Ty::Intv {
            return self.lit(ty, 0);
        }
        match self.pick(100) {
            0..=64 => self.col(ty, kind),
            65..=94 => self.lit(ty, kind),
            _ => E::Lit(ty, V::Null),
        }
    }

    pub fn expr(&mut self, ty: Ty, depth: u32) -> E {
        let leaf_pct = match depth {
            0 => 100,
            1 => 45,
            2 => 28,
            _ => 8,
        };
        if self.chance(leaf_pct) {
            return self.leaf(ty, K_TEXT);
        }
        let d = depth - 1;
        match ty {
            Ty::Bool => match self.wpick(&[25, 10, 18, 5, 8, 7, 8, 5, 6]) {
                0 => {
                    let ta = self.numty();
                    let tb = if self.chance(55) { ta } else { self.numty() };
                    let op = self.cmp_op();
                    E::Bin(op, self.num_operand(ta, tb, d).b(), self.num_operand(tb, ta, d).b())
                }
                1 => {
                    let t = [Ty::Str, Ty::Date, Ty::Bool][self.pick(3)];
                    let op = self.cmp_op();
                    E::Bin(op, self.expr(t, d).b(), self.expr(t, d).b())
                }
                2 => {
                    let op = if self.chance(50) { Bop::And } else { Bop::Or };
                    let (a, b) = self.logic(|g| (g.expr(Ty::Bool, d), g.expr(Ty::Bool, d)));
                    E::Bin(op, a.b(), b.b())
                }
                3 => E::Un(Uop::Not, self.logic(|g| g.expr(Ty::Bool, d)).b()),
                4 => {
                    let t = self.anyty();
                    let op = if self.chance(50) { Uop::IsNull } else { Uop::IsNotNull };
                    E::Un(op, self.expr(t, d).b())
                }
                5 => {
                    const P: [&str; 14] =
                        ["%", "a%", "%b", "_", "a_c", "%a%", "", "ab", "_%", "%_%", "a%b%", "é", "__", "%é"];
                    const M: [&str; 5] = ["a.c", ".*", "a+", "(", "[a]"];
                    let a = self.expr(Ty::Str, d);
                    let meta = !self.chance(92);
                    let p = if meta && self.sw.like_meta {
                        M[self.pick(M.len())]
                    } else {
                        if meta {
                            self.steer(SWITCHES[4]);
                        }
                        P[self.pick(P.len())]
                    };
                    let neg = !self.chance(75);
                    E::Like(a.b(), p.to_string(), neg)
                }
                6 => {
                    let t = [Ty::I32, Ty::Str, Ty::I64, Ty::Date, Ty::Bool, Ty::Dec, Ty::F64, Ty::I16][self.pick(8)];
                    let a = self.expr(t, d);
                    let n = 1 + self.pick(3);
                    let l = (0..n).map(|_| if self.chance(65) { self.litn(t) } else { self.expr(t, d) }).collect();
                    let neg = !self.chance(75);
                    E::In(a.b(), l, neg)
                }
                7 => {
                    let t = if self.chance(70) { self.numty() } else { [Ty::Str, Ty::Date][self.pick(2)] };
                    let neg = !self.chance(80);
                    E::Between(self.expr(t, d).b(), self.expr(t, d).b(), self.expr(t, d).b(), neg)
                }
                _ => {
                    if self.in_logic && !self.sw.bool_raw {
                        self.steer(SWITCHES[8]);
                        return self.leaf(Ty::Bool, 0);
                    }
                    let src = [Ty::I32, Ty::I16, Ty::I64, Ty::F64, Ty::Dec, Ty::Str][self.pick(6)];
                    E::Cast(Ty::Bool, self.cast_src(src, K_BOOL, d).b())
                }
            },
            Ty::I16 | Ty::I32 | Ty::I64 | Ty::F64 | Ty::Dec => {
                let w_neg = if ty == Ty::I16 { 0 } else { 6 };
                let w_ext = if ty == Ty::I32 { 6 } else { 0 };
                match self.wpick(&[45, w_neg, 17, 12, w_ext]) {
                    0 => self.arith(ty, d),
                    1 => E::Un(Uop::Neg, self.expr(ty, d).b()),
                    2 => {
                        let mut srcs = vec![Ty::Bool, Ty::I16, Ty::I32, Ty::I64, Ty::F64, Ty::Dec, Ty::Str];
                        srcs.retain(|s| *s != ty);
                        let src = srcs[self.pick(srcs.len())];
                        let kind = if ty.is_int() { K_INT } else { K_FLOAT };
                        if src == Ty::F64 && ty == Ty::Dec {
                            return E::Cast(ty, self.num_operand(src, ty, d).b());
                        }
                        E::Cast(ty, self.cast_src(src, kind, d).b())
                    }
                    3 => self.case(ty, d),
                    _ => {
                        let f = [Field::Year, Field::Month, Field::Day][self.pick(3)];
                        E::Extract(f, self.expr(Ty::Date, d).b())
                    }
                }
            }
            Ty::Str => match self.wpick(&[20, 20, 10, 8, 25]) {
                0 => E::Bin(Bop::Concat, self.expr(Ty::Str, d).b(), self.expr(Ty::Str, d).b()),
                1 => {
                    let a = self.expr(Ty::Str, d);
                    let f = if self.chance(80) {
                        // also positions counted from the end
                        Some(if self.chance(25) { E::Lit(Ty::I32, V::I([-1, -2, -3][self.pick(3)])).b() } else { self.small_i32(d).b() })
                    } else {
                        None
                    };
                    let l = if self.chance(70) { Some(self.small_i32(d).b()) } else { None };
                    E::Substr(a.b(), f, l)
                }
                2 => {
                    let a = self.expr(Ty::Str, d);
                    let f = ["a", "b", "ab", "é", " "][self.pick(5)];
                    let t = ["", "x", "ab", "é"][self.pick(4)];
                    E::Replace(a.b(), f.into(), t.into())
                }
                3 => {
                    let a = self.expr(Ty::Str, d);
                    let n = if self.chance(70) {
                        E::Lit(Ty::I32, V::I([1, 0, 2, 3, -1][self.pick(5)]))
                    } else {
                        E::Cast(Ty::I32, self.expr(Ty::Bool, d).b())
                    };
                    E::Repeat(a.b(), n.b())
                }
                _ => {
                    let mut src = [Ty::I32, Ty::Bool, Ty::I16, Ty::I64, Ty::F64, Ty::Dec, Ty::Date][self.pick(7)];
                    if src == Ty::Dec && !self.dec_text {
                        src = Ty::I64;
                    }
                    E::Cast(Ty::Str, self.expr(src, d).b())
                }
            },
            Ty::Date => match self.wpick(&[55, 20, 25]) {
                0 => {
                    let op = if self.chance(50) { Bop::Add } else { Bop::Sub };
                    E::Bin(op, self.expr(Ty::Date, d).b(), self.lit(Ty::Intv, 0).b())
                }
                1 => E::Cast(Ty::Date, self.cast_src(Ty::Str, K_DATE, d).b()),
                _ => self.case(Ty::Date, d),
            },
            _ => self.leaf(ty, 0),
        }
    }

    fn logic<T>(&mut self, f: impl FnOnce(&mut Self) -> T) -> T {
        let old = std::mem::replace(&mut self.in_logic, true);
        let r = f(self);
        self.in_logic = old;
        r
    }

    fn anyty(&mut self) -> Ty {
        [Ty::I32, Ty::Str, Ty::Bool, Ty::I64, Ty::F64, Ty::Dec, Ty::Date, Ty::I16][self.pick(8)]
    }

    fn cmp_op(&mut self) -> Bop {
        [Bop::Eq, Bop::Lt, Bop::Ne, Bop::Ge, Bop::Gt, Bop::Le][self.pick(6)]
    }

    /// a literal, sometimes the typed NULL
    fn litn(&mut self, t: Ty) -> E {
        if self.chance(88) { self.lit(t, 0) } else { E::Lit(t, V::Null) }
    }

    fn small_i32(&mut self, d: u32) -> E {
        if self.chance(70) { E::Lit(Ty::I32, V::I([1, 0, 2, 3, 5, 100][self.pick(6)])) } else { self.expr(Ty::I32, d) }
    }

    /// The operand of a cast: for a string source, text of the kind the target parses.
    fn cast_src(&mut self, src: Ty, kind: u8, d: u32) -> E {
        if src != Ty::Str {
            return self.expr(src, d);
        }
        match self.pick(100) {
            0..=59 => self.col(Ty::Str, kind),
            60..=79 => self.lit(Ty::Str, kind),
            _ => {
                // round trip through text
                let t = match kind {
                    K_INT => [Ty::I32, Ty::I64, Ty::I16][self.pick(3)],
                    K_FLOAT => [Ty::F64, if self.dec_text { Ty::Dec } else { Ty::F64 }, Ty::I32][self.pick(3)],
                    K_BOOL => Ty::Bool,
                    _ => Ty::Date,
                };
                E::Cast(Ty::Str, self.expr(t, d).b())
            }
        }
    }

    fn arith(&mut self, ty: Ty, d: u32) -> E {
        let op = [Bop::Add, Bop::Sub, Bop::Mul, Bop::Div, Bop::Rem][self.wpick(&[3, 3, 3, 3, 2])];
        let lower: Vec<Ty> = NUM.iter().copied().filter(|t| *t <= ty).collect();
        let other = if self.chance(60) { ty } else { lower[self.pick(lower.len())] };
        let (ta, tb) = if self.chance(50) { (ty, other) } else { (other, ty) };
        let a = self.num_operand(ta, tb, d);
        let b = if op == Bop::Rem && !self.sw.rem_divisor {
            self.steer(SWITCHES[1]);
            self.nonzero_lit(tb)
        } else {
            self.num_operand(tb, ta, d)
        };
        E::Bin(op, a.b(), b.b())
    }

    /// A numeric operand of type `t` next to an operand of type `other`. A double that is
    /// converted to decimal must fit a decimal: with boundary values only leaves are used
    /// (computed doubles leave the decimal range; what then happens is not SQL's business).
    fn num_operand(&mut self, t: Ty, other: Ty, d: u32) -> E {
        if t == Ty::F64 && other == Ty::Dec && self.dom == Dom::Extreme { self.leaf(t, 0) } else { self.expr(t, d) }
    }

    fn case(&mut self, ty: Ty, d: u32) -> E {
        let c = self.logic(|g| g.expr(Ty::Bool, d));
        if self.sw.case_nullable {
            let a = self.expr(ty, d);
            let b = if self.chance(75) { Some(self.expr(ty, d).b()) } else { None };
            E::Case(c.b(), a.b(), b)
        } else {
            self.steer(SWITCHES[2]);
            E::Case(c.b(), self.lit(ty, 0).b(), Some(self.lit(ty, 0).b()))
        }
    }

    /// A shape the type checker accepts although no kernel implements it.
    pub fn probe(&mut self) -> ExprCase {
        let k = self.pick(8);
        let e = match k {
            0 => E::Un(Uop::Neg, self.col(Ty::I16, 0).b()),
            1 | 2 => {
                let t = if k == 1 { Ty::Str } else { Ty::Bool };
                let c = self.expr(Ty::Bool, 1);
                E::Case(c.b(), self.leaf(t, 0).b(), Some(self.leaf(t, 0).b()))
            }
            3 => {
                let op = self.cmp_op();
                E::Bin(op, self.col(Ty::I32, 0).b(), E::Lit(Ty::Str, V::S("1".into())).b())
            }
            4 => {
                let op = [Bop::Add, Bop::Mul, Bop::Sub][self.pick(3)];
                E::Bin(op, self.col(Ty::I32, 0).b(), E::RawNull.b())
            }
            5 => {
                let op = self.cmp_op();
                E::Bin(op, self.col(Ty::I32, 0).b(), E::RawNull.b())
            }
            6 => {
                let op = if self.chance(50) { Bop::And } else { Bop::Or };
                E::Bin(op, self.col(Ty::Bool, 0).b(), E::RawNull.b())
            }
            _ => E::Bin(Bop::Xor, self.col(Ty::Bool, 0).b(), self.leaf(Ty::Bool, 0).b()),
        };
        ExprCase { e, novalue: k == 3 }
    }

    /// Top-level expression of a result type that can be printed.
    pub fn top(&mut self, depth: u32) -> E {
        let ty = [Ty::I32, Ty::Bool, Ty::I64, Ty::Str, Ty::F64, Ty::Dec, Ty::I16, Ty::Date]
            [self.wpick(&[20, 30, 9, 12, 8, 9, 6, 6])];
        for _ in 0..4 {
            let e = self.expr(ty, depth.max(1));
            if !e.is_leaf() {
                return e;
            }
        }
        self.expr(ty, depth)
    }
}

/// The simplest non-NULL value of a column (never makes a generated expression fail).
pub fn safe_value(ty: Ty, kind: u8, sw: &Sw) -> V {
    value(ty, kind, Dom::Small, sw, 0)
}

/// A constant sub-expression (not the root, not a literal) whose value is NULL.
pub fn has_null_const_sub(e: &E, cols: &[Ty], root: bool) -> bool {
    fn null_lit(e: &E) -> bool {
        matches!(e, E::Lit(_, V::Null) | E::RawNull) || e.children().iter().any(|c| null_lit(c))
    }
    // a typed NULL literal is written as a cast, which the planner does not fold
    if !root && !e.is_leaf() && e.is_const() && !null_lit(e) {
        if let Ok(V::Null) = e.eval(cols, &[]) {
            return true;
        }
    }
    e.children().iter().any(|c| has_null_const_sub(c, cols, false))
}

/// Does the expression make sense for every row (no error on the safe row and the all-NULL row)?
pub fn viable(e: &E, cols: &[(Ty, u8)], sw: &Sw) -> bool {
    let tys: Vec<Ty> = cols.iter().map(|c| c.0).collect();
    let safe: Vec<V> = cols.iter().map(|c| safe_value(c.0, c.1, sw)).collect();
    let nulls: Vec<V> = cols.iter().map(|_| V::Null).collect();
    e.eval(&tys, &safe).is_ok() && e.eval(&tys, &nulls).is_ok() && (sw.const_null_sub || !has_null_const_sub(e, &tys, true))
}

/// Generate a viable expression (a few attempts, then a plain column).
pub fn viable_top(g: &mut G, depth: u32) -> E {
    for k in 0..4 {
        let before = g.cols.len();
        let e = g.top(depth.saturating_sub(k / 2));
        if viable(&e, &g.cols, g.sw) {
            return e;
        }
        if !g.sw.const_null_sub && has_null_const_sub(&e, &g.cols.iter().map(|c| c.0).collect::<Vec<_>>(), true) {
            g.steer(SWITCHES[6]);
        }
        g.cols.truncate(before.max(1));
    }
    let c = g.col(Ty::I32, 0);
    E::Bin(Bop::Add, c.b(), E::Lit(Ty::I32, V::I(1)).b())
}

/// One cell from two seeds: the null decision by the column's null mode, the value from the domain.
pub fn cell(ty: Ty, kind: u8, dom: Dom, sw: &Sw, null_mode: usize, seed: u16) -> V {
    let hi = (seed >> 8) as usize;
    let null = match null_mode {
        0 => hi < 52,
        1 => false,
        2 => hi < 154,
        _ => true,
    };
    if null { V::Null } else { value(ty, kind, dom, sw, (seed & 0xff) as usize) }
}

pub const LENS: [usize; 18] = [0, 1, 2, 31, 32, 33, 63, 64, 65, 66, 127, 128, 129, 130, 191, 192, 193, 200];

/// Snap a length to a bitmap-word boundary neighbourhood most of the time.
pub fn snap_len(len: usize, f0: u16, f1: u16) -> usize {
    let c: Vec<usize> = LENS.iter().copied().filter(|l| *l <= len).collect();
    if f0 % 10 < 7 && !c.is_empty() { c[c.len() - 1 - (f1 as usize % 3).min(c.len() - 1)] } else { len }
}

pub fn len_class(n: usize) -> &'static str {
    match n {
        0 => "len0",
        1 => "len1",
        2..=62 => "len2-62",
        63..=65 => "len63-65",
        66..=126 => "len66-126",
        127..=129 => "len127-129",
        130..=190 => "len130-190",
        191..=193 => "len191-193",
        _ => "len194+",
    }
}
