//! C10: statements, the sequential reference model and the serial-order search.

use std::collections::HashSet;

use serde::{Deserialize, Serialize};

/// Number of table names in the pool.
pub const NT: usize = 2;

#[derive(Clone, Copy, Debug, PartialEq, Eq, Hash, PartialOrd, Ord, Serialize, Deserialize)]
pub enum Kind {
    Create,
    Drop,
    Insert,
    Delete,
    Select,
}

impl Kind {
    pub const ALL: [Kind; 5] = [Kind::Create, Kind::Drop, Kind::Insert, Kind::Delete, Kind::Select];
    pub fn name(self) -> &'static str {
        match self {
            Kind::Create => "create",
            Kind::Drop => "drop",
            Kind::Insert => "insert",
            Kind::Delete => "delete",
            Kind::Select => "select",
        }
    }
}

pub fn mk_pair(a: Kind, b: Kind) -> (Kind, Kind) {
    if a <= b { (a, b) } else { (b, a) }
}

pub fn pair_name(p: (Kind, Kind)) -> String {
    format!("{}+{}", p.0.name(), p.1.name())
}

pub fn all_pairs() -> Vec<(Kind, Kind)> {
    let mut v = vec![];
    for (i, a) in Kind::ALL.iter().enumerate() {
        for b in &Kind::ALL[i..] {
            v.push((*a, *b));
        }
    }
    v
}

/// Attribution order when several pairs overlapped: DDL races first.
pub fn culprit_priority() -> Vec<(Kind, Kind)> {
    use Kind::*;
    vec![
        (Create, Create),
        (Drop, Insert),
        (Drop, Delete),
        (Create, Drop),
        (Drop, Drop),
        (Drop, Select),
        (Create, Insert),
        (Create, Delete),
        (Create, Select),
        (Delete, Delete),
        (Insert, Delete),
        (Insert, Insert),
        (Delete, Select),
        (Insert, Select),
        (Select, Select),
    ]
}

#[derive(Clone, Debug, PartialEq, Eq, Hash, Serialize, Deserialize)]
pub enum Stmt {
    Create(u8),
    Drop(u8),
    Insert(u8, i32),
    DeleteEq(u8, i32),
    DeleteAll(u8),
    Count(u8),
}

impl Stmt {
    pub fn table(&self) -> usize {
        match self {
            Stmt::Create(t) | Stmt::Drop(t) | Stmt::Insert(t, _) | Stmt::DeleteEq(t, _) | Stmt::DeleteAll(t) | Stmt::Count(t) => {
                *t as usize % NT
            }
        }
    }
    pub fn kind(&self) -> Kind {
        match self {
            Stmt::Create(_) => Kind::Create,
            Stmt::Drop(_) => Kind::Drop,
            Stmt::Insert(..) => Kind::Insert,
            Stmt::DeleteEq(..) | Stmt::DeleteAll(_) => Kind::Delete,
            Stmt::Count(_) => Kind::Select,
        }
    }
    pub fn sql(&self) -> String {
        let t = self.table();
        match self {
            Stmt::Create(_) => format!("create table t{t}(a int)"),
            Stmt::Drop(_) => format!("drop table t{t}"),
            Stmt::Insert(_, v) => format!("insert into t{t} values ({v})"),
            Stmt::DeleteEq(_, v) => format!("delete from t{t} where a = {v}"),
            Stmt::DeleteAll(_) => format!("delete from t{t} where true"),
            Stmt::Count(_) => format!("select count(*) from t{t}"),
        }
    }
}

/// Per pool name: absent, or the sorted multiset of values.
pub type Model = Vec<Option<Vec<i32>>>;

pub fn fmt_model(m: &Model) -> String {
    let v: Vec<String> = m
        .iter()
        .enumerate()
        .map(|(i, t)| match t {
            None => format!("t{i} absent"),
            Some(r) => format!("t{i}={r:?}"),
        })
        .collect();
    v.join(", ")
}

#[derive(Clone, Debug, Serialize, Deserialize)]
pub struct Workload {
    /// state built serially before the sessions start
    pub init: Model,
    pub sessions: Vec<Vec<Stmt>>,
}

/// Outcome of a statement as its session saw it.
#[derive(Clone, Debug, PartialEq, Eq)]
pub enum Outc {
    /// acknowledged; the reported count (1 for DDL and INSERT)
    Ok(i64),
    /// not accepted (bind error) or failed (execution/storage error)
    Err(String),
    Panicked(String),
    /// acknowledged, but without the one-row result every statement of the domain returns
    NoRow(String),
}

impl Outc {
    pub fn value(&self) -> Option<i64> {
        match self {
            Outc::Ok(n) => Some(*n),
            _ => None,
        }
    }
}

/// Sequential semantics: `None` = the statement is refused and changes nothing.
pub fn apply(m: &mut Model, s: &Stmt) -> Option<i64> {
    let t = s.table();
    match s {
        Stmt::Create(_) => {
            if m[t].is_some() {
                return None;
            }
            m[t] = Some(vec![]);
            Some(1)
        }
        Stmt::Drop(_) => m[t].take().map(|_| 1),
        Stmt::Insert(_, v) => {
            let rows = m[t].as_mut()?;
            let at = rows.partition_point(|x| x <= v);
            rows.insert(at, *v);
            Some(1)
        }
        Stmt::DeleteEq(_, v) => {
            let rows = m[t].as_mut()?;
            let n = rows.len();
            rows.retain(|x| x != v);
            Some((n - rows.len()) as i64)
        }
        Stmt::DeleteAll(_) => {
            let rows = m[t].as_mut()?;
            let n = rows.len();
            rows.clear();
            Some(n as i64)
        }
        Stmt::Count(_) => m[t].as_ref().map(|r| r.len() as i64),
    }
}

fn agrees(s: &Stmt, model: Option<i64>, observed: Option<i64>) -> bool {
    match s.kind() {
        Kind::Create | Kind::Drop => model.is_some() == observed.is_some(),
        _ => model == observed,
    }
}

struct Search<'a> {
    sess: &'a [Vec<Stmt>],
    obs: &'a [Vec<Option<i64>>],
    fin: Option<&'a Model>,
    dead: HashSet<(Vec<u8>, Model)>,
    order: Vec<(usize, usize)>,
}

impl Search<'_> {
    fn dfs(&mut self, pos: &mut Vec<u8>, m: &Model) -> bool {
        if pos.iter().zip(self.sess).all(|(p, s)| *p as usize == s.len()) {
            return self.fin.is_none_or(|f| f == m);
        }
        if self.dead.contains(&(pos.clone(), m.clone())) {
            return false;
        }
        for s in 0..self.sess.len() {
            let i = pos[s] as usize;
            if i >= self.sess[s].len() {
                continue;
            }
            let mut m2 = m.clone();
            let r = apply(&mut m2, &self.sess[s][i]);
            if !agrees(&self.sess[s][i], r, self.obs[s][i]) {
                continue;
            }
            pos[s] += 1;
            self.order.push((s, i));
            if self.dfs(pos, &m2) {
                return true;
            }
            self.order.pop();
            pos[s] -= 1;
        }
        self.dead.insert((pos.clone(), m.clone()));
        false
    }
}

/// A total order of all statements, respecting session order, whose sequential execution from
/// `init` yields every observed outcome and (if given) the final state.
pub fn explain(sess: &[Vec<Stmt>], obs: &[Vec<Option<i64>>], init: &Model, fin: Option<&Model>) -> Option<Vec<(usize, usize)>> {
    let mut s = Search { sess, obs, fin, dead: HashSet::new(), order: vec![] };
    let mut pos = vec![0u8; sess.len()];
    s.dfs(&mut pos, init).then_some(s.order)
}

/// The statements on table `t` only (for attribution).
pub fn project(sess: &[Vec<Stmt>], obs: &[Vec<Option<i64>>], t: usize) -> (Vec<Vec<Stmt>>, Vec<Vec<Option<i64>>>) {
    let mut ps = vec![];
    let mut po = vec![];
    for (stmts, outs) in sess.iter().zip(obs) {
        let keep: Vec<usize> = (0..stmts.len()).filter(|i| stmts[*i].table() == t).collect();
        ps.push(keep.iter().map(|i| stmts[*i].clone()).collect());
        po.push(keep.iter().map(|i| outs[*i]).collect());
    }
    (ps, po)
}

#[cfg(test)]
mod tests {
    use super::*;
    #[test]
    fn double_delete_is_inexplicable() {
        use Stmt::*;
        let sess = vec![
            vec![DeleteAll(0), DeleteAll(0), DeleteEq(1, 3)],
            vec![DeleteAll(0), Count(0), Insert(0, 3), Insert(0, 3)],
            vec![Count(0), Count(0), Create(0)],
        ];
        let obs = vec![vec![Some(2), Some(0), Some(0)], vec![Some(2), Some(0), Some(1), Some(1)], vec![Some(2), Some(2), None]];
        let init: Model = vec![Some(vec![1, 1]), Some(vec![2])];
        // the outcomes alone have an explanation (s1, s2, s0) but it ends with an empty t0
        assert!(explain(&sess, &obs, &init, None).is_some());
        assert!(explain(&sess, &obs, &init, Some(&vec![Some(vec![3, 3]), Some(vec![2])])).is_none());
        assert!(explain(&sess, &obs, &init, Some(&vec![Some(vec![]), Some(vec![2])])).is_some());
    }
}
