//! Registry of the property checks.
use crate::engine::*;

pub mod c01;
pub mod c01_rules;
pub mod selftest;
pub mod sqlcase;

pub fn all() -> Vec<PropDef> {
    vec![selftest::def(), c01::def()]
}
