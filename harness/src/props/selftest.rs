//! C00 — engine self-test (not a property of risinglight; not in the manifest).
//! RLV_SELFTEST=fail|hang|abort makes case values >= 900 misbehave.
use proptest::prelude::*;

use crate::engine::*;

pub fn def() -> PropDef {
    PropDef {
        id: "C00",
        level: "exploration",
        rule: "engine self-test",
        assumptions: vec![],
        min_nontrivial: 2,
        parts: vec![part(
            "ints",
            2000,
            20000,
            |_ctx| (0u32..1000, prop::collection::vec(0u8..10, 0..20)),
            |_ctx, (x, v): &(u32, Vec<u8>), st| {
                st.eval();
                if *x > 10 {
                    st.nontrivial((*x, v.len()));
                }
                let mode = std::env::var("RLV_SELFTEST").unwrap_or_default();
                if *x >= 900 && v.len() >= 3 {
                    match mode.as_str() {
                        "fail" => return fail("selftest", format!("x={x} len={}", v.len())),
                        "hang" => loop {
                            std::hint::spin_loop();
                        },
                        "abort" => std::process::abort(),
                        _ => {}
                    }
                }
                Verdict::Pass
            },
        )],
    }
}
