//! C16 part (a): typed query generator. A case stores raw indices; `Rend` turns them into SQL
//! against the case's schema (indices are mapped monotonically, so shrinking an index moves to an
//! earlier = simpler alternative). The generator only has to produce statements the binder accepts;
//! the oracle never uses the types computed here (they steer generation and name signatures).
use std::collections::BTreeSet;

use proptest::prelude::*;
use serde::{Deserialize, Serialize};

pub fn pick(i: u16, n: usize) -> usize {
    ((i as usize) * n) >> 16
}

#[derive(Clone, Copy, Debug, PartialEq, Eq, PartialOrd, Ord, Hash, Serialize, Deserialize)]
pub enum Ty {
    Null,
    Bool,
    I16,
    I32,
    I64,
    F64,
    Dec,
    Date,
    Ts,
    Tstz,
    Intv,
    Str,
    Blob,
}

#[derive(Clone, Copy, Debug, PartialEq, Eq, Hash, Serialize, Deserialize)]
pub enum Cls {
    Num,
    Bool,
    Str,
    Date,
    Intv,
    Ts,
    Tstz,
    Blob,
}

impl Ty {
    pub fn cls(self) -> Option<Cls> {
        Some(match self {
            Ty::Null => return None,
            Ty::Bool => Cls::Bool,
            Ty::I16 | Ty::I32 | Ty::I64 | Ty::F64 | Ty::Dec => Cls::Num,
            Ty::Date => Cls::Date,
            Ty::Ts => Cls::Ts,
            Ty::Tstz => Cls::Tstz,
            Ty::Intv => Cls::Intv,
            Ty::Str => Cls::Str,
            Ty::Blob => Cls::Blob,
        })
    }
}

/// Column types of the generated tables: (SQL spelling, type, literals that convert exactly).
pub const A_TYPES: &[(&str, Ty, &[&str])] = &[
    ("int", Ty::I32, &["0", "1", "-1", "2", "3", "7", "100", "-50", "1000000", "2147483647"]),
    ("varchar", Ty::Str, &["''", "'a'", "'b'", "'abc'", "'A b'", "'12'", "'é'"]),
    ("boolean", Ty::Bool, &["true", "false"]),
    ("smallint", Ty::I16, &["0", "1", "-1", "2", "127", "-128", "32767", "-32768"]),
    ("bigint", Ty::I64, &["0", "1", "-1", "5", "12345678901", "-9876543210"]),
    ("double", Ty::F64, &["0.0", "1.5", "-2.25", "0.1", "1000000.5", "-0.5"]),
    ("decimal", Ty::Dec, &["0", "1.5", "-2.25", "0.10", "123.456", "1.00"]),
    ("decimal(8,2)", Ty::Dec, &["0.00", "1.50", "-2.25", "123.45"]),
    ("date", Ty::Date, &["date '2024-02-29'", "date '1970-01-01'", "date '1999-12-31'"]),
    // (string literals: two TIMESTAMP literals in one VALUES column have no common type in this dialect)
    ("timestamp", Ty::Ts, &["'2024-02-29 01:02:03'", "'1970-01-01 00:00:00'"]),
    ("interval", Ty::Intv, &["interval '1' day", "interval '2' month", "interval '-3' day"]),
    ("blob", Ty::Blob, &["'ab'", "''", "'\\x00\\xff'"]),
    ("timestamptz", Ty::Tstz, &["'2024-02-29 01:02:03'", "'1970-01-01 00:00:00'"]),
];

#[derive(Clone, Debug, Serialize, Deserialize)]
pub struct Tab {
    /// (index into A_TYPES, NOT NULL)
    pub cols: Vec<(u16, bool)>,
    pub rows: Vec<Vec<u16>>,
    /// rows before `split` go into a first INSERT, the rest into a second one
    pub split: u16,
}

#[derive(Clone, Debug, Serialize, Deserialize)]
pub enum E {
    Col(u16),
    Lit(u16),
    Null,
    CastNull(u16),
    Neg(Box<E>),
    Ar(u8, Box<E>, Box<E>),
    DateAr(bool, Box<E>, Box<E>),
    Cmp(u8, Cls, Box<E>, Box<E>),
    Logic(bool, Box<E>, Box<E>),
    Not(Box<E>),
    IsNull(bool, Cls, Box<E>),
    Like(bool, Box<E>, u16),
    Between(Cls, Box<E>, Box<E>, Box<E>),
    InList(bool, u16, Vec<u16>),
    Case(Vec<(E, E)>, Option<Box<E>>),
    Concat(Box<E>, Box<E>),
    Substr(Box<E>, u8, u8),
    Replace(Box<E>, u16, u16),
    Repeat(Box<E>, u8),
    Extract(u8, Box<E>),
    Cast(u16, Cls, Box<E>),
}

#[derive(Clone, Debug, Serialize, Deserialize)]
pub enum Item {
    Expr(Cls, E),
    Star,
    /// window function: (function, argument column, partition column, order column)
    Win(u8, u16, Option<u16>, Option<u16>),
}

#[derive(Clone, Debug, Serialize, Deserialize)]
pub struct AggItem {
    pub f: u8,
    pub cls: Cls,
    pub arg: E,
    pub post: u8,
}

#[derive(Clone, Debug, Serialize, Deserialize)]
pub enum Mode {
    Plain(Vec<Item>),
    Agg(Vec<AggItem>),
    Group(Vec<(Cls, E)>, Vec<AggItem>, Option<(u8, u16)>),
    Values(Vec<Vec<(u16, u16)>>),
}

#[derive(Clone, Debug, Serialize, Deserialize)]
pub enum Sub {
    /// exists (select * from other [where other.x = this.y])
    Exists(bool, bool, u16),
    /// col in (select col from other)
    In(u16),
}

#[derive(Clone, Debug, Serialize, Deserialize)]
pub struct Query {
    /// 0 none, 1 derived table, 2 CTE
    pub wrap: u8,
    /// 0 t0, 1 t1, 2 t0 self join, 3.. t0 ⋈ t1
    pub from: u8,
    /// inner, left, right, full, cross, semi, anti
    pub join: u8,
    /// join condition: None = true, Some((idx, as expression))
    pub on: Option<(u16, Option<E>)>,
    pub mode: Mode,
    pub where_: Option<E>,
    pub sub: Option<Sub>,
    pub distinct: bool,
    pub order: Vec<(u16, bool)>,
    pub limit: Option<(u8, u8)>,
}

// ---------------------------------------------------------------------------------------------
// strategies

fn bx(s: BoxedStrategy<E>) -> BoxedStrategy<Box<E>> {
    s.prop_map(Box::new).boxed()
}

fn leaf() -> BoxedStrategy<E> {
    prop_oneof![
        12 => any::<u16>().prop_map(E::Col),
        6 => any::<u16>().prop_map(E::Lit),
        1 => Just(E::Null),
        1 => any::<u16>().prop_map(E::CastNull),
    ]
    .boxed()
}

#[derive(Clone)]
struct Lv {
    num: BoxedStrategy<E>,
    bool_: BoxedStrategy<E>,
    str_: BoxedStrategy<E>,
    date: BoxedStrategy<E>,
}

impl Lv {
    fn of(&self, c: Cls) -> BoxedStrategy<E> {
        match c {
            Cls::Num => self.num.clone(),
            Cls::Bool => self.bool_.clone(),
            Cls::Str => self.str_.clone(),
            Cls::Date => self.date.clone(),
            _ => leaf(),
        }
    }
    fn any(&self) -> BoxedStrategy<(Cls, E)> {
        let s = self.clone();
        prop_oneof![
            6 => s.num.clone().prop_map(|e| (Cls::Num, e)),
            3 => s.bool_.clone().prop_map(|e| (Cls::Bool, e)),
            3 => s.str_.clone().prop_map(|e| (Cls::Str, e)),
            2 => s.date.clone().prop_map(|e| (Cls::Date, e)),
            1 => leaf().prop_map(|e| (Cls::Intv, e)),
            1 => leaf().prop_map(|e| (Cls::Ts, e)),
            1 => leaf().prop_map(|e| (Cls::Tstz, e)),
            1 => leaf().prop_map(|e| (Cls::Blob, e)),
        ]
        .boxed()
    }
}

fn case_of(cond: BoxedStrategy<E>, res: BoxedStrategy<E>) -> BoxedStrategy<E> {
    (prop::collection::vec((cond, res.clone()), 1..=2), prop::option::of(bx(res)))
        .prop_map(|(arms, els)| E::Case(arms, els))
        .boxed()
}

fn next(p: &Lv) -> Lv {
    let cmp_cls = prop_oneof![
        5 => Just(Cls::Num), 2 => Just(Cls::Str), 1 => Just(Cls::Bool), 1 => Just(Cls::Date),
        1 => Just(Cls::Ts), 1 => Just(Cls::Intv), 1 => Just(Cls::Blob), 1 => Just(Cls::Tstz)
    ];
    let pp = p.clone();
    let cmp = (0u8..6, cmp_cls)
        .prop_flat_map(move |(o, c)| (Just(o), Just(c), bx(pp.of(c)), bx(pp.of(c))))
        .prop_map(|(o, c, a, b)| E::Cmp(o, c, a, b));
    let pp = p.clone();
    let isnull = (any::<bool>(), pp.any()).prop_map(|(n, (c, e))| E::IsNull(n, c, Box::new(e)));
    let pp = p.clone();
    let between = prop_oneof![3 => Just(Cls::Num), 1 => Just(Cls::Str), 1 => Just(Cls::Date)]
        .prop_flat_map(move |c| (Just(c), bx(pp.of(c)), bx(pp.of(c)), bx(pp.of(c))))
        .prop_map(|(c, a, l, h)| E::Between(c, a, l, h));
    let cast_to = |srcs: Vec<Cls>, p: &Lv| {
        let pp = p.clone();
        (any::<u16>(), prop::sample::select(srcs))
            .prop_flat_map(move |(t, c)| (Just(t), Just(c), bx(pp.of(c))))
            .prop_map(|(t, c, a)| E::Cast(t, c, a))
    };
    let num = prop_oneof![
        4 => leaf(),
        5 => (0u8..5, bx(p.num.clone()), bx(p.num.clone())).prop_map(|(o, a, b)| E::Ar(o, a, b)),
        1 => bx(p.num.clone()).prop_map(E::Neg),
        1 => (0u8..3, bx(p.date.clone())).prop_map(|(f, a)| E::Extract(f, a)),
        2 => case_of(p.bool_.clone(), p.num.clone()),
        2 => cast_to(vec![Cls::Num, Cls::Num, Cls::Bool, Cls::Str], p),
    ]
    .boxed();
    let bool_ = prop_oneof![
        2 => leaf(),
        6 => cmp,
        3 => (any::<bool>(), bx(p.bool_.clone()), bx(p.bool_.clone())).prop_map(|(o, a, b)| E::Logic(o, a, b)),
        1 => bx(p.bool_.clone()).prop_map(E::Not),
        2 => isnull,
        1 => (any::<bool>(), bx(p.str_.clone()), any::<u16>()).prop_map(|(n, a, q)| E::Like(n, a, q)),
        1 => between,
        1 => (any::<bool>(), any::<u16>(), prop::collection::vec(any::<u16>(), 1..=3)).prop_map(|(s, c, l)| E::InList(s, c, l)),
        1 => case_of(p.bool_.clone(), p.bool_.clone()),
        1 => cast_to(vec![Cls::Num, Cls::Str], p),
    ]
    .boxed();
    let str_ = prop_oneof![
        4 => leaf(),
        2 => (bx(p.str_.clone()), bx(p.str_.clone())).prop_map(|(a, b)| E::Concat(a, b)),
        1 => (bx(p.str_.clone()), 0u8..4, 0u8..4).prop_map(|(a, f, l)| E::Substr(a, f, l)),
        1 => (bx(p.str_.clone()), any::<u16>(), any::<u16>()).prop_map(|(a, f, t)| E::Replace(a, f, t)),
        1 => (bx(p.str_.clone()), 0u8..3).prop_map(|(a, n)| E::Repeat(a, n)),
        1 => case_of(p.bool_.clone(), p.str_.clone()),
        3 => cast_to(vec![Cls::Num, Cls::Bool, Cls::Date, Cls::Intv, Cls::Ts, Cls::Str, Cls::Tstz], p),
    ]
    .boxed();
    let date = prop_oneof![
        4 => leaf(),
        3 => (any::<bool>(), bx(p.date.clone()), bx(leaf())).prop_map(|(o, a, b)| E::DateAr(o, a, b)),
        1 => case_of(p.bool_.clone(), p.date.clone()),
        1 => cast_to(vec![Cls::Str, Cls::Date], p),
    ]
    .boxed();
    Lv { num, bool_, str_, date }
}

fn levels(d: u32) -> Lv {
    let mut lv = Lv { num: leaf(), bool_: leaf(), str_: leaf(), date: leaf() };
    for _ in 0..d {
        lv = next(&lv);
    }
    lv
}

fn agg_item(lv: &Lv) -> BoxedStrategy<AggItem> {
    (0u8..9, lv.any(), 0u8..6).prop_map(|(f, (cls, arg), post)| AggItem { f, cls, arg, post }).boxed()
}

pub fn tab_strategy(maxrows: usize) -> BoxedStrategy<Tab> {
    (1usize..=6)
        .prop_flat_map(move |n| {
            (
                prop::collection::vec((any::<u16>(), prop::bool::weighted(0.2)), n),
                prop::collection::vec(prop::collection::vec(any::<u16>(), n), 1..=maxrows),
                any::<u16>(),
            )
        })
        .prop_map(|(cols, rows, split)| Tab { cols, rows, split })
        .boxed()
}

pub fn query_strategy() -> BoxedStrategy<Query> {
    let l1 = levels(1);
    let l2 = levels(2);
    let item = prop_oneof![
        8 => l2.any().prop_map(|(c, e)| Item::Expr(c, e)),
        1 => Just(Item::Star),
        1 => (0u8..7, any::<u16>(), prop::option::of(any::<u16>()), prop::option::of(any::<u16>()))
            .prop_map(|(f, a, p, o)| Item::Win(f, a, p, o)),
    ];
    let item = prop_oneof![3 => item.clone(), 2 => l2.any().prop_map(|(c, e)| Item::Expr(c, e))];
    let lit = (any::<u16>(), any::<u16>());
    let mode = prop_oneof![
        8 => prop::collection::vec(item, 1..=4).prop_map(Mode::Plain),
        4 => prop::collection::vec(agg_item(&l1), 1..=4).prop_map(Mode::Agg),
        4 => (
            prop::collection::vec(l1.any(), 1..=2),
            prop::collection::vec(agg_item(&l1), 0..=3),
            prop::option::weighted(0.2, (0u8..6, any::<u16>()))
        )
            .prop_map(|(k, a, h)| Mode::Group(k, a, h)),
        1 => (1usize..=3).prop_flat_map(move |n| prop::collection::vec(prop::collection::vec(lit.clone(), n), 1..=3))
            .prop_map(Mode::Values),
    ];
    let sub = prop_oneof![
        (any::<bool>(), any::<bool>(), any::<u16>()).prop_map(|(n, c, i)| Sub::Exists(n, c, i)),
        any::<u16>().prop_map(Sub::In),
    ];
    (
        (prop_oneof![6 => Just(0u8), 1 => Just(1u8), 1 => Just(2u8)], 0u8..7, 0u8..7),
        prop::option::weighted(0.8, (any::<u16>(), prop::option::weighted(0.3, l1.bool_.clone()))),
        mode,
        prop::option::weighted(0.4, l2.bool_.clone()),
        prop::option::weighted(0.08, sub),
        prop::bool::weighted(0.1),
        prop::collection::vec((any::<u16>(), any::<bool>()), 0..=2),
        prop::option::weighted(0.2, (0u8..5, 0u8..3)),
    )
        .prop_map(|((wrap, from, join), on, mode, where_, sub, distinct, order, limit)| Query {
            wrap,
            from,
            join,
            on,
            mode,
            where_,
            sub,
            distinct,
            order,
            limit,
        })
        .boxed()
}

// ---------------------------------------------------------------------------------------------
// rendering

#[derive(Clone, Debug)]
pub struct ColRef {
    pub sql: String,
    pub ty: Ty,
    pub ty_idx: usize,
}

pub struct Rend {
    /// columns visible to expressions
    pub cols: Vec<ColRef>,
    /// bare NULL allowed as an operand of an operator
    pub null_ops: bool,
    /// window functions that read their argument allowed
    pub win_args: bool,
    /// arithmetic identities (x*0, x+0, x-x, ...) allowed
    pub arith_ident: bool,
    pub feats: BTreeSet<&'static str>,
    pub steered: BTreeSet<&'static str>,
}

const NUM_LITS: &[(&str, Ty)] = &[
    ("1", Ty::I32),
    ("0", Ty::I32),
    ("2", Ty::I32),
    ("-1", Ty::I32),
    ("3", Ty::I32),
    ("10", Ty::I32),
    ("1.5", Ty::Dec),
    ("0.5", Ty::Dec),
    ("2.25", Ty::Dec),
    ("100", Ty::I32),
    ("12345678901", Ty::I64),
];
const STR_LITS: &[&str] = &["'a'", "'abc'", "''", "'b'", "'12'", "'A b'", "'1.5'", "'2024-02-29'", "'true'"];
const LIKE_PATS: &[&str] = &["'a%'", "'%'", "'_b%'", "''", "'abc'"];
const DATE_LITS: &[&str] = &["date '2024-02-29'", "date '1970-01-01'", "date '1999-12-31'"];
const INTV_LITS: &[&str] = &["interval '1' day", "interval '1' month", "interval '2' year"];

/// SQL type names per class, for casts.
fn cast_types(c: Cls) -> &'static [(&'static str, Ty)] {
    match c {
        Cls::Num => &[
            ("int", Ty::I32),
            ("bigint", Ty::I64),
            ("smallint", Ty::I16),
            ("double", Ty::F64),
            ("decimal", Ty::Dec),
            ("decimal(10,2)", Ty::Dec),
        ],
        Cls::Bool => &[("boolean", Ty::Bool)],
        Cls::Str => &[("varchar", Ty::Str)],
        Cls::Date => &[("date", Ty::Date)],
        Cls::Intv => &[("interval", Ty::Intv)],
        Cls::Ts => &[("timestamp", Ty::Ts)],
        Cls::Tstz => &[("timestamptz", Ty::Tstz)],
        Cls::Blob => &[("blob", Ty::Blob)],
    }
}

fn num_max(a: Ty, b: Ty) -> Ty {
    if a == Ty::Null || b == Ty::Null { Ty::Null } else { a.max(b) }
}

impl Rend {
    fn lit(&mut self, c: Cls, i: u16) -> (String, Ty) {
        match c {
            Cls::Num => {
                let (s, t) = NUM_LITS[pick(i, NUM_LITS.len())];
                (s.into(), t)
            }
            Cls::Bool => (if i < 0x8000 { "true" } else { "false" }.into(), Ty::Bool),
            Cls::Str => (STR_LITS[pick(i, STR_LITS.len())].into(), Ty::Str),
            Cls::Date => (DATE_LITS[pick(i, DATE_LITS.len())].into(), Ty::Date),
            Cls::Intv => (INTV_LITS[pick(i, INTV_LITS.len())].into(), Ty::Intv),
            Cls::Ts => ("timestamp '2024-02-29 01:02:03'".into(), Ty::Ts),
            Cls::Tstz => ("cast('2024-02-29 01:02:03' as timestamptz)".into(), Ty::Tstz),
            Cls::Blob => ("cast('ab' as blob)".into(), Ty::Blob),
        }
    }

    fn col(&mut self, c: Cls, i: u16) -> (String, Ty) {
        let cand: Vec<&ColRef> = self.cols.iter().filter(|x| x.ty.cls() == Some(c)).collect();
        if cand.is_empty() {
            return self.lit(c, i);
        }
        let x = cand[pick(i, cand.len())];
        (x.sql.clone(), x.ty)
    }

    /// A predicate (WHERE / ON). A bare column or constant as the whole predicate is a known
    /// executor limitation that has nothing to do with types: compare it with `true` instead.
    pub fn pred(&mut self, e: &E) -> String {
        let (s, _) = self.expr(e, Cls::Bool, true);
        if !s.contains("a.") && !s.contains("b.") {
            // a constant-only predicate (in particular one folding to NULL) can send the optimiser
            // into an e-graph blow-up of several GB: not a matter of types, never generated
            return match self.cols.first() {
                Some(c) => format!("({} is not null)", c.sql),
                None => "true".into(),
            };
        }
        if matches!(e, E::Col(_) | E::Lit(_) | E::Null | E::CastNull(_)) { format!("({s} = true)") } else { s }
    }

    /// Render `e` as an expression of class `c`. `operand`: the expression is an operand of an
    /// operator / function (where a bare NULL is subject to the `null_ops` switch).
    pub fn expr(&mut self, e: &E, c: Cls, operand: bool) -> (String, Ty) {
        match e {
            E::Col(i) => self.col(c, *i),
            E::Lit(i) => self.lit(c, *i),
            E::Null => {
                if operand && !self.null_ops {
                    self.steered.insert("gen.const_null_operand");
                    let (n, t) = cast_types(c)[0];
                    (format!("cast(null as {n})"), t)
                } else {
                    if operand {
                        self.feats.insert("null-operand");
                    }
                    ("null".into(), Ty::Null)
                }
            }
            E::CastNull(i) => {
                let ts = cast_types(c);
                let (n, t) = ts[pick(*i, ts.len())];
                self.feats.insert("cast-null");
                (format!("cast(null as {n})"), t)
            }
            E::Neg(a) if c == Cls::Num => {
                let (s, t) = self.expr(a, Cls::Num, true);
                (format!("(- {s})"), t)
            }
            E::Ar(o, a, b) if c == Cls::Num => {
                let (x, tx) = self.expr(a, Cls::Num, true);
                let (y, ty) = self.expr(b, Cls::Num, true);
                let mut op = ["+", "-", "*", "/", "%"][*o as usize % 5];
                let (mut x, mut y) = (x, y);
                if !self.arith_ident {
                    // shapes the simplification rules rewrite (x*0, x+0, x*1, x-x, x/x, x+x)
                    for s in [&mut x, &mut y] {
                        if matches!(s.as_str(), "0" | "1" | "-1") {
                            *s = "3".into();
                            self.steered.insert("gen.arith_identity");
                        }
                    }
                    if x == y && op != "*" {
                        op = "*";
                        self.steered.insert("gen.arith_identity");
                    }
                }
                self.feats.insert("arith");
                (format!("({x} {op} {y})"), num_max(tx, ty))
            }
            E::DateAr(o, a, b) if c == Cls::Date => {
                let (x, _) = self.expr(a, Cls::Date, true);
                let (y, _) = self.expr(b, Cls::Intv, true);
                self.feats.insert("date-arith");
                (format!("({x} {} {y})", if *o { "+" } else { "-" }), Ty::Date)
            }
            E::Cmp(o, k, a, b) if c == Cls::Bool => {
                let (x, _) = self.expr(a, *k, true);
                let (y, _) = self.expr(b, *k, true);
                let op = ["=", "<>", "<", "<=", ">", ">="][*o as usize % 6];
                (format!("({x} {op} {y})"), Ty::Bool)
            }
            E::Logic(o, a, b) if c == Cls::Bool => {
                let (x, _) = self.expr(a, Cls::Bool, true);
                let (y, _) = self.expr(b, Cls::Bool, true);
                (format!("({x} {} {y})", if *o { "and" } else { "or" }), Ty::Bool)
            }
            E::Not(a) if c == Cls::Bool => {
                let (x, _) = self.expr(a, Cls::Bool, true);
                (format!("(not {x})"), Ty::Bool)
            }
            E::IsNull(n, k, a) if c == Cls::Bool => {
                let (x, _) = self.expr(a, *k, false);
                (format!("({x} is {}null)", if *n { "not " } else { "" }), Ty::Bool)
            }
            E::Like(n, a, p) if c == Cls::Bool => {
                let (x, _) = self.expr(a, Cls::Str, true);
                let p = LIKE_PATS[pick(*p, LIKE_PATS.len())];
                (format!("({x} {}like {p})", if *n { "not " } else { "" }), Ty::Bool)
            }
            E::Between(k, a, l, h) if c == Cls::Bool => {
                let (x, _) = self.expr(a, *k, true);
                let (l, _) = self.expr(l, *k, true);
                let (h, _) = self.expr(h, *k, true);
                (format!("({x} between {l} and {h})"), Ty::Bool)
            }
            E::InList(s, ci, l) if c == Cls::Bool => {
                // the type checker wants identical types: an INT / VARCHAR column and literals
                let want = if *s { Ty::Str } else { Ty::I32 };
                let cand: Vec<String> = self.cols.iter().filter(|x| x.ty == want).map(|x| x.sql.clone()).collect();
                let lhs = if cand.is_empty() {
                    if *s { "'a'".to_string() } else { "1".to_string() }
                } else {
                    cand[pick(*ci, cand.len())].clone()
                };
                let items: Vec<String> = l
                    .iter()
                    .map(|i| if *s { STR_LITS[pick(*i, STR_LITS.len())].to_string() } else { pick(*i, 5).to_string() })
                    .collect();
                self.feats.insert("in-list");
                (format!("({lhs} in ({}))", items.join(", ")), Ty::Bool)
            }
            E::Case(arms, els) => {
                let mut parts = vec![];
                let mut tys = vec![];
                for (cond, res) in arms {
                    let (w, _) = self.expr(cond, Cls::Bool, false);
                    let (r, t) = self.expr(res, c, false);
                    parts.push((w, r, t));
                    tys.push(t);
                }
                let els = els.as_ref().map(|e| self.expr(e, c, false));
                if let Some((_, t)) = &els {
                    tys.push(*t);
                }
                // SMALLINT has no common type with the other numeric types: cast it
                let mixed = tys.iter().any(|t| *t == Ty::I16) && tys.iter().any(|t| *t != Ty::I16 && *t != Ty::Null);
                let fix = |s: String, t: Ty| if mixed && t == Ty::I16 { (format!("cast({s} as int)"), Ty::I32) } else { (s, t) };
                let mut out = String::from("(case");
                let mut ty = Ty::Null;
                for (w, r, t) in parts {
                    let (r, t) = fix(r, t);
                    ty = if ty == Ty::Null { t } else if t == Ty::Null { ty } else { ty.max(t) };
                    out.push_str(&format!(" when {w} then {r}"));
                }
                if let Some((r, t)) = els {
                    let (r, t) = fix(r, t);
                    ty = if ty == Ty::Null { t } else if t == Ty::Null { ty } else { ty.max(t) };
                    out.push_str(&format!(" else {r}"));
                }
                out.push_str(" end)");
                self.feats.insert("case");
                (out, ty)
            }
            E::Concat(a, b) if c == Cls::Str => {
                let (x, _) = self.expr(a, Cls::Str, true);
                let (y, _) = self.expr(b, Cls::Str, true);
                (format!("({x} || {y})"), Ty::Str)
            }
            E::Substr(a, f, l) if c == Cls::Str => {
                let (x, _) = self.expr(a, Cls::Str, true);
                let s = match (*f, *l) {
                    (0, 0) => format!("substring({x} from 1)"),
                    (0, l) => format!("substring({x} for {l})"),
                    (f, 0) => format!("substring({x} from {f})"),
                    (f, l) => format!("substring({x} from {f} for {l})"),
                };
                (s, Ty::Str)
            }
            E::Replace(a, f, t) if c == Cls::Str => {
                let (x, _) = self.expr(a, Cls::Str, true);
                let f = STR_LITS[pick(*f, 4)];
                let t = STR_LITS[pick(*t, 4)];
                (format!("replace({x}, {f}, {t})"), Ty::Str)
            }
            E::Repeat(a, n) if c == Cls::Str => {
                let (x, _) = self.expr(a, Cls::Str, true);
                (format!("repeat({x}, {n})"), Ty::Str)
            }
            E::Extract(f, a) if c == Cls::Num => {
                let (x, _) = self.expr(a, Cls::Date, true);
                let f = ["year", "month", "day"][*f as usize % 3];
                self.feats.insert("extract");
                (format!("extract({f} from {x})"), Ty::I32)
            }
            E::Cast(t, k, a) => {
                let ts = cast_types(c);
                let (n, t) = ts[pick(*t, ts.len())];
                let (x, _) = self.expr(a, *k, true);
                self.feats.insert("cast");
                (format!("cast({x} as {n})"), t)
            }
            // a node of another class (hand-edited replay file): fall back to a column
            _ => self.col(c, 0),
        }
    }
}

pub fn root_kind(e: &E) -> &'static str {
    match e {
        E::Col(_) => "col",
        E::Lit(_) => "lit",
        E::Null => "null",
        E::CastNull(_) => "castnull",
        E::Neg(_) => "neg",
        E::Ar(..) => "arith",
        E::DateAr(..) => "datearith",
        E::Cmp(..) => "cmp",
        E::Logic(..) => "logic",
        E::Not(_) => "not",
        E::IsNull(..) => "isnull",
        E::Like(..) => "like",
        E::Between(..) => "between",
        E::InList(..) => "inlist",
        E::Case(..) => "case",
        E::Concat(..) => "concat",
        E::Substr(..) => "substr",
        E::Replace(..) => "replace",
        E::Repeat(..) => "repeat",
        E::Extract(..) => "extract",
        E::Cast(..) => "cast",
    }
}

/// A rendered query.
pub struct Rendered {
    pub sql: String,
    /// number of columns of the select list
    pub ncols: usize,
    /// per output column: root kind of the expression (for signatures)
    pub kinds: Vec<&'static str>,
    /// the bound plan is executable without optimisation (no subquery, no RIGHT / FULL join)
    pub noopt_ok: bool,
    pub feats: BTreeSet<&'static str>,
    pub steered: BTreeSet<&'static str>,
}

pub struct Schema {
    pub tabs: Vec<Vec<ColRef>>,
}

pub fn schema_of(tabs: &[Tab]) -> Schema {
    Schema {
        tabs: tabs
            .iter()
            .enumerate()
            .map(|(t, tab)| {
                tab.cols
                    .iter()
                    .enumerate()
                    .map(|(i, (ty, _))| {
                        let k = pick(*ty, A_TYPES.len());
                        ColRef { sql: format!("{}{i}", ["c", "d"][t % 2]), ty: A_TYPES[k].1, ty_idx: k }
                    })
                    .collect()
            })
            .collect(),
    }
}

/// DDL + INSERTs of a table.
pub fn setup_sql(name: &str, pfx: &str, tab: &Tab) -> Vec<String> {
    let mut out = vec![];
    let defs: Vec<String> = tab
        .cols
        .iter()
        .enumerate()
        .map(|(i, (ty, nn))| format!("{pfx}{i} {}{}", A_TYPES[pick(*ty, A_TYPES.len())].0, if *nn { " not null" } else { "" }))
        .collect();
    out.push(format!("create table {name} ({})", defs.join(", ")));
    let rows: Vec<String> = tab
        .rows
        .iter()
        .map(|r| {
            let cells: Vec<String> = tab
                .cols
                .iter()
                .zip(r.iter().chain(std::iter::repeat(&0u16)))
                .map(|((ty, nn), v)| {
                    let lits = A_TYPES[pick(*ty, A_TYPES.len())].2;
                    if *nn {
                        lits[pick(*v, lits.len())].to_string()
                    } else {
                        let k = pick(*v, lits.len() + 1);
                        if k == 0 { "null".to_string() } else { lits[k - 1].to_string() }
                    }
                })
                .collect();
            format!("({})", cells.join(", "))
        })
        .collect();
    let cut = pick(tab.split, rows.len() + 1);
    for part in [&rows[..cut], &rows[cut..]] {
        if !part.is_empty() {
            out.push(format!("insert into {name} values {}", part.join(", ")));
        }
    }
    out
}

const AGG_FUNCS: &[&str] = &["count", "sum", "min", "max", "avg", "count(distinct", "first", "last", "count(*)"];

fn render_agg(r: &mut Rend, a: &AggItem) -> (String, &'static str) {
    let f = a.f as usize % AGG_FUNCS.len();
    // sum / avg need a number
    let cls = if matches!(f, 1 | 4) { Cls::Num } else { a.cls };
    let (mut x, _) = r.expr(&a.arg, cls, true);
    let mut f = f;
    if !x.contains("a.") && !x.contains("b.") {
        // an aggregate over a constant is folded away and then fails to execute: use a column
        let same: Vec<&ColRef> = r.cols.iter().filter(|c| c.ty.cls() == Some(cls)).collect();
        if !same.is_empty() {
            x = same[(a.f as usize / 9 + a.post as usize) % same.len()].sql.clone();
        } else if matches!(f, 1 | 4) {
            f = 8;
        } else {
            x = r.cols[(a.f as usize + a.post as usize) % r.cols.len()].sql.clone();
        }
    }
    let base = match f {
        8 => "count(*)".to_string(),
        5 => format!("count(distinct {x})"),
        _ => format!("{}({x})", AGG_FUNCS[f]),
    };
    let numeric = matches!(f, 0 | 1 | 4 | 5 | 8) || (cls == Cls::Num && x.parse::<f64>().is_err() && r.cols.iter().any(|c| c.sql == x && c.ty.cls() == Some(Cls::Num)) || cls == Cls::Num && x.contains('('));
    r.feats.insert("agg");
    let s = match a.post {
        1 if numeric => format!("({base} + 1)"),
        2 if numeric => format!("({base} * 1.5)"),
        3 => format!("cast({base} as varchar)"),
        4 => format!("({base} is null)"),
        _ => base,
    };
    (s, ["count", "sum", "min", "max", "avg", "countdistinct", "first", "last", "rowcount"][f])
}

fn eq_pair(left: &[ColRef], right: &[ColRef], i: u16) -> String {
    let pairs: Vec<(&str, &str)> = left
        .iter()
        .flat_map(|l| right.iter().filter(move |x| x.ty.cls() == l.ty.cls()).map(move |x| (l.sql.as_str(), x.sql.as_str())))
        .collect();
    if pairs.is_empty() {
        return "true".to_string();
    }
    let (l, x) = pairs[pick(i, pairs.len())];
    format!("{l} = {x}")
}

pub fn render(q: &Query, sch: &Schema, null_ops: bool, win_args: bool, arith_ident: bool, cte_agg: bool) -> Rendered {
    let t0 = &sch.tabs[0];
    let t1 = &sch.tabs[1];
    let qual = |a: &str, cs: &[ColRef]| -> Vec<ColRef> {
        cs.iter().map(|c| ColRef { sql: format!("{a}.{}", c.sql), ty: c.ty, ty_idx: c.ty_idx }).collect()
    };
    let mut r = Rend { cols: vec![], null_ops, win_args, arith_ident, feats: BTreeSet::new(), steered: BTreeSet::new() };
    // FROM
    let (left, right, lname, rname): (Vec<ColRef>, Vec<ColRef>, &str, &str) = match q.from {
        0 => (qual("a", t0), vec![], "t0 a", ""),
        1 => (qual("a", t1), vec![], "t1 a", ""),
        2 => (qual("a", t0), qual("b", t0), "t0 a", "t0 b"),
        _ => (qual("a", t0), qual("b", t1), "t0 a", "t1 b"),
    };
    let semi = !right.is_empty() && q.join % 7 >= 5;
    let mut from_sql = lname.to_string();
    let mut star_cols = left.len();
    if !right.is_empty() {
        r.cols = left.iter().chain(right.iter()).cloned().collect();
        // RIGHT / FULL joins only exist as hash joins (nested loop: todo!()): equi-conditions only
        let outer = matches!(q.join % 7, 2 | 3);
        let on = match &q.on {
            None if !outer => "true".to_string(),
            Some((_, Some(e))) if !outer => r.pred(e),
            None => eq_pair(&left, &right, 0),
            Some((i, _)) => eq_pair(&left, &right, *i),
        };
        let jk = if outer && on == "true" { 0 } else { q.join as usize % 7 };
        let j = ["join", "left join", "right join", "full join", "cross join", "left semi join", "left anti join"][jk];
        from_sql = if jk == 4 { format!("{lname} cross join {rname}") } else { format!("{lname} {j} {rname} on {on}") };
        r.feats.insert(["join-inner", "join-left", "join-right", "join-full", "join-cross", "join-semi", "join-anti"][jk]);
        if semi {
            r.cols = left.clone();
        } else {
            star_cols += right.len();
        }
    } else {
        r.cols = left.clone();
    }
    // WHERE
    let mut conds = vec![];
    if let Some(w) = &q.where_ {
        conds.push(r.pred(w));
        r.feats.insert("where");
    }
    let mut has_subquery = false;
    if let Some(s) = &q.sub {
        // the table the subquery reads: the one that is not the left side
        let (oname, ocols) = if q.from == 1 { ("t0", t0) } else { ("t1", t1) };
        match s {
            Sub::Exists(neg, corr, i) => {
                let pairs: Vec<(String, String)> = left
                    .iter()
                    .flat_map(|l| ocols.iter().filter(move |x| x.ty.cls() == l.ty.cls()).map(move |x| (l.sql.clone(), format!("z.{}", x.sql))))
                    .collect();
                let w = if *corr && !pairs.is_empty() {
                    let (l, x) = &pairs[pick(*i, pairs.len())];
                    format!(" where {x} = {l}")
                } else {
                    String::new()
                };
                conds.push(format!("{}exists (select * from {oname} z{w})", if *neg { "not " } else { "" }));
                has_subquery = true;
                r.feats.insert("exists");
            }
            Sub::In(i) => {
                let pairs: Vec<(String, String)> = left
                    .iter()
                    .flat_map(|l| ocols.iter().filter(move |x| x.ty_idx == l.ty_idx).map(move |x| (l.sql.clone(), format!("z.{}", x.sql))))
                    .collect();
                if !pairs.is_empty() {
                    let (l, x) = &pairs[pick(*i, pairs.len())];
                    conds.push(format!("{l} in (select {x} from {oname} z)"));
                    has_subquery = true;
                    r.feats.insert("in-subquery");
                }
            }
        }
    }
    let where_sql = if conds.is_empty() { String::new() } else { format!(" where {}", conds.join(" and ")) };
    // select list
    let mut items: Vec<String> = vec![];
    let mut kinds: Vec<&'static str> = vec![];
    let mut ncols = 0;
    let mut tail = String::new();
    let mut can_alias = true;
    let mut ord_items: Vec<String> = vec![];
    let mut ord_cols: Vec<String> = vec![];
    match &q.mode {
        Mode::Values(rows) => {
            // literal classes per column: the first row decides the family
            let n = rows[0].len();
            let mut out = vec![];
            for row in rows {
                let mut cells = vec![];
                for (j, (k, v)) in row.iter().enumerate().take(n) {
                    let fam = pick(rows[0][j].0, 4);
                    // family 0: bool/int/decimal/string mix, 1: date|string, 2: interval|string, 3: int|bigint
                    let kk = pick(*k, 6);
                    let s = match (fam, kk) {
                        (_, 0) => "null".to_string(),
                        (0, 1) => r.lit(Cls::Bool, *v).0,
                        (0, 2) | (0, 3) | (3, _) => r.lit(Cls::Num, *v).0,
                        (0, _) | (1, 5) | (2, 5) => r.lit(Cls::Str, *v).0,
                        (1, _) => r.lit(Cls::Date, *v).0,
                        (_, _) => r.lit(Cls::Intv, *v).0,
                    };
                    cells.push(s);
                }
                out.push(format!("({})", cells.join(", ")));
            }
            r.feats.insert("values");
            let sql = format!("values {}", out.join(", "));
            return Rendered { sql, ncols: n, kinds: vec!["values"; n], noopt_ok: true, feats: r.feats, steered: r.steered };
        }
        Mode::Plain(its) => {
            for it in its {
                match it {
                    Item::Expr(c, e) => {
                        let (s, _) = r.expr(e, *c, false);
                        ord_items.push(s.clone());
                        items.push(s);
                        kinds.push(root_kind(e));
                        ncols += 1;
                    }
                    Item::Star => {
                        items.push("*".into());
                        can_alias = false;
                        for _ in 0..star_cols {
                            kinds.push("col");
                        }
                        ncols += star_cols;
                        r.feats.insert("star");
                    }
                    Item::Win(f, a, p, o) => {
                        let mut f = *f as usize % 7;
                        if !r.win_args && f >= 2 {
                            r.steered.insert("gen.window_arg");
                            f %= 2;
                        }
                        let c = &r.cols[pick(*a, r.cols.len())];
                        // sum needs a number
                        let arg = if f == 2 && c.ty.cls() != Some(Cls::Num) {
                            r.cols.iter().find(|x| x.ty.cls() == Some(Cls::Num)).map(|x| x.sql.clone()).unwrap_or("1".into())
                        } else {
                            c.sql.clone()
                        };
                        let call = match f {
                            0 => "row_number()".to_string(),
                            1 => format!("count({arg})"),
                            2 => format!("sum({arg})"),
                            3 => format!("min({arg})"),
                            4 => format!("max({arg})"),
                            5 => format!("first({arg})"),
                            _ => format!("last({arg})"),
                        };
                        let mut over = vec![];
                        if let Some(p) = p {
                            over.push(format!("partition by {}", r.cols[pick(*p, r.cols.len())].sql));
                        }
                        if let Some(o) = o {
                            over.push(format!("order by {}", r.cols[pick(*o, r.cols.len())].sql));
                        }
                        items.push(format!("{call} over ({})", over.join(" ")));
                        kinds.push(["win-row_number", "win-count", "win-sum", "win-min", "win-max", "win-first", "win-last"][f]);
                        ncols += 1;
                        r.feats.insert("window");
                    }
                }
            }
            for c in &r.cols {
                ord_cols.push(c.sql.clone());
            }
        }
        Mode::Agg(aggs) => {
            for a in aggs {
                let (s, k) = render_agg(&mut r, a);
                items.push(s);
                kinds.push(k);
                ncols += 1;
            }
        }
        Mode::Group(keys, aggs, having) => {
            let mut ks = vec![];
            for (c, e) in keys {
                let (s, _) = r.expr(e, *c, false);
                // a constant key is legal but pointless; keep it, the binder accepts it
                ks.push(s.clone());
                ord_items.push(s.clone());
                items.push(s);
                kinds.push(root_kind(e));
                ncols += 1;
            }
            for a in aggs {
                let (s, k) = render_agg(&mut r, a);
                items.push(s);
                kinds.push(k);
                ncols += 1;
            }
            ks.dedup();
            tail.push_str(&format!(" group by {}", ks.join(", ")));
            if let Some((o, v)) = having {
                let op = ["=", "<>", "<", "<=", ">", ">="][*o as usize % 6];
                tail.push_str(&format!(" having count(*) {op} {}", pick(*v, 4)));
                r.feats.insert("having");
            }
            r.feats.insert("group-by");
        }
    }
    let mut wrap = if can_alias { q.wrap } else { 0 };
    let agg_expr = match &q.mode {
        Mode::Agg(a) | Mode::Group(_, a, _) => a.iter().any(|x| x.post != 0),
        _ => false,
    };
    if wrap == 2 && agg_expr && !cte_agg {
        // a CTE column naming an expression over an aggregate is bound to a stale expression
        r.steered.insert("gen.cte_over_agg_expr");
        wrap = 1;
    }
    if wrap != 0 {
        // duplicate output names are ambiguous outside: alias every item
        for (j, it) in items.iter_mut().enumerate() {
            *it = format!("{it} as x{j}");
        }
    }
    let distinct = q.distinct && !matches!(q.mode, Mode::Agg(_));
    if distinct {
        r.feats.insert("distinct");
    }
    // ORDER BY: DISTINCT / GROUP BY may only be ordered by select-list expressions
    let mut order = vec![];
    let usable: Vec<&String> = if distinct || matches!(q.mode, Mode::Group(..)) {
        ord_items.iter().collect()
    } else {
        ord_items.iter().chain(ord_cols.iter()).collect()
    };
    if !matches!(q.mode, Mode::Agg(_)) && !usable.is_empty() && wrap == 0 {
        for (i, desc) in &q.order {
            order.push(format!("{}{}", usable[pick(*i, usable.len())], if *desc { " desc" } else { "" }));
        }
        order.dedup();
    }
    if !order.is_empty() {
        tail.push_str(&format!(" order by {}", order.join(", ")));
        r.feats.insert("order-by");
    }
    if let Some((l, o)) = q.limit {
        tail.push_str(&format!(" limit {l}"));
        if o > 0 {
            tail.push_str(&format!(" offset {o}"));
        }
        r.feats.insert("limit");
    }
    let inner = format!(
        "select {}{} from {from_sql}{where_sql}{tail}",
        if distinct { "distinct " } else { "" },
        items.join(", ")
    );
    let sql = match wrap {
        1 => {
            r.feats.insert("derived-table");
            format!("select * from ({inner}) sq")
        }
        2 => {
            r.feats.insert("cte");
            let names: Vec<String> = (0..ncols).map(|j| format!("x{j}")).collect();
            format!("with w as ({inner}) select {} from w", names.join(", "))
        }
        _ => inner,
    };
    let noopt_ok = !has_subquery && !r.feats.contains("join-right") && !r.feats.contains("join-full");
    Rendered { sql, ncols, kinds, noopt_ok, feats: r.feats, steered: r.steered }
}
