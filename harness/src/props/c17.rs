//! C17 — every accepted statement is planned into an executable plan.

use std::panic::AssertUnwindSafe;

use egg::{Id, Language};
use futures::{FutureExt, TryStreamExt};
use proptest::prelude::*;
use risinglight::array::DataChunk;
use risinglight::binder::Binder;
use risinglight::planner::{Config, Expr, Optimizer, RecExpr, Statistics, TypeSchemaAnalysis};
use serde::{Deserialize, Serialize};

use super::c16_db::{Mini, Store, static_type};
use super::sqlcase::*;
use crate::engine::*;
use crate::gens::sql::*;
use crate::gens::tape::{Tape, tape_strategy};
use crate::sqlrun::*;

#[derive(Clone, Debug, Serialize, Deserialize)]
pub struct PlanCase {
    pub db: DbSpec,
    pub stats: Vec<(String, u32)>,
    pub query: Query,
    pub sql: String,
}

fn decode(ctx: &Ctx, tape: &[u32], disk: Option<DiskCfg>) -> PlanCase {
    let mut cfg = cfg_for(ctx, true);
    // also statements the binder must reject (a column that is neither aggregated nor a group key)
    cfg.ungrouped_items = true;
    let mut t = Tape::new(tape);
    let db = gen_dbspec(&mut t, &cfg, disk);
    let mut stats = vec![];
    for td in &db.schema {
        let k = t.pick(7);
        if k > 0 {
            stats.push((td.name.clone(), [0u32, 1, 10, 1000, 1_000_000, 3, u32::MAX][k]));
        }
    }
    // one case in 25: an ill-formed aggregation over a computed derived column (must be rejected)
    let with_int: Vec<&TableDef> = db.schema.iter().filter(|td| td.cols.iter().any(|c| c.ty == Ty::Int)).collect();
    let ill = if !with_int.is_empty() && t.chance(1, 25) {
        let td = with_int[t.pick(with_int.len())];
        ungrouped_derived_expr_query(&mut t, td)
    } else {
        None
    };
    let query = if let Some(q) = ill {
        q
    } else {
        let mut g = Gen { t: &mut t, cfg: cfg.clone(), schema: &db.schema, alias_no: 0 };
        g.query(0)
    };
    PlanCase { sql: query.print(Dialect::Rl), db, stats, query }
}

fn strat(ctx: &Ctx) -> impl Strategy<Value = PlanCase> + use<> {
    let (off, strict, prop) = (ctx.off_switches(), ctx.strict, ctx.prop.clone());
    (tape_strategy(260), prop::option::weighted(0.4, disk_cfg_strategy(true))).prop_map(move |(tape, disk)| {
        let c = Ctx::switches_only(&prop, off.clone(), strict);
        decode(&c, &tape, disk)
    })
}

/// Coarse shape of the query, used to key findings: which subquery positions / join kinds occur.
fn shape(q: &Query) -> String {
    fn has_corr(q: &Query) -> bool {
        // a subquery whose WHERE mentions an alias it does not define
        fn aliases(q: &Query, v: &mut Vec<String>) {
            for f in &q.from {
                v.push(f.alias.clone());
            }
        }
        fn expr_corr(e: &E, local: &[String]) -> bool {
            match e {
                E::Col(a, _, _) => !local.contains(a),
                E::Bin(_, a, b) => expr_corr(a, local) || expr_corr(b, local),
                E::Not(a) | E::Neg(a) | E::IsNull(a, _) => expr_corr(a, local),
                E::Case(c, t, e2) => expr_corr(c, local) || expr_corr(t, local) || e2.as_ref().is_some_and(|x| expr_corr(x, local)),
                E::InList(a, l, _) => expr_corr(a, local) || l.iter().any(|x| expr_corr(x, local)),
                E::Between(a, l, h) => expr_corr(a, local) || expr_corr(l, local) || expr_corr(h, local),
                E::Agg(_, a, _) => a.as_ref().is_some_and(|x| expr_corr(x, local)),
                _ => false,
            }
        }
        fn sub(e: &E, found: &mut bool) {
            match e {
                E::InSub(a, q, _) => {
                    sub(a, found);
                    check(q, found);
                }
                E::Exists(q, _) | E::Scalar(q) => check(q, found),
                E::Bin(_, a, b) => {
                    sub(a, found);
                    sub(b, found);
                }
                E::Not(a) | E::Neg(a) | E::IsNull(a, _) => sub(a, found),
                E::Case(c, t, e2) => {
                    sub(c, found);
                    sub(t, found);
                    if let Some(x) = e2 {
                        sub(x, found);
                    }
                }
                _ => {}
            }
        }
        fn check(q: &Query, found: &mut bool) {
            let mut local = vec![];
            aliases(q, &mut local);
            if let Some(w) = &q.where_ {
                if expr_corr(w, &local) {
                    *found = true;
                }
            }
        }
        let mut found = false;
        for (e, _) in &q.select {
            sub(e, &mut found);
        }
        if let Some(w) = &q.where_ {
            sub(w, &mut found);
        }
        if let Some(h) = &q.having {
            sub(h, &mut found);
        }
        for f in &q.from {
            if let Some((_, Some(on))) = &f.join {
                sub(on, &mut found);
            }
        }
        found
    }
    let f = q.features();
    let mut v: Vec<String> = vec![];
    for x in &f {
        if x.starts_with("subquery") || *x == "join-right" || *x == "join-full" || *x == "join-semi" || *x == "join-anti" || *x == "derived" {
            v.push(x.to_string());
        }
    }
    if has_corr(q) {
        v.push("correlated".into());
    }
    v.sort();
    v.dedup();
    if v.is_empty() { "plain".into() } else { v.join("+") }
}

/// Well-formedness of an optimized plan with respect to what `executor::build` implements.
fn wellformed(catalog: &risinglight::catalog::RootCatalogRef, plan: &RecExpr) -> Result<(), (String, String)> {
    use Expr::*;
    let mut eg = egg::EGraph::<Expr, TypeSchemaAnalysis>::new(TypeSchemaAnalysis { catalog: catalog.clone() });
    // add node by node so that RecExpr ids map to e-class ids
    let mut map: Vec<Id> = vec![];
    for n in plan.as_ref() {
        let n2 = n.clone().map_children(|c| map[usize::from(c)]);
        map.push(eg.add(n2));
    }
    let is_plan = |e: &Expr| matches!(e, Scan(_) | Values(_) | Proj(_) | Filter(_) | Order(_) | Limit(_) | TopN(_) | Join(_) | HashJoin(_) | MergeJoin(_) | Apply(_) | Agg(_) | HashAgg(_) | SortAgg(_) | Window(_) | Empty(_));
    // every column an expression uses must be produced by the operator's input
    let check_refs = |expr: Id, inputs: &[Id], what: &str| -> Result<(), (String, String)> {
        let mut schema: Vec<Id> = vec![];
        for i in inputs {
            schema.extend(eg[map[usize::from(*i)]].data.schema.iter().cloned());
        }
        let mut stack = vec![map[usize::from(expr)]];
        let mut seen = std::collections::HashSet::new();
        while let Some(id) = stack.pop() {
            if schema.contains(&id) || !seen.insert(id) {
                continue;
            }
            let node = &eg[id].nodes[0];
            match node {
                Column(c) => return Err((format!("ref-not-in-input:{what}"), format!("column {c} used by {what} is not produced by its input"))),
                // an aggregate call that the input does not produce: only the aggregation
                // operators evaluate those (their own list is checked as "agg")
                RowCount | Count(_) | CountDistinct(_) | Sum(_) | Min(_) | Max(_) | First(_) | Last(_) if what != "agg" => {
                    return Err((format!("agg-call-outside-aggregation:{what}"), format!("aggregate call {node} used by {what} is not produced by its input")));
                }
                n if is_plan(n) => {} // a sub-plan (should not occur inside expressions at this point)
                n => stack.extend(n.children().iter().cloned()),
            }
        }
        Ok(())
    };
    // operators the executor lacks first: everything else about such a plan is a consequence
    for n in plan.as_ref() {
        match n {
            Apply(_) => return Err(("unsupported-node:apply".into(), "the plan still contains an apply node".into())),
            Exists(_) => return Err(("unsupported-node:exists".into(), "the plan still contains an exists(subplan) expression".into())),
            Max1Row(_) => return Err(("unsupported-node:max1row".into(), "the plan still contains a max1row(subplan) expression".into())),
            In([_, b]) if is_plan(&plan[*b]) => return Err(("unsupported-node:in-plan".into(), "the plan still contains an in(expr, subplan) expression".into())),
            _ => {}
        }
    }
    for n in plan.as_ref() {
        match n {
            Proj([e, c]) => check_refs(*e, &[*c], "proj")?,
            Filter([e, c]) => check_refs(*e, &[*c], "filter")?,
            Order([e, c]) => check_refs(*e, &[*c], "order")?,
            TopN([l, o, e, c]) => {
                check_refs(*e, &[*c], "topn")?;
                if !matches!(plan[*l], Constant(_)) || !matches!(plan[*o], Constant(_)) {
                    return Err(("limit-not-constant".into(), "top-n limit/offset is not a constant".into()));
                }
            }
            Limit([l, o, _]) => {
                if !matches!(plan[*l], Constant(_)) || !matches!(plan[*o], Constant(_)) {
                    return Err(("limit-not-constant".into(), "limit/offset is not a constant".into()));
                }
            }
            Agg([e, c]) => check_refs(*e, &[*c], "agg")?,
            HashAgg([k, a, c]) | SortAgg([k, a, c]) => {
                check_refs(*k, &[*c], "agg-keys")?;
                check_refs(*a, &[*c], "agg")?;
            }
            Join([t, on, l, r]) => {
                check_refs(*on, &[*l, *r], "join")?;
                if matches!(plan[*t], RightOuter | FullOuter) {
                    return Err(("nested-loop-join-type".into(), format!("nested-loop join of type {} is not implemented by the executor", plan[*t])));
                }
            }
            HashJoin([t, cond, lk, rk, l, r]) | MergeJoin([t, cond, lk, rk, l, r]) => {
                check_refs(*lk, &[*l], "join-left-keys")?;
                check_refs(*rk, &[*r], "join-right-keys")?;
                check_refs(*cond, &[*l, *r], "join")?;
                let (nl, nr) = (plan[*lk].children().len(), plan[*rk].children().len());
                if nl != nr {
                    return Err(("join-key-arity".into(), format!("{nl} left keys vs {nr} right keys")));
                }
                let semi = matches!(plan[*t], Semi | Anti);
                if matches!(n, MergeJoin(_)) && semi {
                    return Err(("merge-join-type".into(), "merge join of type semi/anti is not implemented by the executor".into()));
                }
                if !semi && plan[*cond] != Expr::true_() {
                    return Err(("join-residual-condition".into(), "hash/merge join of inner/outer type with a residual condition".into()));
                }
            }
            _ => {}
        }
    }
    Ok(())
}

fn test(ctx: &Ctx, case: &PlanCase, st: &mut Stats) -> Verdict {
    risinglight::verif::reset();
    let r = block_on(async {
        let mini = match &case.db.disk {
            None => Mini::mem(),
            Some(cfg) => match Mini::disk(cfg, &ctx.case_dir("c17").join("db")).await {
                Ok(m) => m,
                Err(e) => return fail("setup:open", e),
            },
        };
        for s in case.db.setup_sql() {
            if let super::c16_db::Ran::Rejected(e) = mini.run(&s, true).await {
                mini.shutdown().await;
                return fail("setup", format!("{s}: {e}"));
            }
        }
        let _ = take_panics();
        let sh = shape(&case.query);
        let v = async {
            // bind
            let stmt = match risinglight::parser::parse(&case.sql) {
                Ok(mut v) if v.len() == 1 => v.pop().unwrap(),
                _ => return Verdict::Discard("parse error"),
            };
            let catalog = mini.catalog.clone();
            let bound = match std::panic::catch_unwind(AssertUnwindSafe(|| Binder::new(catalog).bind(stmt))) {
                Ok(Ok(p)) => p,
                Ok(Err(_)) => return Verdict::Discard("rejected by the binder"),
                Err(_) => {
                    let p = take_panics();
                    return fail(format!("bind-panic:{}:{sh}", p.last().map(|x| panic_sig(x)).unwrap_or_default()), format!("the binder panicked: {p:?}\n  sql: {}", case.sql));
                }
            };
            st.class(&format!("shape:{sh}"));
            if case.query.is_nontrivial_shape() && (case.query.features().iter().any(|f| f.starts_with("subquery")) || case.query.from.len() >= 3) {
                st.nontrivial((case.query.features(), case.db.disk.is_some(), case.stats.len()));
            }
            let mut stat = Statistics::default();
            for (t, n) in &case.stats {
                if let Some(id) = mini.catalog.get_table_id_by_name("postgres", t) {
                    stat.add_row_count(id, *n);
                }
            }
            let disk = matches!(mini.store, Store::Disk(_));
            let optimizer = Optimizer::new(mini.catalog.clone(), stat, Config { enable_range_filter_scan: disk, table_is_sorted_by_primary_key: disk });
            // (1) optimization terminates without panic (the engine's watchdog catches hangs)
            let o2 = optimizer.clone();
            let b2 = bound.clone();
            st.eval();
            let plan = match std::panic::catch_unwind(AssertUnwindSafe(move || o2.optimize(b2))) {
                Ok(p) => p,
                Err(_) => {
                    let p = take_panics();
                    return fail(format!("optimize-panic:{}:{sh}", p.last().map(|x| panic_sig(x)).unwrap_or_default()), format!("Optimizer::optimize panicked: {p:?}\n  sql: {}", case.sql));
                }
            };
            // (2) well-formedness
            if let Err((sig, msg)) = wellformed(&mini.catalog, &plan) {
                // which single rules are responsible? (diagnosis only)
                let mut blamed = vec![];
                if sig.starts_with("ref-not-in-input") || sig.starts_with("join") {
                    let mut names: Vec<String> = vec![];
                    for (_, rules) in risinglight::planner::verif_rule_sets() {
                        for r in rules {
                            let n = r.name.as_str().to_string();
                            if !names.contains(&n) {
                                names.push(n);
                            }
                        }
                    }
                    for n in names {
                        risinglight::verif::set_disabled_rules(vec![n.clone()]);
                        let o3 = optimizer.clone();
                        let b3 = bound.clone();
                        if let Ok(p3) = std::panic::catch_unwind(AssertUnwindSafe(move || o3.optimize(b3))) {
                            if wellformed(&mini.catalog, &p3).is_ok() {
                                blamed.push(n);
                            }
                        }
                    }
                    risinglight::verif::set_disabled_rules(vec![]);
                    let _ = take_panics();
                }
                // a dangling reference that disappears when one of the rewrite rules listed as
                // unsound (open findings of C01, shared with this property) is switched off is a
                // consequence of that finding: the unsound rewrite (x - x => 0, eq-trans, ..) made
                // a predicate look like it needed fewer columns than it does
                let listed = ctx.ablate_rules();
                if !ctx.strict && sig.starts_with("ref-not-in-input") && blamed.iter().any(|b| listed.contains(b) || b == "eq-trans") {
                    st.class("ill-formed-plan-attributed-to-listed-unsound-rules");
                    return Verdict::Discard("ill-formed plan caused by a listed unsound rewrite rule");
                }
                return fail(format!("wellformed:{sig}:{sh}"), format!("{msg}\n  sql: {}\n  plan: {}\n  rules whose disabling gives a well-formed plan: {:?}", case.sql, plan, blamed));
            }
            // (3) output schema equals the bound query's
            let bt = std::panic::catch_unwind(AssertUnwindSafe(|| static_type(&mini.catalog, &bound))).ok().and_then(|r| r.ok());
            let pt = std::panic::catch_unwind(AssertUnwindSafe(|| static_type(&mini.catalog, &plan))).ok().and_then(|r| r.ok());
            let _ = take_panics();
            if let (Some(bt), Some(pt)) = (&bt, &pt) {
                let (bn, pn) = (bt.as_struct().len(), pt.as_struct().len());
                if bn != pn {
                    return fail(format!("schema:column-count:{sh}"), format!("bound plan has {bn} output columns, optimized plan {pn}\n  sql: {}\n  plan: {}", case.sql, plan));
                }
            }
            // (4) build + full execution does not panic
            let fut = async {
                let ex = match &mini.store {
                    Store::Mem(s) => risinglight::executor::build(optimizer.clone(), s.clone(), &plan),
                    Store::Disk(s) => risinglight::executor::build(optimizer.clone(), s.clone(), &plan),
                };
                ex.try_collect::<Vec<DataChunk>>().await
            };
            st.eval();
            match AssertUnwindSafe(fut).catch_unwind().await {
                Ok(Ok(_)) => {
                    let p = take_panics();
                    if !p.is_empty() {
                        return fail(format!("exec-panic:{}:{sh}", panic_sig(&p[0])), format!("a task panicked while executing the plan: {p:?}\n  sql: {}", case.sql));
                    }
                    Verdict::Pass
                }
                Ok(Err(e)) => {
                    let p = take_panics();
                    if !p.is_empty() {
                        return fail(format!("exec-panic:{}:{sh}", panic_sig(&p[0])), format!("a task panicked while executing the plan: {p:?}\n  sql: {}\n  plan: {}", case.sql, plan));
                    }
                    // a plain execution error (e.g. a conversion error) is an answer, not a crash
                    st.class(&format!("execution-error:{}", e.to_string().chars().take(40).collect::<String>()));
                    Verdict::Pass
                }
                Err(_) => {
                    let p = take_panics();
                    fail(format!("build-panic:{}:{sh}", p.last().map(|x| panic_sig(x)).unwrap_or_default()), format!("executor::build panicked: {p:?}\n  sql: {}\n  plan: {}", case.sql, plan))
                }
            }
        }
        .await;
        mini.shutdown().await;
        v
    });
    match r {
        Ok(v) => v,
        Err(p) => fail(format!("harness-panic:{}", panic_sig(&p)), p),
    }
}

pub fn def() -> PropDef {
    PropDef {
        id: "C17",
        level: "exploration",
        rule: "tape-generated schema/data and queries over the full grammar (joins of all kinds, correlated/uncorrelated IN/EXISTS/scalar subqueries in WHERE, HAVING and select list, derived tables, DISTINCT, GROUP BY, ORDER BY/LIMIT), engine config (memory / disk: range-filter and sorted-key planning) and mocked statistics incl. extreme row counts; for every statement the binder accepts: Optimizer::optimize returns without panic, the plan passes a well-formedness walk (no apply/in/exists/max1row sub-plans, every referenced column produced by the operator's input, equal join key arities, join types and residual conditions the executor implements, constant limits), has the bound plan's column count, and executor::build plus full execution do not panic; non-trivial = subquery or >= 3 FROM items; distinct by (features, engine, statistics)",
        assumptions: vec!["termination is only observed: a case exceeding the CPU cap is inconclusive, not a violation", "an execution *error* (not a panic) is an answer"],
        min_nontrivial: 20,
        parts: vec![part("plans", 20_000, 400_000, strat, test)],
    }
}
