//! C01 — query optimization never changes a query's answer.
//! (a) whole query, optimizer on vs off; (b) metamorphic over statistics; (c) single rules.

use proptest::prelude::*;
use serde::{Deserialize, Serialize};

use super::sqlcase::*;
use crate::engine::*;
use crate::gens::sql::*;
use crate::gens::tape::{Tape, tape_strategy};
use crate::sqlrun::*;

#[derive(Clone, Debug, Serialize, Deserialize)]
pub struct OptCase {
    pub db: DbSpec,
    /// (table, mocked row count)
    pub stats: Vec<(String, u32)>,
    pub stats2: Vec<(String, u32)>,
    pub query: Query,
    pub sql: String,
    pub sql_unlimited: String,
}

fn gen_stats(t: &mut Tape, schema: &[TableDef]) -> Vec<(String, u32)> {
    let mut v = vec![];
    for td in schema {
        let k = t.pick(6);
        if k > 0 {
            v.push((td.name.clone(), [0, 1, 10, 1000, 1_000_000, 3][k]));
        }
    }
    v
}

pub fn decode(ctx: &Ctx, tape: &[u32], disk: Option<DiskCfg>, subqueries: bool) -> OptCase {
    let cfg = cfg_for(ctx, subqueries);
    let mut t = Tape::new(tape);
    let mut db = gen_dbspec(&mut t, &cfg, disk);
    db.post = gen_post(&mut t, &cfg, &db.schema);
    let stats = gen_stats(&mut t, &db.schema);
    let stats2 = gen_stats(&mut t, &db.schema);
    // one in five (where a table has an INT key): a key-range scan, the shape the disk-only
    // filter-scan rules push into the storage
    let keyed: Vec<&TableDef> = db.schema.iter().filter(|td| td.cols.iter().any(|c| c.pk && c.ty == Ty::Int)).collect();
    let query = if !keyed.is_empty() && t.chance(1, 5) {
        let td = keyed[t.pick(keyed.len())];
        key_range_query(&mut t, td).unwrap()
    } else if db.schema.iter().any(|td| td.cols.len() >= 2) && t.chance(1, 12) {
        // sorting the output of a sorted derived table again
        let tds: Vec<&TableDef> = db.schema.iter().filter(|td| td.cols.len() >= 2).collect();
        let td = tds[t.pick(tds.len())];
        reorder_query(&mut t, td).unwrap()
    } else {
        let mut g = Gen { t: &mut t, cfg: cfg.clone(), schema: &db.schema, alias_no: 0 };
        g.query(0)
    };
    let sql = query.print(Dialect::Rl);
    let sql_unlimited = query.print_unlimited(Dialect::Rl);
    OptCase { db, stats, stats2, query, sql, sql_unlimited }
}

fn strat(ctx: &Ctx, subqueries: bool) -> impl Strategy<Value = OptCase> + use<> {
    let (off, strict, prop) = (ctx.off_switches(), ctx.strict, ctx.prop.clone());
    (tape_strategy(260), prop::option::weighted(0.5, disk_cfg_strategy(true))).prop_map(move |(tape, disk)| {
        let c = Ctx::switches_only(&prop, off.clone(), strict);
        decode(&c, &tape, disk, subqueries)
    })
}

async fn apply_stats(db: &risinglight::Database, stats: &[(String, u32)]) {
    for (t, n) in stats {
        let _ = exec(db, &format!("set mock_rowcount_{t} = {n}")).await;
    }
}

/// Names of the optimizer rules whose individual disabling makes `sql` agree with `reference`.
async fn blame_rules(db: &risinglight::Database, case: &OptCase, reference: &[Row], unl: Option<&[Row]>) -> Vec<String> {
    let mut names: Vec<String> = vec![];
    for (_, rules) in risinglight::planner::verif_rule_sets() {
        for r in rules {
            let n = r.name.as_str().to_string();
            if !names.contains(&n) {
                names.push(n);
            }
        }
    }
    let mut blamed = vec![];
    for n in names {
        risinglight::verif::set_disabled_rules(vec![n.clone()]);
        let o = exec(db, &case.sql).await;
        let _ = take_panics();
        if let Out::Rows(r) = &o {
            if compare_results(&case.query, reference, r, unl).is_ok() {
                blamed.push(n);
            }
        }
    }
    risinglight::verif::set_disabled_rules(vec![]);
    blamed
}

fn test_onoff(ctx: &Ctx, case: &OptCase, st: &mut Stats) -> Verdict {
    risinglight::verif::reset();
    let r = block_on(async {
        let db = match open_and_load(ctx, &case.db, "c01").await {
            Ok(db) => db,
            Err(e) => return fail("setup", e),
        };
        apply_stats(&db, &case.stats).await;
        let _ = exec(&db, "pragma disable_optimizer").await;
        let _ = take_panics();
        let reference = exec(&db, &case.sql).await;
        let ref_panics = take_panics();
        let limited = case.query.limit.is_some() || case.query.offset.is_some();
        let unl = if limited { exec(&db, &case.sql_unlimited).await } else { Out::Rows(vec![]) };
        let _ = take_panics();
        let _ = exec(&db, "pragma enable_optimizer").await;
        st.evals(2);
        let v = match (&reference, &unl) {
            (Out::Rejected(_), _) => Verdict::Discard("query rejected by the binder"),
            (Out::Rows(rr), Out::Rows(ur)) if ref_panics.is_empty() => {
                let opt = exec(&db, &case.sql).await;
                let opt_panics = take_panics();
                let unl_ref = if limited { Some(ur.as_slice()) } else { None };
                let verdict = match &opt {
                    Out::Rows(or) => compare_results(&case.query, rr, or, unl_ref).map_err(|e| ("rows", e)),
                    o => Err((
                        "error",
                        format!(
                            "optimized run: {}; reference: {}",
                            o.brief(),
                            reference.brief()
                        ),
                    )),
                };
                if !rr.is_empty() && case.query.is_nontrivial_shape() {
                    st.nontrivial(shape_fp(&case.query, &case.db));
                }
                for f in case.query.features() {
                    st.class(f);
                }
                st.class(if case.db.disk.is_some() { "engine-disk" } else { "engine-memory" });
                if case.db.has_null() {
                    st.class("data-has-null");
                }
                match verdict {
                    Ok(()) => Verdict::Pass,
                    Err((kind, e)) => {
                        // attribution: which single rules are responsible?
                        let ablate = ctx.ablate_rules();
                        if !ctx.strict && !ablate.is_empty() {
                            risinglight::verif::set_disabled_rules(ablate.clone());
                            let o2 = exec(&db, &case.sql).await;
                            let _ = take_panics();
                            risinglight::verif::set_disabled_rules(vec![]);
                            if let Out::Rows(r2) = &o2 {
                                if compare_results(&case.query, rr, r2, unl_ref).is_ok() {
                                    st.class("mismatch-attributed-to-listed-rules");
                                    close(&case.db, &db).await;
                                    return Verdict::Pass;
                                }
                            }
                        }
                        let blamed = blame_rules(&db, case, rr, unl_ref).await;
                        let sig = if kind == "error" && opt_panics.iter().any(|p| p.contains("not found from input")) {
                            "onoff:error:column-not-found".to_string()
                        } else if blamed.len() == 1 {
                            format!("onoff:{kind}:rule:{}", blamed[0])
                        } else {
                            format!("onoff:{kind}")
                        };
                        fail(sig, format!("{e}\n  sql: {}\n  engine: {}\n  rules whose disabling removes the difference: {:?}\n  panics: {:?}", case.sql, if case.db.disk.is_some() { "disk" } else { "memory" }, blamed, opt_panics))
                    }
                }
            }
            _ => Verdict::Discard("reference (unoptimized) run failed"),
        };
        close(&case.db, &db).await;
        v
    });
    match r {
        Ok(v) => v,
        Err(p) => fail(format!("harness-panic:{}", panic_sig(&p)), p),
    }
}

fn test_stats(ctx: &Ctx, case: &OptCase, st: &mut Stats) -> Verdict {
    risinglight::verif::reset();
    let r = block_on(async {
        let db = match open_and_load(ctx, &case.db, "c01").await {
            Ok(db) => db,
            Err(e) => return fail("setup", e),
        };
        let limited = case.query.limit.is_some() || case.query.offset.is_some();
        apply_stats(&db, &case.stats).await;
        let _ = take_panics();
        let a = exec(&db, &case.sql).await;
        let pa = take_panics();
        let ua = if limited { exec(&db, &case.sql_unlimited).await } else { Out::Rows(vec![]) };
        let _ = take_panics();
        // second statistics assignment (overrides the first; tables not named keep the first)
        apply_stats(&db, &case.stats2).await;
        let b = exec(&db, &case.sql).await;
        let pb = take_panics();
        st.evals(2);
        let v = match (&a, &b) {
            (Out::Rejected(_), Out::Rejected(_)) => Verdict::Discard("query rejected by the binder"),
            (Out::Rows(ra), Out::Rows(rb)) => {
                for f in case.query.features() {
                    st.class(f);
                }
                if !ra.is_empty() && case.query.is_nontrivial_shape() && case.stats != case.stats2 {
                    st.nontrivial(shape_fp(&case.query, &case.db));
                }
                let unl = match &ua {
                    Out::Rows(u) if limited => Some(u.as_slice()),
                    _ => None,
                };
                match compare_results(&case.query, ra, rb, unl) {
                    Ok(()) => Verdict::Pass,
                    Err(e) => fail("stats:rows", format!("{e}\n  sql: {}\n  stats A {:?} / B {:?}\n  panics: {:?} {:?}", case.sql, case.stats, case.stats2, pa, pb)),
                }
            }
            // whether every accepted statement gets an executable plan is C17's question
            _ => Verdict::Discard("a run failed (executability is decided by C17)"),
        };
        close(&case.db, &db).await;
        v
    });
    match r {
        Ok(v) => v,
        Err(p) => fail(format!("harness-panic:{}", panic_sig(&p)), p),
    }
}

pub fn def() -> PropDef {
    PropDef {
        id: "C01",
        level: "exploration",
        rule: "tape-generated schema (1-3 tables, int/bool/varchar, optional primary key), data (NULLs, duplicates, several insert batches = row-sets), mocked statistics, engine (memory / disk with generated block+row-set sizes) and query (joins of all kinds, WHERE/HAVING expressions, GROUP BY, aggregates, DISTINCT, ORDER BY, LIMIT/OFFSET, subqueries in part 'stats'); part 'onoff' compares optimizer on vs off, part 'stats' two statistics assignments; non-trivial = query has a join/aggregate/subquery and the result is non-empty; distinct by (feature set, NULLs present, engine, multi-row-set, size class)",
        assumptions: vec![
            "the unoptimized executor is the reference for part 'onoff'",
            "results are compared as multisets, on ORDER BY keys as sequences, under LIMIT by count + containment",
        ],
        min_nontrivial: 20,
        parts: vec![
            part("onoff", 4000, 80_000, |ctx| strat(ctx, false), test_onoff),
            part("stats", 1500, 30_000, |ctx| strat(ctx, true), test_stats),
            part("rules", 600, 12_000, |ctx| strat(ctx, true), super::c01_rules::test_rules),
            part("rules-synth", 20_000, 400_000, super::c01_rules::synth_strategy, super::c01_rules::test_synth),
        ],
    }
}
