//! C19 — values of every type compare, hash and print coherently.
//!
//! Three parts, all over the same boundary-biased value domains (`c19_model.rs`):
//! * `laws`: triples of one type, built through the public constructors: Eq/Ord/Hash laws of
//!   `DataValue`, agreement with the harness' own model order, with the comparison kernels
//!   (`ArrayImpl::{eq,ne,lt,le,gt,ge}`) and with `DataValue::{min,max}`;
//! * `print-parse`: `parse_T(display(a)) == a` through `ArrayBuilderImpl::push_str` (CSV import)
//!   and through the `String -> T` cast kernel (INSERT of a string literal);
//! * `sql`: small single-type tables on both engines: comparison operators, WHERE, ORDER BY (asc,
//!   desc, top-n), GROUP BY, DISTINCT, count(distinct), self equi-join, MIN/MAX, and on disk the
//!   scan order / sort-based operators of a keyed table, all against the model order.
use std::cmp::Ordering;
use std::collections::hash_map::DefaultHasher;
use std::hash::{Hash, Hasher};
use std::panic::{AssertUnwindSafe, catch_unwind};

use proptest::prelude::*;
use proptest::strategy::Union;
use risinglight::Database;
use risinglight::array::{ArrayBuilderImpl, ArrayImpl};
use risinglight::types::DataValue;
use serde::{Deserialize, Serialize};

use super::c19_model::*;
use crate::engine::*;
use crate::sqlrun::*;

/// open finding: the comparison kernels have no arm for these types
const SW_CMP: &str = "gen.c19.cmp_op_unlisted_types";
/// open finding: `push_str` reads an empty text as NULL ('' / empty blob / zero interval)
const SW_EMPTY: &str = "gen.c19.pp_empty_text";
/// open finding: blob Display escapes `\` and `'`, the parser does not unescape
const SW_BLOB: &str = "gen.c19.pp_blob_escape";
/// open finding: timestamps before 9999 BC print a 5-digit year the parser rejects
const SW_BC: &str = "gen.c19.pp_timestamp_before_9999bc";
/// open finding: the disk encoding of INTERVAL drops the sub-day part
const SW_IVS: &str = "gen.c19.disk_interval_seconds";
/// open finding (O9): count(distinct) counts NULL
const SW_CD: &str = "gen.c19.count_distinct_null";
/// open finding (O3): hash join matches NULL = NULL
const SW_JN: &str = "gen.c19.join_null_keys";

pub fn def() -> PropDef {
    PropDef {
        id: "C19",
        level: "exploration",
        rule: "values per type from boundary lists (MIN/MAX, +-0.0, NaN, inf, decimals differing in scale, \
               leap days, year 0/BC/5-digit years, negative and unnormalised intervals, blobs with escapes, \
               strings in different normal forms) plus random ones, drawn through a pool of <= 4 values with \
               optional re-representation so that equal values are frequent. laws: a triple is non-trivial if \
               it contains an equal pair and a strictly ordered pair, or an equal pair in two representations; \
               print-parse: a value is non-trivial if its text is more than ASCII digits; sql: a table is \
               non-trivial if it has >= 2 equality classes and a class with >= 2 rows. Distinct = distinct \
               (type, order pattern / text class / engine, sizes, NULL, alias) fingerprints.",
        assumptions: vec![
            "the model order is the SQL meaning of each type: numeric for numbers (-0.0 = 0.0, NaN = NaN above all), \
             numeric regardless of scale for decimals, bytewise for strings/blobs, by instant for dates/timestamps, \
             field-wise (months, days, seconds) for intervals as the type declares, lexicographic for vectors, NULL first",
            "the inner values of Date / Timestamp are linear in days / microseconds; their offsets are calibrated by \
             parsing the Unix epoch",
            "std's SipHash (DefaultHasher) stands for every hasher: Hash impls are hasher-independent",
            "values: only those SQL text input can produce (timestamps with whole seconds, intervals with whole seconds \
             and |seconds| <= 2147483, NaN without payload, dates within chrono's range)",
        ],
        min_nontrivial: 50,
        parts: vec![
            part("laws", 100_000, 1_500_000, |_| laws_strategy(), laws),
            part("print-parse", 50_000, 800_000, |_| pp_strategy(), print_parse),
            part("sql", 16_000, 200_000, |ctx| sql_strategy(ctx.off(SW_IVS)), sql),
        ],
    }
}

// ---------------------------------------------------------------------------------------------
// part 1: laws

#[derive(Clone, Debug, Serialize, Deserialize)]
pub struct LawsCase {
    ty: Ty,
    /// each group holds 1..=4 triples drawn from one pool
    groups: Vec<Vec<V>>,
}

fn laws_strategy() -> impl Strategy<Value = LawsCase> {
    per_type(|t| {
        prop::collection::vec(pooled(t, None, 3..=12, false), 1..=4)
            .prop_map(move |groups| LawsCase { ty: t, groups })
            .boxed()
    })
}

fn hash_of(d: &DataValue) -> u64 {
    let mut h = DefaultHasher::new();
    d.hash(&mut h);
    h.finish()
}

const OPS: [&str; 6] = ["eq", "ne", "lt", "le", "gt", "ge"];

fn op_model(op: &str, o: Ordering) -> bool {
    match op {
        "eq" => o == Ordering::Equal,
        "ne" => o != Ordering::Equal,
        "lt" => o == Ordering::Less,
        "le" => o != Ordering::Greater,
        "gt" => o == Ordering::Greater,
        _ => o != Ordering::Less,
    }
}

/// One comparison kernel on two one-element arrays: Ok(Some(b)) / Ok(None) = NULL / Err(why).
fn kernel(op: &str, a: &DataValue, b: &DataValue) -> Result<Option<bool>, String> {
    let r = catch_unwind(AssertUnwindSafe(|| {
        let (x, y) = (ArrayImpl::from(a), ArrayImpl::from(b));
        let r = match op {
            "eq" => x.eq(&y),
            "ne" => x.ne(&y),
            "lt" => x.lt(&y),
            "le" => x.le(&y),
            "gt" => x.gt(&y),
            _ => x.ge(&y),
        };
        r.map(|arr| arr.get(0))
    }));
    match r {
        Err(_) => Err(format!("panic: {:?}", take_panics().last())),
        Ok(Err(e)) => Err(format!("error: {e}")),
        Ok(Ok(DataValue::Bool(b))) => Ok(Some(b)),
        Ok(Ok(DataValue::Null)) => Ok(None),
        Ok(Ok(o)) => Err(format!("non-boolean result {o:?}")),
    }
}

fn laws(ctx: &Ctx, case: &LawsCase, st: &mut Stats) -> Verdict {
    let t = case.ty.name();
    let skip_kernels = !case.ty.cmp_kernel_listed() && ctx.off(SW_CMP);
    for tr in case.groups.iter().flat_map(|g| g.chunks_exact(3)) {
        st.eval();
        let mut dv = vec![];
        for v in tr {
            match to_dv(v) {
                Ok(d) if from_dv(&d) == *v => dv.push(d),
                Ok(d) => {
                    return fail(
                        format!("construct:{t}"),
                        format!("{v:?} constructed as {d:?} reads back as {:?}", from_dv(&d)),
                    );
                }
                Err(e) => return fail(format!("construct:{t}"), format!("{v:?}: {e}")),
            }
        }
        // coverage
        let pat = [mcmp(&tr[0], &tr[1]) as i8, mcmp(&tr[1], &tr[2]) as i8, mcmp(&tr[0], &tr[2]) as i8];
        let alias = (0..3).any(|i| (0..3).any(|j| tr[i] != tr[j] && meq(&tr[i], &tr[j])));
        if alias || (pat.contains(&0) && pat.iter().any(|&p| p != 0)) {
            st.nontrivial((t, pat, alias));
        }
        st.class(&format!("laws:{t}"));
        if alias {
            st.class("laws:equal-pair-in-two-representations");
            for k in (0..3).filter_map(|i| alias_kind(&tr[i], &tr[(i + 1) % 3])) {
                st.class(&format!("laws:alias:{k}"));
            }
        }
        if tr.iter().any(|v| matches!(v, V::F64(b) if f64::from_bits(*b).is_nan())) {
            st.class("laws:float64:nan");
        }
        let ctxt = |i: usize, j: usize| format!("a = {:?}, b = {:?} ({})", tr[i], tr[j], t);
        // laws that need no model
        for i in 0..3 {
            for j in 0..3 {
                let (a, b) = (&dv[i], &dv[j]);
                let c = a.cmp(b);
                if i == j && !(a == &a.clone() && c == Ordering::Equal) {
                    return fail(
                        format!("laws:{t}:reflexive"),
                        format!("a == a is {}, cmp(a,a) = {c:?}; {}", a == b, ctxt(i, j)),
                    );
                }
                if (a == b) != (b == a) {
                    return fail(
                        format!("laws:{t}:symmetric-eq"),
                        format!("a == b is {}, b == a is {}; {}", a == b, b == a, ctxt(i, j)),
                    );
                }
                if c != b.cmp(a).reverse() {
                    return fail(
                        format!("laws:{t}:antisymmetric-cmp"),
                        format!("cmp(a,b) = {c:?}, cmp(b,a) = {:?}; {}", b.cmp(a), ctxt(i, j)),
                    );
                }
                if (a == b) != (c == Ordering::Equal) {
                    return fail(
                        format!("laws:{t}:eq-vs-cmp"),
                        format!("a == b is {}, cmp(a,b) = {c:?}; {}", a == b, ctxt(i, j)),
                    );
                }
                if a.partial_cmp(b) != Some(c) || (a < b) != (c == Ordering::Less) || (a != b) == (a == b) {
                    return fail(
                        format!("laws:{t}:partial-ord-vs-ord"),
                        format!("partial_cmp = {:?}, cmp = {c:?}; {}", a.partial_cmp(b), ctxt(i, j)),
                    );
                }
                if a == b && hash_of(a) != hash_of(b) {
                    return fail(format!("laws:{t}:hash"), format!("a == b but hash(a) != hash(b); {}", ctxt(i, j)));
                }
                for k in 0..3 {
                    let d = &dv[k];
                    if a == b && b == d && a != d {
                        return fail(
                            format!("laws:{t}:transitive-eq"),
                            format!("a == b == c but a != c; {}, c = {:?}", ctxt(i, j), tr[k]),
                        );
                    }
                    if a <= b && b <= d && !(a <= d) {
                        return fail(
                            format!("laws:{t}:transitive-cmp"),
                            format!("a <= b <= c but not a <= c; {}, c = {:?}", ctxt(i, j), tr[k]),
                        );
                    }
                }
            }
        }
        // agreement with the model, the kernels, min/max
        for i in 0..3 {
            for j in 0..3 {
                let (a, b) = (&dv[i], &dv[j]);
                let m = mcmp(&tr[i], &tr[j]);
                if a.cmp(b) != m {
                    return fail(
                        format!("laws:{t}:cmp-vs-model"),
                        format!("DataValue::cmp = {:?}, the values compare {m:?}; {}", a.cmp(b), ctxt(i, j)),
                    );
                }
                if (a == b) != (m == Ordering::Equal) {
                    return fail(
                        format!("laws:{t}:eq-vs-model"),
                        format!("DataValue == is {}, the values compare {m:?}; {}", a == b, ctxt(i, j)),
                    );
                }
                if m == Ordering::Equal && hash_of(a) != hash_of(b) {
                    return fail(
                        format!("laws:{t}:hash-vs-model"),
                        format!("equal values hash differently; {}", ctxt(i, j)),
                    );
                }
            }
        }
        for (i, j) in [(0, 1), (1, 2), (2, 0), (0, 0)] {
            {
                let (a, b) = (&dv[i], &dv[j]);
                let m = mcmp(&tr[i], &tr[j]);
                let (lo, hi) = if m == Ordering::Greater {
                    (&tr[j], &tr[i])
                } else {
                    (&tr[i], &tr[j])
                };
                let (gmin, gmax) = match catch_unwind(AssertUnwindSafe(|| (a.clone().min(b.clone()), a.clone().max(b.clone())))) {
                    Ok(x) => x,
                    Err(_) => {
                        return fail(
                            format!("minmax:{t}:panic"),
                            format!("DataValue::min/max panicked: {:?}; {}", take_panics().last(), ctxt(i, j)),
                        );
                    }
                };
                if !meq(&from_dv(&gmin), lo) || !meq(&from_dv(&gmax), hi) {
                    return fail(
                        format!("minmax:{t}"),
                        format!("DataValue::min/max = {gmin:?} / {gmax:?}, expected {lo:?} / {hi:?}; {}", ctxt(i, j)),
                    );
                }
                if skip_kernels {
                    st.excluded(SW_CMP);
                    continue;
                }
                for op in OPS {
                    match kernel(op, a, b) {
                        Ok(Some(r)) if r == op_model(op, m) => {}
                        Ok(r) => {
                            return fail(
                                format!("kernel:{op}:{t}"),
                                format!("ArrayImpl::{op}(a, b) = {r:?}, the values compare {m:?}; {}", ctxt(i, j)),
                            );
                        }
                        Err(e) if e.contains("no function") => {
                            return fail(
                                format!("kernel:cmp:{t}:unsupported"),
                                format!("ArrayImpl::{op}(a, b): {e}; {}", ctxt(i, j)),
                            );
                        }
                        Err(e) => {
                            return fail(
                                format!("kernel:{op}:{t}:fails"),
                                format!("ArrayImpl::{op}(a, b): {e}; {}", ctxt(i, j)),
                            );
                        }
                    }
                }
            }
        }
    }
    Verdict::Pass
}

// ---------------------------------------------------------------------------------------------
// part 2: print / parse

#[derive(Clone, Debug, Serialize, Deserialize)]
pub struct PpCase {
    ty: Ty,
    vals: Vec<V>,
}

fn pp_strategy() -> impl Strategy<Value = PpCase> {
    per_type(|t| {
        prop::collection::vec(value(t, None), 1..=16)
            .prop_map(move |vals| PpCase { ty: t, vals })
            .boxed()
    })
}

fn print_parse(ctx: &Ctx, case: &PpCase, st: &mut Stats) -> Verdict {
    let t = case.ty.name();
    for v in &case.vals {
        let class = v.pp_class();
        let sw = match (case.ty, class) {
            (Ty::Str | Ty::Blob, "empty") | (Ty::Iv, "zero") => Some(SW_EMPTY),
            (Ty::Blob, "backslash" | "quote") => Some(SW_BLOB),
            (Ty::Ts | Ty::Tz, "year-before-9999bc") => Some(SW_BC),
            _ => None,
        };
        let dv = match to_dv(v) {
            Ok(d) => d,
            Err(e) => return fail(format!("construct:{t}"), format!("{v:?}: {e}")),
        };
        let vlen = if let V::Vec(x) = v { x.len() } else { 0 };
        let dt = case.ty.data_type(vlen);
        // the text SELECT prints and COPY TO writes
        let shown = match catch_unwind(AssertUnwindSafe(|| ArrayImpl::from(&dv).get_to_string(0))) {
            Ok(s) => s,
            Err(_) => {
                return fail(
                    format!("pp:display:{t}:{class}:panic"),
                    format!("printing {v:?} panicked: {:?}", take_panics().last()),
                );
            }
        };
        st.class(&format!("pp:{t}:{class}"));
        if !shown.chars().all(|c| c.is_ascii_digit()) {
            st.nontrivial((t, class, shown.len().min(40)));
        }
        for path in ["csv", "insert"] {
            // an empty text is only special on the CSV path
            if let Some(s) = sw
                && ctx.off(s)
                && (s != SW_EMPTY || path == "csv")
            {
                st.excluded(s);
                continue;
            }
            st.eval();
            let parsed = catch_unwind(AssertUnwindSafe(|| {
                if path == "csv" {
                    let mut b = ArrayBuilderImpl::new(&dt);
                    b.push_str(&shown).map(|_| b.finish().get(0)).map_err(|e| e.to_string())
                } else {
                    ArrayImpl::from(&DataValue::String(shown.as_str().into()))
                        .cast(&dt)
                        .map(|a| a.get(0))
                        .map_err(|e| e.to_string())
                }
            }));
            let how = if path == "csv" {
                "ArrayBuilderImpl::push_str"
            } else {
                "cast(String -> T)"
            };
            let sig = format!("pp:{path}:{t}:{class}");
            match parsed {
                Err(_) => {
                    return fail(
                        sig,
                        format!("{v:?} prints as {shown:?}; {how} panicked: {:?}", take_panics().last()),
                    );
                }
                Ok(Err(e)) => return fail(sig, format!("{v:?} prints as {shown:?}; {how} rejects it: {e}")),
                Ok(Ok(got)) => {
                    let g = from_dv(&got);
                    if g.is_null() || !meq(&g, v) || got != dv {
                        return fail(sig, format!("{v:?} prints as {shown:?}; {how} reads it back as {got:?}"));
                    }
                }
            }
        }
    }
    Verdict::Pass
}

// ---------------------------------------------------------------------------------------------
// part 3: SQL

#[derive(Clone, Debug, Serialize, Deserialize)]
pub struct SqlCase {
    ty: Ty,
    disk: bool,
    vlen: usize,
    rows: Vec<V>,
    /// hand-written witnesses only: restrict the case to these query kinds (empty = all)
    #[serde(default)]
    only: Vec<String>,
}

/// `no_disk_iv_secs`: intervals stored on disk have no sub-day part (open finding).
fn sql_strategy(no_disk_iv_secs: bool) -> impl Strategy<Value = SqlCase> {
    per_type(|t| {
        let lens: Vec<usize> = if t == Ty::Vec { vec![1, 2, 3] } else { vec![1] };
        Union::new(lens.into_iter().map(|n| {
            // vector arrays cannot hold NULL (every use of the type is NOT NULL)
            (any::<bool>(), pooled(t, Some(n), 2..=8, t != Ty::Vec))
                .prop_map(move |(disk, mut rows)| {
                    if disk && no_disk_iv_secs {
                        for r in rows.iter_mut() {
                            if let V::Iv { s, .. } = r {
                                *s = 0;
                            }
                        }
                    }
                    SqlCase {
                        ty: t,
                        disk,
                        vlen: n,
                        rows,
                        only: vec![],
                    }
                })
                .boxed()
        }))
        .boxed()
    })
}

type Rows = Vec<Vec<V>>;

/// Rows of the statement's result in model values, or (outcome class, message).
async fn query(db: &Database, sql: &str) -> Result<Rows, (&'static str, String)> {
    match run_raw(db, sql).await {
        Ok(Ok(chunks)) => Ok(chunks
            .last()
            .map(|c| {
                c.data_chunks()
                    .iter()
                    .flat_map(|d| {
                        d.rows()
                            .map(|r| r.values().map(|v| from_dv(&v)).collect::<Vec<V>>())
                            .collect::<Vec<_>>()
                    })
                    .collect()
            })
            .unwrap_or_default()),
        Ok(Err(e)) => match e {
            risinglight::Error::Parse(_) | risinglight::Error::Bind(_) => Err(("rejected", e.to_string())),
            _ => Err(("failed", e.to_string())),
        },
        Err(p) => Err(("panicked", p)),
    }
}

fn as_i64(v: &V) -> Option<i64> {
    match v {
        V::I16(i) => Some(*i as i64),
        V::I32(i) => Some(*i as i64),
        V::I64(i) => Some(*i),
        _ => None,
    }
}

fn show(rows: &Rows) -> String {
    let mut s = String::from("[");
    for (i, r) in rows.iter().enumerate().take(70) {
        if i > 0 {
            s.push_str(", ");
        }
        s.push_str(&format!(
            "({})",
            r.iter()
                .map(|v| if v.is_null() { "NULL".into() } else { v.text() })
                .collect::<Vec<_>>()
                .join(" | ")
        ));
    }
    if rows.len() > 70 {
        s.push_str(&format!(", … {} rows", rows.len()));
    }
    s + "]"
}

/// Row-wise model comparison after sorting both sides by the model order.
fn same_multiset(mut a: Rows, mut b: Rows) -> bool {
    let key = |x: &Vec<V>, y: &Vec<V>| {
        for (p, q) in x.iter().zip(y.iter()) {
            let o = if std::mem::discriminant(p) == std::mem::discriminant(q) || p.is_null() || q.is_null() {
                mcmp(p, q)
            } else {
                format!("{p:?}").cmp(&format!("{q:?}"))
            };
            if o != Ordering::Equal {
                return o;
            }
        }
        x.len().cmp(&y.len())
    };
    a.sort_by(key);
    b.sort_by(key);
    a.len() == b.len() && a.iter().zip(b.iter()).all(|(x, y)| key(x, y) == Ordering::Equal)
}

fn sql(ctx: &Ctx, case: &SqlCase, st: &mut Stats) -> Verdict {
    let dir = if case.disk { Some(ctx.case_dir("c19")) } else { None };
    take_panics();
    let r = block_on(sql_case(ctx, case, st, dir.as_deref()));
    if let Some(d) = &dir {
        let _ = std::fs::remove_dir_all(d);
    }
    let panics = take_panics();
    match r {
        Err(p) => fail(format!("sql:panic:{}", panic_sig(&p)), format!("the case panicked: {p}")),
        Ok(Verdict::Pass) if !panics.is_empty() => fail(
            format!("sql:task-panic:{}", panic_sig(&panics[0])),
            format!("all answers were right but a task panicked: {panics:?}"),
        ),
        Ok(Verdict::Fail(mut f)) => {
            if !panics.is_empty() {
                f.msg.push_str(&format!(" [panics: {panics:?}]"));
            }
            Verdict::Fail(f)
        }
        Ok(v) => v,
    }
}

async fn sql_case(ctx: &Ctx, case: &SqlCase, st: &mut Stats, dir: Option<&std::path::Path>) -> Verdict {
    let (ty, t, rows) = (case.ty, case.ty.name(), &case.rows);
    let n = rows.len();
    let eng = if case.disk { "disk" } else { "mem" };
    // the model's answers
    let mut order: Vec<usize> = (0..n).collect();
    order.sort_by(|&i, &j| mcmp(&rows[i], &rows[j]));
    let mut classes: Vec<(V, i64)> = vec![]; // in model order, NULL class first
    for &i in &order {
        match classes.last_mut() {
            Some((rep, c)) if meq(rep, &rows[i]) => *c += 1,
            _ => classes.push((rows[i].clone(), 1)),
        }
    }
    let has_null = rows.iter().any(|v| v.is_null());
    let nonnull: Vec<&V> = order.iter().map(|&i| &rows[i]).filter(|v| !v.is_null()).collect();
    let alias = (0..n).any(|i| (0..n).any(|j| rows[i] != rows[j] && meq(&rows[i], &rows[j])));
    let dup = classes.iter().any(|c| c.1 >= 2);
    st.class(&format!("sql:{t}"));
    if case.disk && ty == Ty::Iv && ctx.off(SW_IVS) {
        st.excluded(SW_IVS); // the strategy generated no sub-day parts
    }
    st.class(&format!("sql:{eng}"));
    for (f, name) in [
        (has_null, "sql:null"),
        (alias, "sql:equal-pair-in-two-representations"),
        (dup, "sql:duplicates"),
    ] {
        if f {
            st.class(name);
        }
    }
    for k in (0..n)
        .flat_map(|i| (0..i).map(move |j| (i, j)))
        .filter_map(|(i, j)| alias_kind(&rows[i], &rows[j]))
    {
        st.class(&format!("sql:alias:{k}"));
    }
    if classes.len() >= 2 && dup {
        st.nontrivial((t, case.disk, n, classes.len(), has_null, alias));
    }

    let db = match dir {
        Some(d) => match open_disk(&DiskCfg::small(), d).await {
            Ok(db) => db,
            Err(e) => return fail("sql:open-disk", format!("cannot open a fresh database: {e}")),
        },
        None => Database::new_in_memory(),
    };
    let v = sql_queries(ctx, case, st, &db, &classes, &nonnull).await;
    if case.disk {
        if let Err(e) = shutdown(&db).await {
            if matches!(v, Verdict::Pass) {
                return fail("sql:shutdown", format!("shutdown failed: {e}"));
            }
        }
    }
    v
}

async fn sql_queries(ctx: &Ctx, case: &SqlCase, st: &mut Stats, db: &Database, classes: &[(V, i64)], nonnull: &[&V]) -> Verdict {
    let (ty, t, rows) = (case.ty, case.ty.name(), &case.rows);
    let n = rows.len();
    let tyname = ty.sql(case.vlen);
    let has_null = rows.iter().any(|v| v.is_null());
    let mut log: Vec<String> = vec![];
    let only = |kind: &str| case.only.is_empty() || case.only.iter().any(|k| k == kind);
    // run one statement; a statement of this check that does not return rows is a failure
    macro_rules! run {
        ($kind:expr, $sql:expr) => {{
            let s: String = $sql;
            st.eval();
            let r = query(db, &s).await;
            log.push(s.clone());
            match r {
                Ok(r) => r,
                Err((class, e)) => {
                    return fail(
                        format!("sql:{}:{t}:{class}", $kind),
                        format!(
                            "{s} -> {class}: {} [statements so far: {}]",
                            e.lines().next().unwrap_or(""),
                            log.join("; ")
                        ),
                    );
                }
            }
        }};
    }
    // the same, but while the finding about comparison kernels is open a join of an unlisted type
    // that the planner runs as nested loop + `=` kernel is skipped instead of reported
    macro_rules! run_join {
        ($kind:expr, $sql:expr) => {{
            let s: String = $sql;
            st.eval();
            let r = query(db, &s).await;
            log.push(s.clone());
            match r {
                Ok(r) => Some(r),
                Err(("failed", e)) if e.contains("no function eq(") && !ty.cmp_kernel_listed() && ctx.off(SW_CMP) => {
                    st.excluded(SW_CMP);
                    None
                }
                Err((class, e)) => {
                    return fail(
                        format!("sql:{}:{t}:{class}", $kind),
                        format!(
                            "{s} -> {class}: {} [statements so far: {}]",
                            e.lines().next().unwrap_or(""),
                            log.join("; ")
                        ),
                    );
                }
            }
        }};
    }
    macro_rules! bad {
        ($kind:expr, $sql:expr, $got:expr, $want:expr) => {
            return fail(
                format!("sql:{}:{t}", $kind),
                format!(
                    "{} -> {}, expected {} [column of {tyname}: {}; statements: {}]",
                    $sql,
                    $got,
                    $want,
                    show(&vec![rows.clone()]),
                    log.join("; ")
                ),
            )
        };
    }

    run!("setup", format!("create table t(id int, x {tyname})"));
    let tuple = |i: usize| format!("({i}, {})", rows[i].literal());
    let cut = if n >= 4 { n / 2 } else { n };
    for part in [0..cut, cut..n] {
        if !part.is_empty() {
            run!(
                "setup",
                format!("insert into t values {}", part.map(tuple).collect::<Vec<_>>().join(", "))
            );
        }
    }

    // what was stored is what was written
    if only("roundtrip") {
        let q = "select id, x from t";
        let got = run!("roundtrip", q.into());
        let want: Rows = (0..n).map(|i| vec![V::I32(i as i32), rows[i].clone()]).collect();
        if !same_multiset(got.clone(), want.clone()) {
            let zeroed = |r: &Rows| -> Rows {
                r.iter()
                    .map(|x| {
                        x.iter()
                            .map(|v| {
                                if let V::Iv { m, d, .. } = v {
                                    V::Iv { m: *m, d: *d, s: 0 }
                                } else {
                                    v.clone()
                                }
                            })
                            .collect()
                    })
                    .collect()
            };
            if case.disk && ty == Ty::Iv && same_multiset(got.clone(), zeroed(&want)) {
                return fail(
                    "sql:roundtrip:interval:disk-drops-seconds",
                    format!(
                        "{q} -> {}, expected {}: the stored intervals lost their hours/minutes/seconds [statements: {}]",
                        show(&got),
                        show(&want),
                        log.join("; ")
                    ),
                );
            }
            bad!("roundtrip", q, show(&got), show(&want));
        }
    }

    // ORDER BY (sort), desc, top-n: a permutation of the column, ordered by the model
    let col: Rows = rows.iter().map(|v| vec![v.clone()]).collect();
    for (kind, q, desc) in [
        ("order-by", "select x from t order by x".to_string(), false),
        ("order-by-desc", "select x from t order by x desc".to_string(), true),
        ("top-n", format!("select x from t order by x limit {n}"), false),
        ("top-n-desc", format!("select x from t order by x desc limit {n}"), true),
    ] {
        if !only(kind) {
            continue;
        }
        let got = run!(kind, q.clone());
        let sorted = got.windows(2).all(|w| {
            let o = mcmp(&w[0][0], &w[1][0]);
            if desc { o != Ordering::Less } else { o != Ordering::Greater }
        });
        if !same_multiset(got.clone(), col.clone()) || !sorted {
            let mut want: Vec<&V> = rows.iter().collect();
            want.sort_by(|a, b| if desc { mcmp(b, a) } else { mcmp(a, b) });
            bad!(kind, q, show(&got), show(&want.into_iter().map(|v| vec![v.clone()]).collect()));
        }
    }

    // GROUP BY / DISTINCT: exactly the equality classes
    let norm = |r: &Rows| -> Rows {
        r.iter()
            .map(|x| vec![x[0].clone(), as_i64(&x[1]).map(V::I64).unwrap_or(x[1].clone())])
            .collect()
    };
    if only("group-by") {
        let q = "select x, count(*) from t group by x";
        let got = run!("group-by", q.into());
        let want: Rows = classes.iter().map(|(v, c)| vec![v.clone(), V::I64(*c)]).collect();
        if !same_multiset(norm(&got), want.clone()) {
            bad!("group-by", q, show(&got), show(&want));
        }
    }
    if only("distinct") {
        let q = "select distinct x from t";
        let got = run!("distinct", q.into());
        let want: Rows = classes.iter().map(|(v, _)| vec![v.clone()]).collect();
        if !same_multiset(got.clone(), want.clone()) {
            bad!("distinct", q, show(&got), show(&want));
        }
    }

    // MIN / MAX: the extremes of the non-NULL values
    if only("min-max") {
        let q = "select min(x), max(x) from t";
        let got = run!("min-max", q.into());
        let want: Vec<V> = match (nonnull.first(), nonnull.last()) {
            (Some(a), Some(b)) => vec![(*a).clone(), (*b).clone()],
            _ => vec![V::Null, V::Null],
        };
        if !same_multiset(got.clone(), vec![want.clone()]) {
            bad!("min-max", q, show(&got), show(&vec![want]));
        }
    }

    // the storage sort order: a keyed table loaded by one INSERT is scanned in key order, and
    // the operators that rely on it (sort aggregation, merge join) see the same classes
    if case.disk && !nonnull.is_empty() && only("keyed") {
        run!("setup", format!("create table k(x {tyname} primary key)"));
        let lits: Vec<String> = rows.iter().filter(|v| !v.is_null()).map(|v| format!("({})", v.literal())).collect();
        run!("setup", format!("insert into k values {}", lits.join(", ")));
        // (the optimizer answers ORDER BY on the key with the plain scan)
        for (kind, q) in [("pk-scan-order", "select x from k"), ("order-by-keyed", "select x from k order by x")] {
            let got = run!(kind, q.into());
            let want: Rows = nonnull.iter().map(|v| vec![(*v).clone()]).collect();
            if !same_multiset(got.clone(), want.clone()) || !got.windows(2).all(|w| mcmp(&w[0][0], &w[1][0]) != Ordering::Greater) {
                bad!(kind, q, show(&got), show(&want));
            }
        }
        let q = "select x, count(*) from k group by x";
        let got = run!("group-by-keyed", q.into());
        let want: Rows = classes
            .iter()
            .filter(|c| !c.0.is_null())
            .map(|(v, c)| vec![v.clone(), V::I64(*c)])
            .collect();
        if !same_multiset(norm(&got), want.clone()) {
            bad!("group-by-keyed", q, show(&got), show(&want));
        }
    }
    // last, the queries that open findings can make fail (so that the replay of a new violation
    // is not stopped early by a known one): operators of the listed types, NULL-sensitive queries,
    // the keyed self-join, operators of the unlisted types
    for phase in 0..2 {
        if phase == 1 {
            // count(distinct) and the self equi-join: while the findings about NULL keys are open, NULL rows
            // are kept out of their input (table u = the non-NULL rows of t)
            let ids: Vec<usize> = (0..n).filter(|&i| !rows[i].is_null()).collect();
            let cd_u = has_null && ctx.off(SW_CD);
            let jn_u = has_null && ctx.off(SW_JN);
            if cd_u || jn_u {
                run!("setup", format!("create table u(id int, x {tyname})"));
                if !ids.is_empty() {
                    run!(
                        "setup",
                        format!(
                            "insert into u values {}",
                            ids.iter().map(|&i| tuple(i)).collect::<Vec<_>>().join(", ")
                        )
                    );
                }
            }

            // count(distinct): the number of classes of non-NULL values
            let nclasses = classes.iter().filter(|c| !c.0.is_null()).count() as i64;
            if only("count-distinct") {
                let q = if cd_u {
                    st.excluded(SW_CD);
                    "select count(distinct x) from u"
                } else {
                    "select count(distinct x) from t"
                };
                let got = run!("count-distinct", q.into());
                let g = got.first().and_then(|r| r.first()).and_then(as_i64);
                if got.len() != 1 || g != Some(nclasses) {
                    if has_null && !cd_u && g == Some(nclasses + 1) {
                        return fail(
                            "sql:count-distinct:counts-null",
                            format!(
                                "{q} -> {}, expected {nclasses}: NULL is counted [column: {}]",
                                show(&got),
                                show(&vec![rows.clone()])
                            ),
                        );
                    }
                    bad!("count-distinct", q, show(&got), nclasses);
                }
            }

            // self equi-join: exactly the pairs of equal non-NULL values
            if only("self-join") {
                let q = if jn_u {
                    st.excluded(SW_JN);
                    "select a.id, b.id from u a join u b on a.x = b.x"
                } else {
                    "select a.id, b.id from t a join t b on a.x = b.x"
                };
                let got = run_join!("self-join", q.into());
                let pairs = |with_null: bool| -> Rows {
                    let mut v = vec![];
                    for i in 0..n {
                        for j in 0..n {
                            let nn = rows[i].is_null() && rows[j].is_null();
                            if (!rows[i].is_null() && !rows[j].is_null() && meq(&rows[i], &rows[j])) || (with_null && nn) {
                                v.push(vec![V::I32(i as i32), V::I32(j as i32)]);
                            }
                        }
                    }
                    v
                };
                if let Some(got) = got
                    && !same_multiset(got.clone(), pairs(false))
                {
                    if has_null && !jn_u && same_multiset(got.clone(), pairs(true)) {
                        return fail(
                            "sql:self-join:null-keys-match",
                            format!(
                                "{q} -> {}: rows with NULL keys are joined [column: {}]",
                                show(&got),
                                show(&vec![rows.clone()])
                            ),
                        );
                    }
                    bad!("self-join", q, show(&got), show(&pairs(false)));
                }
            }

            if case.disk && !nonnull.is_empty() && only("keyed") {
                let q = "select count(*) from k a join k b on a.x = b.x";
                let got = run_join!("self-join-keyed", q.into());
                let want: i64 = classes.iter().filter(|c| !c.0.is_null()).map(|c| c.1 * c.1).sum();
                if let Some(got) = got
                    && (got.len() != 1 || got[0].first().and_then(as_i64) != Some(want))
                {
                    bad!("self-join-keyed", q, show(&got), want);
                }
            }
        }
        if (phase == 0) != ty.cmp_kernel_listed() {
            continue;
        }
        // comparison operators and WHERE over all pairs of rows
        if !only("cmp-op") {
        } else if !ty.cmp_kernel_listed() && ctx.off(SW_CMP) {
            st.excluded(SW_CMP);
        } else {
            run!("setup", format!("create table p(id int, x {tyname}, y {tyname})"));
            let mut tuples = vec![];
            for i in 0..n {
                for j in 0..n {
                    tuples.push(format!("({}, {}, {})", i * n + j, rows[i].literal(), rows[j].literal()));
                }
            }
            run!("setup", format!("insert into p values {}", tuples.join(", ")));
            let q = "select id, x = y, x <> y, x < y, x <= y, x > y, x >= y from p";
            let got = run!("cmp-op", q.into());
            let mut want: Rows = vec![];
            for i in 0..n {
                for j in 0..n {
                    let mut r = vec![V::I32((i * n + j) as i32)];
                    for op in OPS {
                        r.push(if rows[i].is_null() || rows[j].is_null() {
                            V::Null
                        } else {
                            V::Bool(op_model(op, mcmp(&rows[i], &rows[j])))
                        });
                    }
                    want.push(r);
                }
            }
            if !same_multiset(got.clone(), want.clone()) {
                let firstbad = want.iter().find(|w| !got.contains(w)).cloned().unwrap_or_default();
                let id = firstbad.first().and_then(as_i64).unwrap_or(0) as usize;
                let g: Rows = got
                    .iter()
                    .filter(|r| r.first().and_then(as_i64) == Some(id as i64))
                    .cloned()
                    .collect();
                bad!(
                    "cmp-op",
                    format!(
                        "{q} (columns: id, =, <>, <, <=, >, >=) for x = {}, y = {}",
                        rows[id / n].literal(),
                        rows[id % n].literal()
                    ),
                    show(&g),
                    show(&vec![firstbad])
                );
            }
            for (kind, op, o) in [
                ("where-lt", "<", Ordering::Less),
                ("where-eq", "=", Ordering::Equal),
                ("where-ge", ">=", Ordering::Greater),
            ] {
                let q = format!("select id from p where x {op} y");
                let got = run!(kind, q.clone());
                let mut want: Rows = vec![];
                for i in 0..n {
                    for j in 0..n {
                        let m = mcmp(&rows[i], &rows[j]);
                        if !rows[i].is_null() && !rows[j].is_null() && (m == o || (op == ">=" && m == Ordering::Equal)) {
                            want.push(vec![V::I32((i * n + j) as i32)]);
                        }
                    }
                }
                if !same_multiset(got.clone(), want.clone()) {
                    bad!(kind, q, show(&got), show(&want));
                }
            }
        }
    }
    Verdict::Pass
}
