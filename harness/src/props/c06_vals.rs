//! C06 helpers: the value domain (one compact, serde-friendly atom type for all column types),
//! conversion to `DataValue` through public constructors only, and the strict comparison used
//! by the round-trip oracle.
use std::str::FromStr;

use risinglight::types::{
    Blob, DataType, DataValue, Date, Interval, Timestamp, TimestampTz, Vector,
};
use rust_decimal::Decimal;
use serde::{Deserialize, Serialize};

pub const TYPES: [&str; 14] = [
    "smallint", "int", "bigint", "double", "bool", "decimal", "date", "timestamp", "timestamptz",
    "interval", "varchar", "char", "blob", "vector",
];
pub const T_SMALLINT: u8 = 0;
pub const T_INT: u8 = 1;
pub const T_BIGINT: u8 = 2;
pub const T_DOUBLE: u8 = 3;
pub const T_BOOL: u8 = 4;
pub const T_DECIMAL: u8 = 5;
pub const T_DATE: u8 = 6;
pub const T_TS: u8 = 7;
pub const T_TSTZ: u8 = 8;
pub const T_INTERVAL: u8 = 9;
pub const T_VARCHAR: u8 = 10;
pub const T_CHAR: u8 = 11;
pub const T_BLOB: u8 = 12;
pub const T_VECTOR: u8 = 13;

/// One non-NULL value of any column type.
#[derive(Clone, Debug, PartialEq, Eq, Hash, Serialize, Deserialize)]
pub enum Atom {
    /// smallint / int / bigint / bool (0,1) / date (days) / timestamp(tz) (microseconds)
    I(i64),
    /// double, by bits
    F(u64),
    /// decimal, as printed (the scale is significant)
    D(String),
    /// varchar / char(w)
    S(String),
    /// blob
    B(Vec<u8>),
    /// interval: months, days, seconds
    Iv(i32, i32, i32),
    /// vector(n), elements by bits
    V(Vec<u64>),
}

pub fn data_type(ty: u8, width: u16) -> DataType {
    match ty {
        T_SMALLINT => DataType::Int16,
        T_INT => DataType::Int32,
        T_BIGINT => DataType::Int64,
        T_DOUBLE => DataType::Float64,
        T_BOOL => DataType::Bool,
        T_DECIMAL => DataType::Decimal(None, None),
        T_DATE => DataType::Date,
        T_TS => DataType::Timestamp,
        T_TSTZ => DataType::TimestampTz,
        T_INTERVAL => DataType::Interval,
        T_VARCHAR | T_CHAR => DataType::String,
        T_BLOB => DataType::Blob,
        _ => DataType::Vector(width as usize),
    }
}

/// "prim" (fixed-width primitive builders), "var" (offset+data blocks), "char", "vec"
pub fn type_class(ty: u8) -> &'static str {
    match ty {
        T_VARCHAR | T_BLOB => "var",
        T_CHAR => "char",
        T_VECTOR => "vec",
        _ => "prim",
    }
}

const DATE_LO: i64 = -719_162; // 0001-01-01
const DATE_HI: i64 = 2_932_896; // 9999-12-31
const TS_LO: i64 = -62_135_596_800_000_000;
const TS_HI: i64 = 253_402_300_799_999_999;

fn wrap(x: i64, lo: i64, hi: i64) -> i64 {
    lo + (x as i128 - lo as i128).rem_euclid(hi as i128 - lo as i128 + 1) as i64
}

/// Bring an integer into the domain of the type (values SQL can produce).
fn norm_int(ty: u8, x: i64) -> i64 {
    match ty {
        T_SMALLINT => x as i16 as i64,
        T_INT => x as i32 as i64,
        T_BOOL => x & 1,
        T_DATE => wrap(x, DATE_LO, DATE_HI),
        T_TS | T_TSTZ => wrap(x, TS_LO, TS_HI),
        _ => x,
    }
}

const F_POOL: [f64; 12] = [
    0.0,
    -0.0,
    1.5,
    -1.5,
    f64::NAN,
    f64::INFINITY,
    f64::NEG_INFINITY,
    f64::MIN_POSITIVE,
    f64::MAX,
    f64::MIN,
    5e-324,
    1.0,
];

fn f_of(pick: u8, r: u64) -> u64 {
    let p = (pick % 16) as usize;
    let v = if p < F_POOL.len() { F_POOL[p] } else { f64::from_bits(r) };
    if v.is_nan() { f64::NAN.to_bits() } else { v.to_bits() }
}

const D_POOL: [&str; 12] = [
    "0",
    "1",
    "1.0",
    "1.00",
    "-1.5",
    "0.0",
    "79228162514264337593543950335",
    "-79228162514264337593543950335",
    "0.0000000000000000000000000001",
    "123456789.123456789",
    "-0.10",
    "100",
];

const ALPHA: [&str; 10] = ["a", "b", "A", " ", "é", "日", "0", "z", "'", ","];

fn str_of(mut seed: u64, nchars: usize, maxbytes: usize, nul_at: Option<usize>) -> String {
    let mut s = String::new();
    for i in 0..nchars {
        seed = seed.wrapping_mul(6364136223846793005).wrapping_add(1442695040888963407);
        let c = if nul_at == Some(i) { "\0" } else { ALPHA[(seed >> 33) as usize % ALPHA.len()] };
        if s.len() + c.len() > maxbytes {
            break;
        }
        s.push_str(c);
    }
    s
}

fn len_of(pick: u8, slen: u16) -> usize {
    match pick % 8 {
        0 => 0,
        1 => 1,
        2 => 2,
        3..=5 => slen as usize % 12,
        6 => slen as usize % 64,
        _ => slen as usize % 400,
    }
}

/// Deterministic, monotone-ish mapping from raw random material to a value of the type
/// (`pick`/`r`/`slen` shrink towards the simplest value of the type).
/// `lim`: generator restrictions in force (see `c06::SWITCHES`).
pub fn make_atom(ty: u8, width: u16, pick: u8, r: u64, slen: u16, lim: u16, canon: bool) -> Atom {
    let a = make_atom_raw(ty, width, pick, r, slen, lim);
    if !canon {
        return a;
    }
    // one representation per value: normalised decimals, no negative zero
    match a {
        Atom::D(s) => Atom::D(Decimal::from_str(&s).expect("decimal atom").normalize().to_string()),
        Atom::F(b) if f64::from_bits(b) == 0.0 => Atom::F(0),
        a => a,
    }
}

fn make_atom_raw(ty: u8, width: u16, pick: u8, r: u64, slen: u16, lim: u16) -> Atom {
    let nul = lim & super::c06::L_CHAR_NUL == 0;
    match ty {
        T_SMALLINT | T_INT | T_BIGINT | T_DATE | T_TS | T_TSTZ | T_BOOL => {
            let (lo, hi) = match ty {
                T_SMALLINT => (i16::MIN as i64, i16::MAX as i64),
                T_INT => (i32::MIN as i64, i32::MAX as i64),
                T_DATE => (DATE_LO, DATE_HI),
                T_TS | T_TSTZ => (TS_LO, TS_HI),
                T_BOOL => (0, 1),
                _ => (i64::MIN, i64::MAX),
            };
            let x = match pick % 16 {
                0 => 0,
                1 => lo,
                2 => hi,
                3 => -1,
                4 => 1,
                5 => lo + 1,
                6 => hi - 1,
                7 if ty == T_DATE => 19_782, // 2024-02-29
                7..=11 => (r % 7) as i64 - 3,
                _ => r as i64,
            };
            Atom::I(norm_int(ty, x))
        }
        T_DOUBLE => Atom::F(f_of(pick, r)),
        T_DECIMAL => {
            let p = (pick % 20) as usize;
            if p < D_POOL.len() {
                Atom::D(D_POOL[p].to_string())
            } else {
                Atom::D(Decimal::new(r as i64, (slen % 29) as u32).to_string())
            }
        }
        T_INTERVAL => {
            let m = [0, 1, -1, 14, i32::MAX, i32::MIN][(r % 6) as usize];
            let d = [0, 1, -1, 45, i32::MAX, i32::MIN][((r >> 8) % 6) as usize];
            let s = if lim & super::c06::L_INTERVAL_TIME != 0 { 0 } else { [0, 1, -1, 3600, 86_399, -86_399, 7_384][((r >> 16) % 7) as usize] };
            match pick % 8 {
                0 => Atom::Iv(0, 0, 0),
                1 => Atom::Iv(m, 0, 0),
                2 => Atom::Iv(0, d, 0),
                3 | 4 => Atom::Iv(m, d, 0),
                5 => Atom::Iv(0, 0, s),
                _ => Atom::Iv(m, d, s),
            }
        }
        T_VARCHAR => Atom::S(str_of(r, len_of(pick, slen), usize::MAX, None)),
        T_CHAR => {
            let n = len_of(pick, slen);
            let nul_at = if nul && n >= 2 && pick & 0x40 != 0 { Some(1 + r as usize % (n - 1)) } else { None };
            // never a trailing NUL: a NUL is always followed by another character, and the
            // string is cut at a character boundary within the width
            let mut s = str_of(r, n, width as usize, nul_at);
            while s.ends_with('\0') {
                s.pop();
            }
            Atom::S(s)
        }
        T_BLOB => {
            let n = len_of(pick, slen);
            let mut seed = r;
            let b = (0..n)
                .map(|i| {
                    seed = seed.wrapping_mul(6364136223846793005).wrapping_add(1442695040888963407);
                    if i % 3 == 0 { [0u8, 0xff, 0x80, b'a'][(seed >> 40) as usize % 4] } else { (seed >> 33) as u8 }
                })
                .collect();
            Atom::B(b)
        }
        _ => {
            let mut seed = r;
            let v = (0..width.max(1))
                .map(|i| {
                    seed = seed.wrapping_mul(6364136223846793005).wrapping_add(1442695040888963407);
                    f_of(pick.wrapping_add(i as u8), seed)
                })
                .collect();
            Atom::V(v)
        }
    }
}

/// A value derived from `base` that is distinct for distinct positions `j` (best effort for
/// bool and narrow char columns).
pub fn seq_atom(ty: u8, width: u16, base: &Atom, j: usize) -> Atom {
    match base {
        Atom::I(x) => Atom::I(norm_int(ty, x.wrapping_add(j as i64))),
        Atom::F(_) => Atom::F((j as f64 + 0.5).to_bits()),
        Atom::D(_) => Atom::D(Decimal::new(j as i64 * 10 + 1, (j % 4) as u32).to_string()),
        Atom::S(s) => {
            let h = format!("{j:x}");
            if ty == T_CHAR {
                let w = width as usize;
                Atom::S(h[h.len().saturating_sub(w)..].to_string())
            } else {
                let mut p: String = s.chars().take(3).collect();
                p.push_str(&h);
                Atom::S(p)
            }
        }
        Atom::B(b) => {
            let mut v: Vec<u8> = b.iter().take(3).cloned().collect();
            v.extend_from_slice(&(j as u16).to_le_bytes());
            Atom::B(v)
        }
        Atom::Iv(m, d, s) => Atom::Iv(*m, d.wrapping_add(j as i32), *s),
        Atom::V(v) => {
            let mut v = v.clone();
            v[0] = (j as f64).to_bits();
            Atom::V(v)
        }
    }
}

/// Build the engine's value through public constructors (the same ones SQL literals, casts and
/// CSV import end up in).
pub fn to_dv(ty: u8, a: &Option<Atom>) -> DataValue {
    let Some(a) = a else { return DataValue::Null };
    match (ty, a) {
        (T_SMALLINT, Atom::I(x)) => DataValue::Int16(*x as i16),
        (T_INT, Atom::I(x)) => DataValue::Int32(*x as i32),
        (T_BIGINT, Atom::I(x)) => DataValue::Int64(*x),
        (T_BOOL, Atom::I(x)) => DataValue::Bool(*x != 0),
        (T_DATE, Atom::I(x)) => DataValue::Date(Date::new(*x as i32)),
        (T_TS, Atom::I(x)) => DataValue::Timestamp(Timestamp::new(*x)),
        (T_TSTZ, Atom::I(x)) => DataValue::TimestampTz(TimestampTz::new(*x)),
        (T_DOUBLE, Atom::F(b)) => DataValue::Float64(f64::from_bits(*b).into()),
        (T_DECIMAL, Atom::D(s)) => DataValue::Decimal(Decimal::from_str(s).expect("decimal atom")),
        (T_VARCHAR | T_CHAR, Atom::S(s)) => DataValue::String(s.as_str().into()),
        (T_BLOB, Atom::B(b)) => DataValue::Blob(Blob::from(b.clone())),
        (T_INTERVAL, Atom::Iv(m, d, s)) => {
            let md = Interval::from_md(*m, *d);
            DataValue::Interval(if *s == 0 { md } else { md + Interval::from_secs(*s) })
        }
        (T_VECTOR, Atom::V(v)) => DataValue::Vector(Vector::new(v.iter().map(|b| f64::from_bits(*b)).collect())),
        _ => panic!("atom {a:?} does not belong to type {}", TYPES[ty as usize]),
    }
}

/// Exact equality of a stored and a returned value. `Err(kind)` names how they differ.
pub fn same(exp: &DataValue, got: &DataValue) -> Result<(), &'static str> {
    use DataValue as V;
    match (exp, got) {
        (V::Null, V::Null) => Ok(()),
        (V::Null, _) => Err("null-became-value"),
        (_, V::Null) => Err("value-became-null"),
        (V::Float64(a), V::Float64(b)) => {
            if a.0.to_bits() == b.0.to_bits() {
                Ok(())
            } else if a == b {
                Err("double-representation") // -0.0 vs 0.0
            } else {
                Err("wrong-value")
            }
        }
        (V::Decimal(a), V::Decimal(b)) => {
            if a.serialize() == b.serialize() {
                Ok(())
            } else if a == b {
                Err("decimal-scale") // 1.0 vs 1.00
            } else {
                Err("wrong-value")
            }
        }
        (V::Vector(a), V::Vector(b)) => {
            if a.len() == b.len() && a.iter().zip(b.iter()).all(|(x, y)| x.0.to_bits() == y.0.to_bits()) {
                Ok(())
            } else {
                Err("wrong-value")
            }
        }
        (V::Interval(a), V::Interval(b)) => {
            if a == b {
                Ok(())
            } else if a.num_months() == b.num_months() && a.days() == b.days() {
                Err("interval-time-part")
            } else {
                Err("wrong-value")
            }
        }
        _ => {
            if exp == got {
                Ok(())
            } else {
                Err("wrong-value")
            }
        }
    }
}

pub fn show(a: &Option<Atom>) -> String {
    match a {
        None => "NULL".into(),
        Some(Atom::I(x)) => x.to_string(),
        Some(Atom::F(b)) => format!("{:?}", f64::from_bits(*b)),
        Some(Atom::D(s)) => s.clone(),
        Some(Atom::S(s)) => {
            if s.len() > 24 {
                format!("{:?}…({} bytes)", s.chars().take(12).collect::<String>(), s.len())
            } else {
                format!("{s:?}")
            }
        }
        Some(Atom::B(b)) => {
            if b.len() > 12 {
                format!("x{:02x?}…({} bytes)", &b[..8], b.len())
            } else {
                format!("x{b:02x?}")
            }
        }
        Some(Atom::Iv(m, d, s)) => format!("interval({m} mon {d} d {s} s)"),
        Some(Atom::V(v)) => format!("{:?}", v.iter().map(|b| f64::from_bits(*b)).collect::<Vec<_>>()),
    }
}

pub fn show_dv(v: &DataValue) -> String {
    match v {
        DataValue::Null => "NULL".into(),
        DataValue::Float64(f) => format!("{:?}", f.0),
        DataValue::Decimal(d) => d.to_string(),
        DataValue::String(s) if s.len() > 24 => format!("{:?}…({} bytes)", s.chars().take(12).collect::<String>(), s.len()),
        DataValue::String(s) => format!("{s:?}"),
        DataValue::Int16(_) | DataValue::Int32(_) | DataValue::Int64(_) | DataValue::Bool(_) => v.to_string(),
        DataValue::Date(d) => format!("date({})", d.get_inner()),
        DataValue::Timestamp(t) => format!("ts({})", t.get_inner()),
        DataValue::TimestampTz(t) => format!("tstz({})", t.get_inner()),
        DataValue::Interval(i) => format!("{i:?}"),
        DataValue::Blob(b) => {
            let s = format!("{b:?}");
            if s.len() > 40 { format!("{}…", &s[..40]) } else { s }
        }
        DataValue::Vector(x) => format!("{x:?}"),
    }
}
