//! C04 — a crash at any instant leaves a recoverable, atomic, durable database.
//!
//! One case = one workload (3–15 statements, no reopen) run on a real directory with the
//! persistence-step observer armed: at every step the directory tree is captured in memory.
//! From the captured sequence the crash states are derived (step boundaries, torn writes = a file
//! that grew between two consecutive captures cut at byte prefixes, partially executed
//! `remove_dir_all`s). Every distinct crash state is recovered on a private copy and compared
//! with the table model of the acknowledged prefix (or prefix + statement in flight), probed with
//! new statements, shut down and reopened. A sample of the recoveries is itself instrumented and
//! the crash states of the *recovery* are recovered again (depth 1).

use std::collections::{BTreeMap, HashSet};
use std::hash::{Hash, Hasher};
use std::path::{Path, PathBuf};
use std::sync::{Arc, Mutex};

use proptest::prelude::*;
use serde::{Deserialize, Serialize};

use crate::engine::*;
use crate::gens::tape::{Tape, tape_strategy};
use crate::sqlrun::*;

// ---------------------------------------------------------------------------------------------
// case

#[derive(Clone, Debug, Serialize, Deserialize, PartialEq)]
pub enum Rows {
    List(Vec<Row>),
    /// `n` generated rows with keys `start..start+n` (keeps replay files small)
    Seq { n: u32, start: i64 },
}

#[derive(Clone, Debug, Serialize, Deserialize, PartialEq)]
pub enum Stmt {
    Create { t: u8, layout: u8 },
    Insert { t: u8, rows: Rows },
    InsertSelect { t: u8, from: u8 },
    Delete { t: u8, key: Option<i64> },
    Drop { t: u8 },
    /// advance the paused clock: one compactor pass + vacuum
    Tick,
}

/// How many crash states are derived (part of the case so that a replay is self-contained).
#[derive(Clone, Debug, Serialize, Deserialize, PartialEq)]
pub struct Effort {
    /// every byte prefix of ONE manifest append / delete-vector write of the workload (the
    /// n-th modulo their number) and every subset size of partial directory removals; all other
    /// writes are cut at a fixed small set of prefixes
    pub all_prefixes_of: Option<u32>,
    /// number of evenly spaced prefixes of column / index file writes
    pub col_prefixes: u32,
    /// instrument every n-th recovery and recover its crash states again (0 = never)
    pub nested_every: u32,
    /// at most this many recoveries per case, scaled down by 300 / (300 + peak row count) (evenly
    /// thinned beyond; keeps a case under the watchdog)
    pub max_states: u32,
}

#[derive(Clone, Debug, Serialize, Deserialize)]
pub struct CrashCase {
    pub cfg: DiskCfg,
    pub stmts: Vec<Stmt>,
    pub effort: Effort,
    /// statements the generator replaced because of an open finding's switch (evidence only)
    #[serde(default)]
    pub steered: u32,
    /// hand-minimised witnesses only: check just the crash states with these labels
    /// (`rec/...` labels select the crash states of the recovery); empty = all
    #[serde(default)]
    pub focus: Vec<String>,
}

const SW_DROP_STALE: &str = "gen.c04.drop_after_compacted_delete";

/// (ddl, [(column, type as printed by pg_attribute, not null)])
const LAYOUTS: [(&str, &[(&str, &str, bool)]); 4] = [
    ("k int primary key, v int", &[("k", "int", true), ("v", "int", false)]),
    ("k int, v int, s varchar", &[("k", "int", false), ("v", "int", false), ("s", "string", false)]),
    ("k int primary key, v int, s varchar", &[("k", "int", true), ("v", "int", false), ("s", "string", false)]),
    ("k int not null, v int", &[("k", "int", true), ("v", "int", false)]),
];

fn ncols(layout: u8) -> usize {
    LAYOUTS[layout as usize].1.len()
}

fn seq_row(layout: u8, start: i64, i: u32) -> Row {
    let mut r = vec![Val::Int(start + i as i64), if i % 7 == 3 { Val::Null } else { Val::Int((i % 5) as i64) }];
    if ncols(layout) == 3 {
        r.push(if i % 11 == 5 { Val::Null } else { Val::Str(format!("s{}", i % 13)) });
    }
    r
}

fn lit(v: &Val) -> String {
    match v {
        Val::Null => "null".into(),
        Val::Int(i) => i.to_string(),
        Val::Str(s) => format!("'{s}'"),
        o => o.to_string(),
    }
}

fn tname(t: u8) -> String {
    // every third table has a name with 2-, 3- and 4-byte UTF-8 characters: its CREATE TABLE
    // record in the manifest can be torn in the middle of a character
    if t % 3 == 2 { format!("t{t}ä€𝄞") } else { format!("t{t}") }
}

/// the name as written in SQL
fn qn(t: u8) -> String {
    format!("\"{}\"", tname(t))
}

impl Rows {
    fn expand(&self, layout: u8) -> Vec<Row> {
        match self {
            Rows::List(r) => r.clone(),
            Rows::Seq { n, start } => (0..*n).map(|i| seq_row(layout, *start, i)).collect(),
        }
    }
}

#[derive(Clone, Debug, PartialEq, Eq, Hash)]
struct Tab {
    cols: Vec<(String, String, bool)>,
    rows: Vec<Row>,
}
type State = BTreeMap<String, Tab>;

fn layout_of(m: &State, t: u8) -> u8 {
    let n = m.get(&tname(t)).map(|x| &x.cols);
    (0..4u8).find(|l| n.is_some_and(|c| cols_of(*l) == *c)).unwrap_or(0)
}

fn cols_of(layout: u8) -> Vec<(String, String, bool)> {
    LAYOUTS[layout as usize].1.iter().map(|(a, b, c)| (a.to_string(), b.to_string(), *c)).collect()
}

impl Stmt {
    fn sql(&self, m: &State) -> Option<String> {
        Some(match self {
            Stmt::Create { t, layout } => format!("create table {} ({})", qn(*t), LAYOUTS[*layout as usize].0),
            Stmt::Insert { t, rows } => {
                let rows = rows.expand(layout_of(m, *t));
                let body: Vec<String> =
                    rows.iter().map(|r| format!("({})", r.iter().map(lit).collect::<Vec<_>>().join(","))).collect();
                format!("insert into {} values {}", qn(*t), body.join(","))
            }
            Stmt::InsertSelect { t, from } => format!("insert into {} select * from {}", qn(*t), qn(*from)),
            Stmt::Delete { t, key: Some(k) } => format!("delete from {} where k = {k}", qn(*t)),
            Stmt::Delete { t, key: None } => format!("delete from {} where true", qn(*t)),
            Stmt::Drop { t } => format!("drop table {}", qn(*t)),
            Stmt::Tick => return None,
        })
    }
    fn brief(&self, m: &State) -> String {
        match self {
            Stmt::Insert { t, rows: Rows::Seq { n, start } } => format!("insert into {} <{n} rows from key {start}>", tname(*t)),
            Stmt::Tick => "TICK".into(),
            s => s.sql(m).unwrap(),
        }
    }
    fn tag(&self) -> u8 {
        match self {
            Stmt::Create { .. } => 0,
            Stmt::Insert { rows: Rows::List(_), .. } => 1,
            Stmt::Insert { .. } => 2,
            Stmt::InsertSelect { .. } => 3,
            Stmt::Delete { key: Some(_), .. } => 4,
            Stmt::Delete { .. } => 5,
            Stmt::Drop { .. } => 6,
            Stmt::Tick => 7,
        }
    }
    /// The table model: the state after the statement.
    fn apply(&self, m: &mut State) {
        match self {
            Stmt::Create { t, layout } => {
                m.insert(tname(*t), Tab { cols: cols_of(*layout), rows: vec![] });
            }
            Stmt::Insert { t, rows } => {
                let l = layout_of(m, *t);
                let tab = m.get_mut(&tname(*t)).unwrap();
                tab.rows.extend(rows.expand(l));
                tab.rows.sort();
            }
            Stmt::InsertSelect { t, from } => {
                let src = m[&tname(*from)].rows.clone();
                let tab = m.get_mut(&tname(*t)).unwrap();
                tab.rows.extend(src);
                tab.rows.sort();
            }
            Stmt::Delete { t, key } => {
                let tab = m.get_mut(&tname(*t)).unwrap();
                tab.rows.retain(|r| key.is_some_and(|k| r[0] != Val::Int(k)));
            }
            Stmt::Drop { t } => {
                m.remove(&tname(*t));
            }
            Stmt::Tick => {}
        }
    }
}

/// Generator-side bookkeeping of one table name.
#[derive(Clone, Default)]
struct GenTab {
    layout: Option<u8>,
    rows: usize,
    /// keys in use (primary-key layouts get unique keys: the engine does not enforce the
    /// constraint, and duplicate keys are outside what SQL promises)
    keys: Vec<i64>,
    deleted: bool,
    /// a DELETE happened and a compaction pass ran afterwards
    stale_dv: bool,
}

fn is_pk(layout: u8) -> bool {
    layout == 0 || layout == 2
}

fn gen_rows(t: &mut Tape, g: &mut GenTab, n: usize) -> Vec<Row> {
    let layout = g.layout.unwrap();
    (0..n)
        .map(|_| {
            let mut k = t.pick(8) as i64;
            if is_pk(layout) {
                while g.keys.contains(&k) {
                    k += 1;
                }
            }
            g.keys.push(k);
            let mut r = vec![Val::Int(k), [Val::Null, Val::Int(0), Val::Int(1), Val::Int(-7)][t.pick(4)].clone()];
            if ncols(layout) == 3 {
                r.push([Val::Str("a".into()), Val::Null, Val::Str("".into()), Val::Str("bb".into()), Val::Str("a long string value".into())][t.pick(5)].clone());
            }
            r
        })
        .collect()
}

/// `no_drop_stale`: generator switch of finding F-C04-drop-after-compacted-delete.
pub fn decode(tape: &[u32], effort: Effort, no_drop_stale: bool) -> (CrashCase, u32) {
    let mut t = Tape::new(tape);
    let cfg = DiskCfg {
        block: [128usize, 64, 96, 256, 1024, 16384][t.pick(6)],
        rowset: [4096usize, 256, 1 << 20][t.pick(3)],
        checksum: t.pick(2) == 0,
        first_key: true,
        cache: [1024usize, 1][t.pick(2)],
        inmem: false,
    };
    // one workload in sixteen: a table of 34-37 single-row row-sets that are never merged (target
    // row-set size 1), then one DELETE of everything — a statement with more than 32 manifest
    // operations; only the crash states around manifest appends are examined (the focus keeps the
    // case within its budget)
    if t.chance(1, 16) {
        let cfg = DiskCfg { rowset: 1, ..cfg };
        let m = 34 + t.pick(4) as i64;
        let mut stmts = vec![Stmt::Create { t: 0, layout: 3 }];
        for i in 0..m {
            stmts.push(Stmt::Insert { t: 0, rows: Rows::Seq { n: 1, start: 100 + i } });
        }
        stmts.push(Stmt::Delete { t: 0, key: None });
        let focus = ["manifest.fsync.post:boundary", "manifest.append:torn-txn", "manifest.append:torn", "manifest.append.post:boundary"].iter().map(|x| x.to_string()).collect();
        return (CrashCase { cfg, stmts, effort, steered: 0, focus }, 0);
    }
    let n = t.range(3, 15);
    let mut tabs: [GenTab; 3] = Default::default();
    let mut next_seq = 100i64;
    let mut big_done = false;
    let mut stmts = vec![];
    let mut steered = 0;
    while stmts.len() < n {
        let live: Vec<usize> = (0..3).filter(|i| tabs[*i].layout.is_some()).collect();
        let free: Vec<usize> = (0..3).filter(|i| tabs[*i].layout.is_none()).collect();
        // 0 insert, 1 delete by key, 2 tick, 3 create, 4 big insert, 5 insert-select, 6 delete all, 7 drop
        let k = if live.is_empty() { 3 } else { t.weighted(&[28, 18, 14, if free.is_empty() { 0 } else { 7 }, 7, 9, 7, 5]) };
        if k == 3 {
            let nt = free[t.pick(free.len())];
            let layout = t.pick(4) as u8;
            tabs[nt] = GenTab { layout: Some(layout), ..Default::default() };
            stmts.push(Stmt::Create { t: nt as u8, layout });
            continue;
        }
        let tb = live[t.pick(live.len())];
        let layout = tabs[tb].layout.unwrap();
        match k {
            0 => {
                let nr = [1usize, 2, 3, 5, 30][t.weighted(&[4, 3, 2, 2, 1])];
                tabs[tb].rows += nr;
                stmts.push(Stmt::Insert { t: tb as u8, rows: Rows::List(gen_rows(&mut t, &mut tabs[tb], nr)) });
            }
            1 => {
                // mostly a key that exists (a delete vector is written), sometimes a miss
                let g = &tabs[tb];
                let key = if !g.keys.is_empty() && t.pick(4) != 3 { g.keys[t.pick(g.keys.len())] } else { t.pick(10) as i64 };
                tabs[tb].keys.retain(|x| *x != key);
                tabs[tb].deleted = true;
                stmts.push(Stmt::Delete { t: tb as u8, key: Some(key) });
            }
            2 => {
                tabs.iter_mut().for_each(|g| g.stale_dv |= g.deleted);
                stmts.push(Stmt::Tick);
            }
            4 => {
                // more than one 1024-row chunk: several row-sets in one transaction
                // (recoveries of big tables are slow: at most one such insert per workload)
                let nr = if big_done { 40 } else { [1030u32, 40, 1100][t.pick(3)] };
                big_done |= nr > 1000;
                tabs[tb].rows += nr as usize;
                stmts.push(Stmt::Insert { t: tb as u8, rows: Rows::Seq { n: nr, start: next_seq } });
                next_seq += 3000;
            }
            5 => {
                // the target has no key constraint (copied keys may repeat)
                let src: Vec<usize> = live
                    .iter()
                    .copied()
                    .filter(|s| *s != tb && !is_pk(layout) && ncols(tabs[*s].layout.unwrap()) == ncols(layout) && tabs[*s].rows > 0)
                    .collect();
                if src.is_empty() {
                    tabs[tb].rows += 2;
                    stmts.push(Stmt::Insert { t: tb as u8, rows: Rows::List(gen_rows(&mut t, &mut tabs[tb], 2)) });
                } else {
                    let from = src[t.pick(src.len())];
                    tabs[tb].rows += tabs[from].rows;
                    stmts.push(Stmt::InsertSelect { t: tb as u8, from: from as u8 });
                }
            }
            6 => {
                tabs[tb].keys.clear();
                tabs[tb].deleted = true;
                stmts.push(Stmt::Delete { t: tb as u8, key: None });
            }
            _ => {
                if no_drop_stale && tabs[tb].stale_dv {
                    // open finding: dropping a table whose deleted rows were compacted away
                    steered += 1;
                    stmts.push(Stmt::Tick);
                } else {
                    tabs[tb] = GenTab::default();
                    stmts.push(Stmt::Drop { t: tb as u8 });
                }
            }
        }
    }
    (CrashCase { cfg, stmts, effort, steered, focus: vec![] }, steered)
}

fn strat(ctx: &Ctx) -> impl Strategy<Value = CrashCase> + use<> {
    let effort = match ctx.tier {
        Tier::Quick => Effort { all_prefixes_of: None, col_prefixes: 1, nested_every: 5, max_states: 1000 },
        Tier::Thorough => Effort { all_prefixes_of: Some(0), col_prefixes: 4, nested_every: 2, max_states: 1500 },
    };
    let no_drop_stale = ctx.off(SW_DROP_STALE);
    (tape_strategy(120), any::<u32>()).prop_map(move |(tape, k)| {
        let mut e = effort.clone();
        e.all_prefixes_of = e.all_prefixes_of.map(|_| k % 64);
        decode(&tape, e, no_drop_stale).0
    })
}

// ---------------------------------------------------------------------------------------------
// directory trees and the recorder

/// relative path -> None (directory) | Some(bytes)
type Tree = BTreeMap<String, Option<Arc<Vec<u8>>>>;

fn read_tree(root: &Path) -> Tree {
    fn walk(root: &Path, dir: &Path, out: &mut Tree) {
        let Ok(rd) = std::fs::read_dir(dir) else { return };
        for e in rd.flatten() {
            let p = e.path();
            let rel = p.strip_prefix(root).unwrap().to_string_lossy().to_string();
            if p.is_dir() {
                out.insert(rel, None);
                walk(root, &p, out);
            } else if let Ok(b) = std::fs::read(&p) {
                out.insert(rel, Some(Arc::new(b)));
            }
        }
    }
    let mut t = Tree::new();
    if root.is_dir() {
        t.insert(String::new(), None);
        walk(root, root, &mut t);
    }
    t
}

fn write_tree(root: &Path, t: &Tree) {
    let _ = std::fs::remove_dir_all(root);
    for (rel, c) in t {
        let p = if rel.is_empty() { root.to_path_buf() } else { root.join(rel) };
        match c {
            None => std::fs::create_dir_all(&p).unwrap(),
            Some(b) => {
                if let Some(d) = p.parent() {
                    std::fs::create_dir_all(d).unwrap();
                }
                std::fs::write(&p, b.as_slice()).unwrap()
            }
        }
    }
}

fn hash_of(x: impl Hash) -> u64 {
    let mut h = std::collections::hash_map::DefaultHasher::new();
    x.hash(&mut h);
    h.finish()
}

struct Ev {
    kind: String,
    /// path relative to the database directory ("manifest" for manifest appends)
    path: String,
    acked: usize,
    inflight: Option<usize>,
    tree: Arc<Tree>,
}

#[derive(Default)]
struct Rec {
    root: PathBuf,
    acked: usize,
    inflight: Option<usize>,
    evs: Vec<Ev>,
}

fn arm(rec: &Arc<Mutex<Rec>>) {
    let rec = rec.clone();
    risinglight::verif::set_observer(Some(Arc::new(move |kind: &str, detail: &str| {
        let mut r = rec.lock().unwrap();
        let tree = read_tree(&r.root);
        let tree = match r.evs.last() {
            Some(l) if *l.tree == tree => l.tree.clone(),
            _ => Arc::new(tree),
        };
        let path = Path::new(detail).strip_prefix(&r.root).map(|p| p.to_string_lossy().to_string()).unwrap_or(detail.to_string());
        let (acked, inflight) = (r.acked, r.inflight);
        r.evs.push(Ev { kind: kind.to_string(), path, acked, inflight, tree });
    })));
}

// ---------------------------------------------------------------------------------------------
// crash states

struct Crash {
    /// "<step>:<boundary|torn|partial>"
    label: String,
    desc: String,
    acked: usize,
    inflight: Option<usize>,
    tree: Arc<Tree>,
}

fn family(path: &str) -> &'static str {
    if path == "manifest.json" {
        "manifest.append"
    } else if path == "manifest.tmp.json" {
        "manifest.tmp.append"
    } else if path.ends_with(".dv") {
        "dv.write"
    } else {
        "file.write"
    }
}

/// End offsets of the complete top-level JSON values of a manifest append (`"Begin"`, each
/// operation, `"End"`): cutting there leaves a well-formed but unterminated transaction.
fn record_ends(added: &[u8]) -> Vec<usize> {
    let mut it = serde_json::Deserializer::from_slice(added).into_iter::<serde_json::Value>();
    let mut v = vec![];
    while let Some(Ok(_)) = it.next() {
        v.push(it.byte_offset());
    }
    v
}

fn prefixes(path: &str, added: &[u8], fresh: bool, e: &Effort, all: bool, nested: bool) -> Vec<usize> {
    let n = added.len();
    let mut v: Vec<usize> = vec![];
    if fresh {
        v.push(0);
    }
    let fam = family(path);
    if fam == "file.write" {
        if nested && e.col_prefixes <= 1 {
            return v;
        }
        let k = e.col_prefixes.max(1) as usize;
        v.extend((1..=k).map(|i| (n * i / (k + 1)).max(1)));
        if k > 1 {
            v.extend([1, n - 1]);
        }
    } else if all {
        v.extend(1..n);
    } else {
        v.extend([1, n / 2, n - 1]);
    }
    if fam.starts_with("manifest") {
        // in the middle of a multi-byte character (of a table name): the file is not valid UTF-8
        v.extend((1..n).filter(|p| added[*p] & 0xc0 == 0x80).take(4));
    }
    if fam == "manifest.append" || fam == "manifest.tmp.append" && e.col_prefixes > 1 {
        // between two records: a well-formed but unterminated (or half-applied) transaction
        v.extend(record_ends(added));
    }
    v.retain(|p| *p < n && (*p > 0 || fresh));
    v.sort();
    v.dedup();
    v
}

fn derive(evs: &[Ev], e: &Effort, pre: &str) -> Vec<Crash> {
    let mut out = vec![];
    // the growth steps of manifest / delete-vector files, one of which is cut at every prefix
    let grows = |i: usize| -> Vec<(&String, &Arc<Vec<u8>>, usize, bool)> {
        let (ev, prev) = (&evs[i], &evs[i - 1].tree);
        if ev.kind.starts_with("manifest.rename") || Arc::ptr_eq(&ev.tree, prev) {
            return vec![];
        }
        let mut v = vec![];
        for (path, c) in ev.tree.iter() {
            let Some(b) = c else { continue };
            let (a, fresh) = match prev.get(path) {
                Some(Some(a)) => (a.len(), false),
                Some(None) => continue,
                None => (0, true),
            };
            if b.len() > a && prev.get(path).and_then(|x| x.as_ref()).is_none_or(|x| b.starts_with(x)) {
                v.push((path, b, a, fresh));
            }
        }
        v
    };
    let small: Vec<(usize, &String)> = (1..evs.len()).flat_map(|i| grows(i).into_iter().filter(|g| family(g.0) != "file.write").map(move |g| (i, g.0))).collect();
    let full: Option<(usize, String)> = match e.all_prefixes_of {
        Some(k) if !small.is_empty() && pre.is_empty() => Some(small[k as usize % small.len()]).map(|(i, p)| (i, p.clone())),
        _ => None,
    };
    for (i, ev) in evs.iter().enumerate() {
        let (acked, inflight) = (ev.acked, ev.inflight);
        // torn writes: a file that grew since the previous capture (a rename is atomic)
        if i > 0 {
            let prev = &evs[i - 1].tree;
            for (path, b, a, fresh) in grows(i) {
                let all = full.as_ref().is_some_and(|(fi, fp)| *fi == i && fp == path);
                let ends = if family(path).starts_with("manifest") { record_ends(&b[a..]) } else { vec![] };
                for p in prefixes(path, &b[a..], fresh, e, all, !pre.is_empty()) {
                    let mut t = (**prev).clone();
                    t.insert(path.clone(), Some(Arc::new(b[..a + p].to_vec())));
                    // torn = inside a record / the file; torn-txn = between two manifest records
                    let mode = if ends.contains(&p) { "torn-txn" } else { "torn" };
                    out.push(Crash {
                        label: format!("{pre}{}:{mode}", family(path)),
                        desc: format!("event #{i} {} {}: {path} cut after {p} of {} new bytes", ev.kind, ev.path, b.len() - a),
                        acked,
                        inflight,
                        tree: Arc::new(t),
                    });
                }
            }
        }
        if ev.kind.contains('.') && ev.kind != "compaction.commit" && ev.kind != "vacuum.rowset" {
            out.push(Crash {
                label: format!("{pre}{}:boundary", ev.kind),
                desc: format!("event #{i} {} {}", ev.kind, ev.path),
                acked,
                inflight,
                tree: ev.tree.clone(),
            });
        }
        if ev.kind == "dv.mkdir.post" {
            // `Manifest::open` creates the (empty) manifest next; there is no hook in between
            let mut t = (*ev.tree).clone();
            t.insert("manifest.json".into(), Some(Arc::new(vec![])));
            out.push(Crash { label: format!("{pre}manifest.create:boundary"), desc: format!("event #{i}+ empty manifest created"), acked, inflight, tree: Arc::new(t) });
        }
        if ev.kind.ends_with("unlink.pre") {
            // remove_dir_all is not atomic: some of the files are already gone
            let dir = format!("{}/", ev.path);
            let files: Vec<&String> = ev.tree.keys().filter(|k| k.starts_with(&dir)).collect();
            let n = files.len();
            let mut sets: Vec<Vec<&String>> = vec![];
            let thorough = e.all_prefixes_of.is_some() && pre.is_empty();
            let ks: Vec<usize> = if thorough {
                (1..=n).collect()
            } else if pre.is_empty() {
                vec![n / 2, n]
            } else {
                vec![n / 2]
            };
            for k in ks {
                if k >= 1 && k <= n {
                    sets.push(files[..k].to_vec());
                    if thorough || k < n {
                        sets.push(files[n - k..].to_vec());
                    }
                }
            }
            if thorough {
                sets.extend(files.iter().map(|f| vec![*f]));
            }
            sets.sort();
            sets.dedup();
            for s in sets {
                let mut t = (*ev.tree).clone();
                for f in &s {
                    t.remove(*f);
                }
                out.push(Crash {
                    label: format!("{pre}{}:partial", ev.kind.trim_end_matches(".pre")),
                    desc: format!("event #{i} {} {}: {} of {n} files already removed", ev.kind, ev.path, s.len()),
                    acked,
                    inflight,
                    tree: Arc::new(t),
                });
            }
        }
    }
    out
}

// ---------------------------------------------------------------------------------------------
// reading a state, probing, recovering

async fn read_state(db: &risinglight::Database) -> Result<State, String> {
    let mut m = State::new();
    let tabs = match exec(db, "select * from pg_catalog.pg_tables").await {
        Out::Rows(r) => r,
        o => return Err(format!("pg_tables: {}", o.brief())),
    };
    let attrs = match exec(db, "select * from pg_catalog.pg_attribute").await {
        Out::Rows(r) => r,
        o => return Err(format!("pg_attribute: {}", o.brief())),
    };
    let s = |v: &Val| match v {
        Val::Str(s) => s.clone(),
        o => o.to_string(),
    };
    // pg_tables: (schema_id, schema_name, table_id, table_name);
    // pg_attribute: (schema_name, table_name, column_id, column_name, column_type, not_null)
    for t in tabs.iter().filter(|r| r[1] == Val::Str("postgres".into())) {
        let name = s(&t[3]);
        let mut cols: Vec<&Row> = attrs.iter().filter(|a| a[0] == t[1] && a[1] == t[3]).collect();
        cols.sort_by_key(|a| a[2].clone());
        let cols = cols.iter().map(|a| (s(&a[3]), s(&a[4]), a[5] == Val::Bool(true))).collect();
        let rows = match exec(db, &format!("select * from \"{name}\"")).await {
            Out::Rows(r) => sorted(r),
            o => return Err(format!("select * from {name}: {}", o.brief())),
        };
        if m.insert(name.clone(), Tab { cols, rows }).is_some() {
            return Err(format!("table {name} is listed twice"));
        }
    }
    Ok(m)
}

fn fmt_state(m: &State) -> String {
    let v: Vec<String> = m
        .iter()
        .map(|(n, t)| {
            let c: Vec<String> = t.cols.iter().map(|(a, b, nn)| format!("{a} {b}{}", if *nn { " not null" } else { "" })).collect();
            format!("{n}({}) {} rows {}", c.join(", "), t.rows.len(), fmt_rows(&t.rows[..t.rows.len().min(12)]))
        })
        .collect();
    format!("{{{}}}", v.join("; "))
}

/// multiset inclusion of sorted row lists
fn sub_multiset(a: &[Row], b: &[Row]) -> bool {
    let (mut i, mut j) = (0, 0);
    while i < a.len() && j < b.len() {
        match a[i].cmp(&b[j]) {
            std::cmp::Ordering::Equal => {
                i += 1;
                j += 1;
            }
            std::cmp::Ordering::Greater => j += 1,
            std::cmp::Ordering::Less => return false,
        }
    }
    i == a.len()
}

/// What is wrong with `got` relative to the allowed states (first = acknowledged prefix).
fn symptom(got: &State, allowed: &[&State]) -> &'static str {
    let base = allowed[0];
    let pick = allowed.iter().find(|a| a.keys().eq(got.keys())).copied();
    let Some(a) = pick else {
        return if base.keys().any(|k| !got.contains_key(k)) { "table-missing" } else { "table-unexpected" };
    };
    if a.iter().zip(got.iter()).any(|((_, x), (_, y))| x.cols != y.cols) {
        return "columns-differ";
    }
    let lost = base.iter().any(|(n, t)| got.get(n).is_some_and(|g| !sub_multiset(&t.rows, &g.rows)));
    if allowed.len() == 2 {
        let next = allowed[1];
        let between = |lo: &State, hi: &State| {
            got.iter().all(|(n, g)| match (lo.get(n), hi.get(n)) {
                (Some(l), Some(h)) => sub_multiset(&l.rows, &g.rows) && sub_multiset(&g.rows, &h.rows),
                _ => true,
            })
        };
        if between(base, next) || between(next, base) {
            return "statement-partially-visible";
        }
    }
    if lost {
        return "acked-rows-lost";
    }
    "rows-extra"
}

#[derive(Clone, Debug)]
struct Flaw {
    symptom: String,
    msg: String,
}

fn flaw(symptom: impl Into<String>, msg: impl Into<String>) -> Flaw {
    Flaw { symptom: symptom.into(), msg: msg.into() }
}

fn first_line(p: &str) -> String {
    let (msg, loc) = p.rsplit_once(" @ ").unwrap_or((p, ""));
    format!("{} @ {loc}", msg.lines().next().unwrap_or(""))
}

fn err_class(e: &str) -> &'static str {
    let e = e.to_lowercase();
    if e.contains("option::unwrap()") {
        // the panic site tells lookups of missing tables / row-sets apart
        return match e.rsplit_once('/').map(|x| x.1.split(':').next().unwrap_or("")) {
            Some("storage.rs") => "unwrap-none@storage.rs",
            Some("version_manager.rs") => "unwrap-none@version_manager.rs",
            _ => "unwrap-none",
        };
    }
    if e.contains("eof while parsing") {
        "json-eof"
    } else if e.contains("json") || e.contains("expected value") || e.contains("trailing") {
        "json"
    } else if e.contains("file exists") || e.contains("os error 17") {
        "file-exists"
    } else if e.contains("no such file") || e.contains("os error 2") {
        "missing-file"
    } else if e.contains("checksum") {
        "checksum"
    } else if e.contains("duplicated") {
        "duplicated"
    } else if e.contains("not found") {
        "not-found"
    } else if e.contains("eof") || e.contains("decode") {
        "decode"
    } else {
        "other"
    }
}

/// New statements on a recovered database; returns the expected state afterwards (re-synchronised
/// with the observed state after a flaw, so that one defect is reported once).
async fn probe(db: &risinglight::Database, start: &State, flaws: &mut Vec<Flaw>) -> State {
    let mut exp = start.clone();
    for (i, (name, tab)) in start.iter().enumerate() {
        let mut row = vec![Val::Int(900 + i as i64), Val::Int(7)];
        if tab.cols.len() == 3 {
            row.push(Val::Str("p".into()));
        }
        let sql = format!("insert into \"{name}\" values ({})", row.iter().map(lit).collect::<Vec<_>>().join(","));
        match exec(db, &sql).await {
            Out::Rows(_) => {
                let t = exp.get_mut(name).unwrap();
                t.rows.push(row);
                t.rows.sort();
            }
            o => flaws.push(flaw(format!("probe-insert-fails:{}", err_class(&o.brief())), format!("after recovery `{sql}` -> {}", o.brief()))),
        }
    }
    match read_state(db).await {
        Ok(s) if s == exp => {}
        Ok(s) => {
            // only acknowledged probe rows missing, everything else as expected?
            let hidden = s.keys().eq(exp.keys())
                && s.iter().zip(exp.iter()).all(|((_, g), (_, e))| {
                    g.cols == e.cols && sub_multiset(&g.rows, &e.rows) && e.rows.iter().filter(|r| !matches!(r[0], Val::Int(k) if k >= 900)).count() == g.rows.iter().filter(|r| !matches!(r[0], Val::Int(k) if k >= 900)).count()
                });
            flaws.push(flaw(
                if hidden { "probe-insert-hidden" } else { "probe-insert-state-differs" },
                format!("after recovery and one acknowledged INSERT per table the state is {}, expected {}", fmt_state(&s), fmt_state(&exp)),
            ));
            exp = s;
        }
        Err(e) => flaws.push(flaw(format!("probe-read-fails:{}", err_class(&e)), format!("after recovery and the probe inserts: {e}"))),
    }
    let mid = exp.clone();
    for (i, (name, tab)) in mid.iter().enumerate() {
        // delete an old row if there is one (a delete vector on a recovered row-set)
        let key = tab.rows.first().map(|r| r[0].clone()).unwrap_or(Val::Int(900 + i as i64));
        let sql = format!("delete from \"{name}\" where k = {}", lit(&key));
        let mut o = exec(db, &sql).await;
        if !o.is_ok() {
            flaws.push(flaw(format!("probe-delete-fails:{}", err_class(&o.brief())), format!("after recovery `{sql}` -> {}", o.brief())));
            // every orphan delete-vector file makes one attempt fail (each attempt draws a new id)
            let mut tries = 0;
            while !o.is_ok() && tries < 64 && (tries == 0 || err_class(&o.brief()) == "file-exists") {
                o = exec(db, &sql).await;
                tries += 1;
            }
            if !o.is_ok() {
                flaws.push(flaw(format!("probe-delete-keeps-failing:{}", err_class(&o.brief())), format!("after recovery `{sql}` tried {} times -> {}", tries + 1, o.brief())));
                continue;
            }
        }
        let t = exp.get_mut(name).unwrap();
        let before = t.rows.len();
        t.rows.retain(|r| r[0] != key);
        if o != Out::Rows(vec![vec![Val::Int((before - t.rows.len()) as i64)]]) {
            flaws.push(flaw("probe-delete-count", format!("after recovery `{sql}` -> {}, expected {} rows deleted", o.brief(), before - t.rows.len())));
        }
    }
    for sql in ["create table zz_probe (k int, v int)", "insert into zz_probe values (1, 1)", "drop table zz_probe"] {
        let o = exec(db, sql).await;
        if !o.is_ok() {
            flaws.push(flaw(format!("probe-ddl-fails:{}", err_class(&o.brief())), format!("after recovery `{sql}` -> {}", o.brief())));
        }
    }
    match read_state(db).await {
        Ok(s) if s == exp => {}
        Ok(s) => {
            flaws.push(flaw("probe-not-visible", format!("after recovery and the probe statements the state is {}, expected {}", fmt_state(&s), fmt_state(&exp))));
            exp = s;
        }
        Err(e) => flaws.push(flaw(format!("probe-read-fails:{}", err_class(&e)), format!("after recovery and the probe statements: {e}"))),
    }
    exp
}

struct Recovered {
    /// the state right after recovery, if it was an allowed one
    state: Option<State>,
    flaws: Vec<Flaw>,
    /// persistence steps of the recovery itself (instrumented recoveries only)
    evs: Vec<Ev>,
}

/// Recover `tree` on a private copy: open, compare with the allowed states, probe, reopen.
fn recover(dir: &Path, cfg: &DiskCfg, tree: &Tree, allowed: &[&State], instrument: bool) -> Recovered {
    let t0 = std::time::Instant::now();
    write_tree(dir, tree);
    let t1 = t0.elapsed();
    risinglight::verif::reset();
    let _ = take_panics();
    let rec = Arc::new(Mutex::new(Rec { root: dir.to_path_buf(), ..Default::default() }));
    if instrument {
        arm(&rec);
    }
    let mut flaws = vec![];
    let r = block_on(async {
        let mut flaws = vec![];
        let opened = open_disk(cfg, dir).await;
        if std::env::var("RLV_C04_TIME").is_ok() {
            eprintln!("[c04-time] write {:?} open {:?}", t1, t0.elapsed());
        }
        risinglight::verif::reset();
        let db = match opened {
            Ok(db) => db,
            Err(p) => {
                flaws.push(flaw(format!("open-panics:{}", err_class(&p)), format!("Database::new_on_disk panicked: {}", first_line(&p))));
                return (None, flaws);
            }
        };
        let got = match read_state(&db).await {
            Ok(s) => s,
            Err(e) => {
                flaws.push(flaw(format!("read-fails:{}", err_class(&e)), format!("after recovery: {e}")));
                let _ = shutdown(&db).await;
                return (None, flaws);
            }
        };
        if !allowed.iter().any(|a| **a == got) {
            let exp: Vec<String> = allowed.iter().map(|a| fmt_state(a)).collect();
            flaws.push(flaw(symptom(&got, allowed), format!("recovered state {} is none of the allowed states [{}]", fmt_state(&got), exp.join(" | "))));
            let _ = shutdown(&db).await;
            return (None, flaws);
        }
        let exp = probe(&db, &got, &mut flaws).await;
        let _ = shutdown(&db).await;
        drop(db);
        match open_disk(cfg, dir).await {
            Ok(db) => {
                match read_state(&db).await {
                    Ok(s) if s == exp => {}
                    Ok(s) => flaws.push(flaw("reopen-differs", format!("after recovery, probe, shutdown and reopen the state is {}, expected {}", fmt_state(&s), fmt_state(&exp)))),
                    Err(e) => flaws.push(flaw(format!("reopen-read-fails:{}", err_class(&e)), format!("after recovery, probe, shutdown and reopen: {e}"))),
                }
                let _ = shutdown(&db).await;
            }
            Err(p) => flaws.push(flaw(format!("reopen-panics:{}", err_class(&p)), format!("reopen after recovery + probe + shutdown panicked: {}", first_line(&p)))),
        }
        (Some(got), flaws)
    });
    if std::env::var("RLV_C04_TIME").is_ok() {
        eprintln!("[c04-time] total {:?}", t0.elapsed());
    }
    risinglight::verif::reset();
    let _ = take_panics();
    let evs = std::mem::take(&mut rec.lock().unwrap().evs);
    let state = match r {
        Ok((s, f)) => {
            flaws.extend(f);
            s
        }
        Err(p) => {
            flaws.push(flaw("recovery-panics", format!("panic outside a statement during recovery: {p}")));
            None
        }
    };
    Recovered { state, flaws, evs }
}

// ---------------------------------------------------------------------------------------------
// the test

fn test(ctx: &Ctx, case: &CrashCase, st: &mut Stats) -> Verdict {
    risinglight::verif::reset();
    let _ = take_panics();
    for _ in 0..case.steered {
        st.excluded(SW_DROP_STALE);
    }
    // the table model of every acknowledged prefix
    let mut models = vec![State::new()];
    for s in &case.stmts {
        let mut m = models.last().unwrap().clone();
        s.apply(&mut m);
        models.push(m);
    }
    let base = ctx.case_dir("c04");
    let live = base.join("live");
    let rec = Arc::new(Mutex::new(Rec { root: live.clone(), ..Default::default() }));
    arm(&rec);
    // phase 1: the workload, capturing the directory at every persistence step
    let r = block_on(async {
        let db = open_disk(&case.cfg, &live).await.map_err(|_| "open of a fresh directory panicked")?;
        for (i, s) in case.stmts.iter().enumerate() {
            match s.sql(&models[i]) {
                None => tick().await,
                Some(sql) => {
                    rec.lock().unwrap().inflight = Some(i);
                    let o = exec(&db, &sql).await;
                    if !o.is_ok() {
                        if std::env::var("RLV_VERBOSE").is_ok() {
                            eprintln!("[c04] workload statement `{}` -> {}", s.brief(&models[i]), o.brief());
                        }
                        let _ = shutdown(&db).await;
                        return Err("a workload statement failed without a crash");
                    }
                }
            }
            {
                let mut r = rec.lock().unwrap();
                r.inflight = None;
                r.acked = i + 1;
            }
            // the uncrashed run must follow the model, else the deviation is not a crash issue
            match read_state(&db).await {
                Ok(s) if s == models[i + 1] => {}
                _ => {
                    let _ = shutdown(&db).await;
                    return Err("the uncrashed run deviates from the model");
                }
            }
        }
        let _ = shutdown(&db).await;
        Ok(())
    });
    risinglight::verif::reset();
    let _ = take_panics();
    let mut evs = std::mem::take(&mut rec.lock().unwrap().evs);
    match r {
        Ok(Ok(())) => {}
        Ok(Err(why)) => return Verdict::Discard(why),
        Err(_) => return Verdict::Discard("the uncrashed workload panicked"),
    }
    evs.push(Ev { kind: "end.shutdown".into(), path: String::new(), acked: case.stmts.len(), inflight: None, tree: Arc::new(read_tree(&live)) });
    let dump = std::env::var("RLV_C04_DUMP").is_ok();
    if dump {
        for (i, s) in case.stmts.iter().enumerate() {
            eprintln!("[c04] stmt {i}: {}", s.brief(&models[i]));
        }
        for (i, e) in evs.iter().enumerate() {
            eprintln!("[c04] ev {i}: {} {} acked={} inflight={:?} files={} tree={:x}", e.kind, e.path, e.acked, e.inflight, e.tree.len(), hash_of(&*e.tree) & 0xffff);
        }
    }
    // classes of the workload
    for w in evs.windows(2) {
        if w[1].kind == "compaction.commit" {
            st.class("workload:compaction-committed");
        }
    }
    for i in 0..case.stmts.len() {
        let dirs = evs.iter().filter(|e| e.inflight == Some(i) && e.kind == "rowset.mkdir.post").count();
        let dvs = evs.iter().filter(|e| e.inflight == Some(i) && e.kind == "dv.create.post").count();
        if dirs >= 2 {
            st.class("stmt:several-row-sets");
        }
        if dvs >= 2 {
            st.class("stmt:several-delete-vectors");
        }
    }
    // phase 2: every distinct crash state
    let rdir = base.join("rec");
    let ctxt = |c: &Crash| {
        let fl = match c.inflight {
            Some(i) => format!("in flight: #{i} `{}`", case.stmts[i].brief(&models[i])),
            None => "no statement in flight (background step)".into(),
        };
        let ack: Vec<String> = case.stmts[..c.acked].iter().enumerate().map(|(i, s)| s.brief(&models[i])).collect();
        format!("crash state [{}] {}; acknowledged: [{}]; {fl}", c.label, c.desc, ack.join("; "))
    };
    let mut seen: HashSet<(u64, u64)> = HashSet::new();
    let mut known: Option<Failure> = None;
    let mut inside = false;
    let mut nrec = 0u32;
    let allowed_of = |c: &Crash| -> Vec<&State> {
        match c.inflight {
            Some(i) => vec![&models[i], &models[i + 1]],
            None => vec![&models[c.acked]],
        }
    };
    // the directory as it was when statement i started (its first step is reported before it happens)
    let mut stmt_start: BTreeMap<usize, u64> = BTreeMap::new();
    for e in &evs {
        if let Some(i) = e.inflight {
            stmt_start.entry(i).or_insert_with(|| hash_of(&*e.tree));
        }
    }
    let mut direct: Vec<Crash> = derive(&evs, &case.effort, "");
    let focused = |label: &str| case.focus.is_empty() || case.focus.iter().any(|f| f == label);
    direct.retain(|c| focused(&c.label) && seen.insert((hash_of(&*c.tree), hash_of(allowed_of(c)))));
    // keep the case under the watchdog: thin evenly beyond the cap (counted in the evidence)
    // (the cost of a recovery grows with the table sizes: fewer recoveries for big workloads)
    let peak: usize = models.iter().map(|m| m.values().map(|t| t.rows.len()).sum::<usize>()).max().unwrap_or(0);
    let max_states = (case.effort.max_states as usize * 300 / (300 + peak)).max(50);
    let cap = (max_states * 6 / 10).max(1);
    if direct.len() > cap {
        st.class("thinned-to-cap");
        let n = direct.len();
        let mut i = 0;
        direct.retain(|_| {
            i += 1;
            (i - 1) * cap / n != i * cap / n
        });
    }
    let mut budget = max_states - direct.len().min(max_states);
    for c in direct {
        let allowed = allowed_of(&c);
        st.eval();
        st.class(&c.label);
        // strictly inside a statement (something of it is persisted, it is not acknowledged) or
        // inside a background compaction / vacuum step
        let h = hash_of(&*c.tree);
        let strictly = match c.inflight {
            Some(i) => stmt_start.get(&i).is_some_and(|s| *s != h),
            None => c.acked > 0 && ["file.", "rowset.", "vacuum.", "manifest.append"].iter().any(|p| c.label.starts_with(p)),
        };
        if strictly {
            inside = true;
            st.class("state:strictly-inside-a-statement-or-background-step");
        }
        let instrument = case.effort.nested_every > 0 && nrec % case.effort.nested_every == 0 && budget > 0;
        nrec += 1;
        let r = recover(&rdir, &case.cfg, &c.tree, &allowed, instrument);
        let mut flaws: Vec<(String, String)> = r.flaws.iter().map(|f| (format!("{}:{}", c.label, f.symptom), format!("{} — {}", f.msg, ctxt(&c)))).collect();
        if let Some(got) = &r.state {
            if c.inflight.is_some() && allowed[0] != allowed[1] {
                st.class(if got == allowed[1] { "in-flight:recovered-as-applied" } else { "in-flight:recovered-as-absent" });
            }
            // crash during recovery: every crash state of the recovery recovers to the same state
            for n in derive(&r.evs, &case.effort, "rec/") {
                if budget == 0 || !focused(&n.label) || !seen.insert((hash_of(&*n.tree), hash_of(got))) {
                    continue;
                }
                budget -= 1;
                st.eval();
                st.class(&n.label);
                let r2 = recover(&rdir, &case.cfg, &n.tree, &[got], false);
                flaws.extend(r2.flaws.iter().map(|f| (format!("{}:{}", n.label, f.symptom), format!("{} — second crash during the recovery of: {} — at {} {}", f.msg, ctxt(&c), n.label, n.desc))));
            }
        }
        for (sig, msg) in flaws {
            if dump {
                eprintln!("[c04] FLAW [{sig}] {msg}");
            }
            if std::env::var("RLV_C04_COLLECT").is_ok() {
                // development aid: histogram of all flaws instead of stopping at the first
                if st.classes.get(&format!("flaw:{sig}")).is_none() {
                    eprintln!("[c04] FLAW [{sig}] {}", msg.chars().take(700).collect::<String>());
                }
                st.class(&format!("flaw:{sig}"));
            } else if ctx.known.open_for(&ctx.prop).any(|f| f.signatures.contains(&sig)) && std::env::var("RLV_IGNORE_KNOWN").is_err() {
                // a listed defect: keep looking for an unlisted one (also when replaying, so that a
                // replay file reports the unlisted failure it was written for; a replay still
                // fails on the listed one if nothing else is wrong)
                st.class(&format!("known:{sig}"));
                known.get_or_insert(Failure { sig, msg });
            } else {
                return Verdict::Fail(Failure { sig, msg });
            }
        }
    }
    if inside {
        let tags: Vec<u8> = case.stmts.iter().map(|s| s.tag()).collect();
        st.nontrivial((tags, case.cfg.rowset, case.cfg.block, case.cfg.checksum));
    }
    match known {
        Some(f) => Verdict::Fail(f),
        None => Verdict::Pass,
    }
}

pub fn def() -> PropDef {
    // storage errors capture a backtrace when RUST_BACKTRACE is set; resolving it costs ~70 ms
    // per failed open, and thousands of recoveries fail by design of the enumeration
    if std::env::var_os("RUST_LIB_BACKTRACE").is_none() {
        // called once at process start, before any other thread exists
        unsafe { std::env::set_var("RUST_LIB_BACKTRACE", "0") };
    }
    PropDef {
        id: "C04",
        level: "fault_enumeration",
        rule: "a case is a generated workload (3-15 statements: create/drop table, single- and multi-row-set inserts, insert-select, deletes, compaction ticks; generated block/row-set size, checksum, cache) whose every persistence step is observed; its crash states (step boundaries, byte-prefix cuts of every file that grew between two steps, partially executed directory removals; for a sample also the crash states of the recovery itself) are each recovered, compared with the table model, probed and reopened. Non-trivial: at least one crash state lies strictly inside a statement (part of it is on disk, it is not acknowledged) or inside a background compaction/vacuum step; distinct by (statement kinds, row-set size, block size, checksum)",
        assumptions: vec![
            "process-crash model: completed writes are in the file system, the write in flight is applied up to any byte prefix, nothing is reordered (power loss with unsynced data is not modelled)",
            "the persistence-step hooks (feature verif) are called at every step that changes the directory",
            "a statement that fails or deviates from the model without any crash is outside this property (such a workload is discarded and counted)",
            "single session, paused clock: background compaction/vacuum only runs at ticks, at open and at shutdown",
        ],
        min_nontrivial: 20,
        parts: vec![part("crash", 80, 1000, strat, test)],
    }
}
