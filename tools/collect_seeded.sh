#!/bin/bash
# tools/collect_seeded.sh <cNN> <out dir of the sub-agent> <first index>: copy the sub-agent's deliverables
# into seeded/<cNN>-<k>/ (patch.diff, demo.rs, meta.json)
id=$1; src=$2; k0=$3
cd /verif
for k in 1 2; do
  [ -f $src/change_$k.diff ] || continue
  d=seeded/$id-$((k0+k-1)); mkdir -p $d
  cp $src/change_$k.diff $d/patch.diff; cp $src/demo_$k.rs $d/demo.rs
  python3 - "$src/meta_$k.json" "$d/meta.json" <<'PY'
import json,sys
m=json.load(open(sys.argv[1])); m['author']='sub-agent (saw only the property text and a scratch worktree)'
json.dump(m,open(sys.argv[2],'w'),indent=1)
PY
  echo "collected $d"
done
