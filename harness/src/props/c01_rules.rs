//! C01 part (c): every rewrite rule alone. Left-hand-side instances are harvested from the
//! e-graphs of generated queries, re-built as standalone terms, the rule is applied alone on a
//! fresh e-graph, and both sides are executed on generated data.

use std::collections::{BTreeMap, HashSet};

use egg::{ENodeOrVar, Id, Language, RecExpr as EggRecExpr, Runner};
use risinglight::planner::{Expr, ExprAnalysis, RecExpr, Statistics};

use super::c01::OptCase;
use crate::engine::*;
use crate::sqlrun::*;

type EGraph = egg::EGraph<Expr, ExprAnalysis>;
type Rewrite = egg::Rewrite<Expr, ExprAnalysis>;

fn append(dst: &mut RecExpr, src: &RecExpr) -> Id {
    let mut map: Vec<Id> = Vec::with_capacity(src.as_ref().len());
    for n in src.as_ref() {
        let n2 = n.clone().map_children(|c| map[usize::from(c)]);
        map.push(dst.add(n2));
    }
    *map.last().unwrap()
}

struct SizeCost;
impl egg::CostFunction<Expr> for SizeCost {
    type Cost = usize;
    fn cost<C: FnMut(Id) -> usize>(&mut self, enode: &Expr, mut costs: C) -> usize {
        enode.fold(1usize, |s, id| s.saturating_add(costs(id)))
    }
}

/// Prefers non-constant terms (to vary the instances).
struct NonConstCost;
impl egg::CostFunction<Expr> for NonConstCost {
    type Cost = usize;
    fn cost<C: FnMut(Id) -> usize>(&mut self, enode: &Expr, mut costs: C) -> usize {
        let base = if matches!(enode, Expr::Constant(_)) { 50 } else { 1 };
        enode.fold(base, |s: usize, id| s.saturating_add(costs(id)))
    }
}

struct ForbidCost<'a> {
    forbidden: &'a Expr,
}
impl egg::CostFunction<Expr> for ForbidCost<'_> {
    type Cost = usize;
    fn cost<C: FnMut(Id) -> usize>(&mut self, enode: &Expr, mut costs: C) -> usize {
        let base = if enode == self.forbidden { usize::MAX / 4 } else { 1 };
        enode.fold(base, |s: usize, id| s.saturating_add(costs(id)))
    }
}

/// Build a concrete term from the searcher's pattern and one substitution.
fn instantiate(egraph: &EGraph, pat: &EggRecExpr<ENodeOrVar<Expr>>, subst: &egg::Subst, variant: bool) -> Option<RecExpr> {
    let mut out = RecExpr::default();
    let mut map: Vec<Id> = vec![];
    for n in pat.as_ref() {
        match n {
            ENodeOrVar::Var(v) => {
                let class = *subst.get(*v)?;
                let term = if variant {
                    egg::Extractor::new(egraph, NonConstCost).find_best(class).1
                } else {
                    egg::Extractor::new(egraph, SizeCost).find_best(class).1
                };
                if term.as_ref().len() > 60 {
                    return None;
                }
                map.push(append(&mut out, &term));
            }
            ENodeOrVar::ENode(e) => {
                let e2 = e.clone().map_children(|c| map[usize::from(c)]);
                map.push(out.add(e2));
            }
        }
    }
    Some(out)
}

fn is_plan_node(e: &Expr) -> bool {
    use Expr::*;
    matches!(
        e,
        Scan(_) | Values(_) | Proj(_) | Filter(_) | Order(_) | Limit(_) | TopN(_) | Join(_) | HashJoin(_) | MergeJoin(_) | Apply(_) | Agg(_) | HashAgg(_) | SortAgg(_) | Window(_) | Empty(_)
    )
}

fn contains(e: &RecExpr, f: impl Fn(&Expr) -> bool) -> bool {
    e.as_ref().iter().any(f)
}

fn not_executable(e: &RecExpr) -> bool {
    use Expr::*;
    contains(e, |n| matches!(n, Apply(_) | Exists(_) | Max1Row(_) | Empty(_) | IndexScan(_) | Window(_) | Over(_)))
        || e.as_ref().iter().any(|n| if let In([_, b]) = n { is_plan_node(&e[*b]) } else { false })
}

fn has_agg(e: &RecExpr) -> bool {
    use Expr::*;
    contains(e, |n| matches!(n, Max(_) | Min(_) | Sum(_) | Avg(_) | Count(_) | CountDistinct(_) | RowCount | First(_) | Last(_) | RowNumber))
}

pub struct Instance {
    pub rule: String,
    pub lhs: RecExpr,
    pub rhs: RecExpr,
}

fn rule_sets() -> Vec<(String, Vec<Rewrite>)> {
    // the "range" rules (filter pushed into the scan) only apply to the on-disk engine, which
    // this part does not use; they are exercised at SQL level by C13 and by part 'onoff'
    risinglight::planner::verif_rule_sets().into_iter().filter(|(n, _)| *n != "range").map(|(n, r)| (n.to_string(), r)).collect()
}

/// Apply `rule` alone to `lhs` on a fresh e-graph; return the rewritten term if it fired.
pub fn apply_alone(analysis: &ExprAnalysis, rule: &Rewrite, lhs: &RecExpr) -> Option<RecExpr> {
    let mut eg = EGraph::new(analysis.clone());
    let root = eg.add_expr(lhs);
    eg.rebuild();
    let root = eg.find(root);
    let m = rule.searcher.search_eclass(&eg, root)?;
    // the original e-node at the root
    let root_node = lhs.as_ref().last().unwrap().clone();
    let forbidden = {
        // re-add the children to find the canonical form of the root e-node
        let mut map: Vec<Id> = vec![];
        for n in lhs.as_ref() {
            let n2 = n.clone().map_children(|c| map[usize::from(c)]);
            let id = eg.lookup(n2.clone()).unwrap_or_else(|| eg.add(n2));
            map.push(id);
        }
        root_node.map_children(|c| eg.find(map[usize::from(c)]))
    };
    rule.apply(&mut eg, &[m]);
    eg.rebuild();
    let root = eg.find(root);
    let forbidden = forbidden.map_children(|c| eg.find(c));
    if eg[root].nodes.len() <= 1 && eg[root].nodes.first() == Some(&forbidden) {
        return None;
    }
    let (cost, rhs) = egg::Extractor::new(&eg, ForbidCost { forbidden: &forbidden }).find_best(root);
    if cost >= usize::MAX / 4 {
        return None;
    }
    if rhs.to_string() == lhs.to_string() {
        return None;
    }
    Some(rhs)
}

/// Harvest rule instances for a bound plan.
pub fn harvest(analysis: &ExprAnalysis, plan0: &RecExpr, optimized: Option<&RecExpr>, max: usize) -> Vec<Instance> {
    let sets = rule_sets();
    let mut seen: HashSet<(String, String)> = HashSet::new();
    let mut out = vec![];
    let mut seeds: Vec<RecExpr> = vec![plan0.clone()];
    // after stage 1 (smallest term)
    if let Some((_, s1)) = sets.first() {
        let r = Runner::<Expr, ExprAnalysis, ()>::new(analysis.clone())
            .with_expr(plan0)
            .with_iter_limit(6)
            .with_node_limit(4000)
            .with_time_limit(std::time::Duration::from_secs(30))
            .run(s1.iter());
        let (_, p1) = egg::Extractor::new(&r.egraph, SizeCost).find_best(r.roots[0]);
        if p1.to_string() != plan0.to_string() {
            seeds.push(p1);
        }
    }
    if let Some(o) = optimized {
        seeds.push(o.clone());
    }
    'outer: for seed in &seeds {
        for (_, rules) in &sets {
            for depth in [0usize, 1, 3] {
                let r = Runner::<Expr, ExprAnalysis, ()>::new(analysis.clone())
                    .with_expr(seed)
                    .with_iter_limit(depth)
                    .with_node_limit(3000)
                    .with_time_limit(std::time::Duration::from_secs(30))
                    .run(rules.iter());
                let eg = &r.egraph;
                for rule in rules {
                    let Some(pat) = rule.searcher.get_pattern_ast() else { continue };
                    let matches = rule.searcher.search_with_limit(eg, 6);
                    let mut taken = 0;
                    for m in &matches {
                        for s in m.substs.iter().take(2) {
                            for variant in [false, true] {
                                let Some(lhs) = instantiate(eg, pat, s, variant) else { continue };
                                let key = (rule.name.to_string(), lhs.to_string());
                                if !seen.insert(key) {
                                    continue;
                                }
                                if let Some(rhs) = apply_alone(analysis, rule, &lhs) {
                                    out.push(Instance { rule: rule.name.to_string(), lhs, rhs });
                                    taken += 1;
                                    if out.len() >= max {
                                        break 'outer;
                                    }
                                }
                            }
                        }
                        if taken >= 3 {
                            break;
                        }
                    }
                }
            }
        }
    }
    out
}

fn limited(e: &RecExpr) -> bool {
    contains(e, |n| matches!(n, Expr::Limit(_) | Expr::TopN(_)))
}

fn limit_is_trivial(e: &RecExpr) -> bool {
    // (limit null 0 child) is what the binder puts on top of every query
    e.as_ref().iter().all(|n| match n {
        Expr::Limit([l, o, _]) => matches!(&e[*l], Expr::Constant(v) if v.is_null()) && matches!(&e[*o], Expr::Constant(v) if v.is_zero()),
        Expr::TopN(_) => false,
        _ => true,
    })
}

pub fn test_rules(ctx: &Ctx, case: &OptCase, st: &mut Stats) -> Verdict {
    risinglight::verif::reset();
    let r = block_on(async {
        let db = MiniDb::new();
        for s in case.db.setup_sql() {
            if !db.run_sql(&s, true).await.is_ok() {
                return fail("setup", format!("setup statement failed: {s}"));
            }
        }
        let plan0 = match db.bind(&case.sql) {
            Ok(p) => p,
            Err((true, _)) => return Verdict::Discard("query rejected by the binder"),
            Err((false, e)) => return Verdict::Discard(if e.is_empty() { "binder panicked" } else { "binder panicked" }),
        };
        let mut stat = Statistics::default();
        for (t, n) in &case.stats {
            if let Some(id) = db.catalog.get_table_id_by_name("postgres", t) {
                stat.add_row_count(id, *n);
            }
        }
        let analysis = ExprAnalysis { catalog: db.catalog.clone(), config: Default::default(), stat: stat.clone() };
        let optimized = std::panic::catch_unwind(std::panic::AssertUnwindSafe(|| db.optimizer(stat.clone()).optimize(plan0.clone()))).ok();
        let _ = take_panics();
        let insts = match std::panic::catch_unwind(std::panic::AssertUnwindSafe(|| harvest(&analysis, &plan0, optimized.as_ref(), 40))) {
            Ok(i) => i,
            Err(_) => {
                let _ = take_panics();
                return Verdict::Discard("harvest panicked (egg extraction)");
            }
        };
        for inst in insts {
            st.class(&format!("fired:{}", inst.rule));
            let root = inst.lhs.as_ref().last().unwrap().clone();
            if matches!(root, Expr::List(_)) || not_executable(&inst.lhs) || not_executable(&inst.rhs) {
                st.class("instance-not-executable-alone");
                continue;
            }
            let pairs: Vec<(&'static str, RecExpr, RecExpr)> = if is_plan_node(&root) {
                vec![("plan", inst.lhs.clone(), inst.rhs.clone())]
            } else {
                if has_agg(&inst.lhs) || has_agg(&inst.rhs) {
                    st.class("instance-aggregate-expression-skipped");
                    continue;
                }
                // boolean?
                let is_bool = {
                    let mut eg = egg::EGraph::<Expr, risinglight::planner::TypeSchemaAnalysis>::new(risinglight::planner::TypeSchemaAnalysis { catalog: db.catalog.clone() });
                    let id = eg.add_expr(&inst.lhs);
                    matches!(&eg[id].data.type_, Ok(risinglight::types::DataType::Bool))
                };
                let mut merged = RecExpr::default();
                let lroot = append(&mut merged, &inst.lhs);
                let rroot = append(&mut merged, &inst.rhs);
                let has_cols = contains(&merged, |n| matches!(n, Expr::Column(_)));
                let mut v = vec![("proj", expr_contexts_for(&merged, lroot, false), expr_contexts_for(&merged, rroot, false))];
                if is_bool && has_cols {
                    v.push(("filter", expr_contexts_for(&merged, lroot, true), expr_contexts_for(&merged, rroot, true)));
                }
                v
            };
            for (ctxname, lp, rp) in pairs {
                let lo = db.run_plan(&lp).await;
                let lpan = take_panics();
                st.eval();
                let Out::Rows(lrows) = &lo else {
                    st.class("lhs-not-evaluable");
                    continue;
                };
                if !lpan.is_empty() {
                    st.class("lhs-not-evaluable");
                    continue;
                }
                let ro = db.run_plan(&rp).await;
                let rpan = take_panics();
                st.eval();
                st.class(&format!("executed:{}", inst.rule));
                if !lrows.is_empty() {
                    st.nontrivial((inst.rule.clone(), ctxname, case.db.has_null(), lrows.len().min(3)));
                }
                if let Out::Failed(_) | Out::Panicked(_) = &ro {
                    let unimplemented_case = matches!(&ro, Out::Failed(m) if m.contains("no function case("));
                    if unimplemented_case || rpan.iter().any(|p| p.contains("unsupported join type")) {
                        // the nested-loop executor has no right/full outer variant: the rewritten
                        // plan cannot be executed on its own (executability is C17's question)
                        st.class("rhs-needs-unimplemented-executor-feature");
                        continue;
                    }
                }
                let ok = match &ro {
                    Out::Rows(rrows) => {
                        if (limited(&lp) && !limit_is_trivial(&lp)) || (limited(&rp) && !limit_is_trivial(&rp)) {
                            // ties make LIMIT results non-unique: compare the counts only
                            lrows.len() == rrows.len()
                        } else {
                            sorted(lrows.clone()) == sorted(rrows.clone())
                        }
                    }
                    _ => false,
                };
                if !ok {
                    if let Some(k) = ctx.known_sig(&format!("rule:{}", inst.rule)) {
                        st.class("mismatch-of-listed-rule");
                        *st.known_hits.entry(k.id.clone()).or_default() += 1;
                        continue;
                    }
                    return fail(
                        format!("rule:{}", inst.rule),
                        format!(
                            "rule `{}` alone changes the result ({ctxname} context)\n  lhs: {}\n  rhs: {}\n  lhs result: {}\n  rhs result: {} {:?}\n  harvested from: {}",
                            inst.rule,
                            inst.lhs,
                            inst.rhs,
                            lo.brief(),
                            ro.brief(),
                            rpan,
                            case.sql
                        ),
                    );
                }
            }
        }
        Verdict::Pass
    });
    match r {
        Ok(v) => v,
        Err(p) => fail(format!("harness-panic:{}", panic_sig(&p)), p),
    }
}

/// Context for the expression rooted at `root` inside `merged` (which may contain other
/// expressions whose columns also become part of the input).
fn expr_contexts_for(merged: &RecExpr, root: Id, filter: bool) -> RecExpr {
    let mut groups: BTreeMap<(u32, u32, u32), Vec<risinglight::catalog::ColumnRefId>> = BTreeMap::new();
    for n in merged.as_ref() {
        if let Expr::Column(c) = n {
            let g = groups.entry((c.schema_id, c.table_id, c.table_occurrence)).or_default();
            if !g.contains(c) {
                g.push(*c);
            }
        }
    }
    let mut out = merged.clone();
    let mut all_cols: Vec<Id> = vec![];
    let mut input: Option<Id> = None;
    for ((s, t, _), cols) in &groups {
        let table = out.add(Expr::Table(risinglight::catalog::TableRefId { schema_id: *s, table_id: *t }));
        let col_ids: Vec<Id> = cols.iter().map(|c| out.add(Expr::Column(*c))).collect();
        all_cols.extend(col_ids.iter().cloned());
        let list = out.add(Expr::List(col_ids.into()));
        let tr = out.add(Expr::true_());
        let scan = out.add(Expr::Scan([table, list, tr]));
        input = Some(match input {
            None => scan,
            Some(i) => {
                let ty = out.add(Expr::Inner);
                let tr = out.add(Expr::true_());
                out.add(Expr::Join([ty, tr, i, scan]))
            }
        });
    }
    let input = match input {
        Some(i) => i,
        None => {
            let z = out.add(Expr::zero());
            let row = out.add(Expr::List([z].into()));
            out.add(Expr::Values([row].into()))
        }
    };
    if filter {
        let f = out.add(Expr::Filter([root, input]));
        let list = out.add(Expr::List(all_cols.into()));
        out.add(Expr::Proj([list, f]));
    } else {
        let mut items = vec![root];
        items.extend(all_cols.iter().cloned());
        let list = out.add(Expr::List(items.into()));
        out.add(Expr::Proj([list, input]));
    }
    out
}

// ---------------------------------------------------------------------------------------------
// part "rules-synth": expression rules on synthesised left-hand sides

use proptest::prelude::*;
use serde::{Deserialize, Serialize};

#[derive(Clone, Debug, Serialize, Deserialize)]
pub struct SynthCase {
    /// index of the rule among the expression rules (sorted by name)
    pub rule: usize,
    /// leaf choice per pattern variable (index into the leaf pool)
    pub leaves: Vec<u8>,
    /// rows of t(a int, b int, c int, p boolean, q boolean, s varchar); None = NULL
    pub rows: Vec<(Option<i8>, Option<i8>, Option<i8>, Option<bool>, Option<bool>, Option<u8>)>,
}

pub fn synth_strategy(_ctx: &Ctx) -> impl Strategy<Value = SynthCase> + use<> {
    let cell = || prop::option::weighted(0.8, -2i8..4);
    let b = || prop::option::weighted(0.8, any::<bool>());
    (
        0usize..400,
        prop::collection::vec(0u8..24, 6),
        prop::collection::vec((cell(), cell(), cell(), b(), b(), prop::option::weighted(0.8, 0u8..4)), 1..7),
    )
        .prop_map(|(rule, leaves, rows)| SynthCase { rule, leaves, rows })
}

fn expression_rules() -> Vec<Rewrite> {
    let mut seen = HashSet::new();
    let mut v: Vec<Rewrite> = vec![];
    for (_, rules) in rule_sets() {
        for r in rules {
            let Some(p) = r.searcher.get_pattern_ast() else { continue };
            let root = p.as_ref().last().unwrap();
            let is_expr = match root {
                ENodeOrVar::ENode(e) => !is_plan_node(e) && !matches!(e, Expr::List(_)),
                _ => false,
            };
            // only patterns made of scalar operators
            let scalar_only = p.as_ref().iter().all(|n| match n {
                ENodeOrVar::ENode(e) => !is_plan_node(e) && !matches!(e, Expr::In(_) | Expr::Exists(_) | Expr::Max1Row(_) | Expr::Avg(_) | Expr::Sum(_) | Expr::Count(_)),
                _ => true,
            });
            if is_expr && scalar_only && seen.insert(r.name.to_string()) {
                v.push(r);
            }
        }
    }
    v.sort_by_key(|r| r.name.to_string());
    v
}

pub fn test_synth(ctx: &Ctx, case: &SynthCase, st: &mut Stats) -> Verdict {
    risinglight::verif::reset();
    let r = block_on(async {
        let db = MiniDb::new();
        if !db.run_sql("create table t(a int, b int, c int, p boolean, q boolean, s varchar)", true).await.is_ok() {
            return fail("setup", "create table failed");
        }
        let lit = |v: &Option<String>| v.clone().unwrap_or_else(|| "null".into());
        let rows: Vec<String> = case
            .rows
            .iter()
            .map(|r| {
                format!(
                    "({}, {}, {}, {}, {}, {})",
                    lit(&r.0.map(|x| x.to_string())),
                    lit(&r.1.map(|x| x.to_string())),
                    lit(&r.2.map(|x| x.to_string())),
                    lit(&r.3.map(|x| x.to_string())),
                    lit(&r.4.map(|x| x.to_string())),
                    lit(&r.5.map(|x| format!("'{}'", ["a", "b", "", "ab"][x as usize])))
                )
            })
            .collect();
        if !db.run_sql(&format!("insert into t values {}", rows.join(", ")), true).await.is_ok() {
            return fail("setup", "insert failed");
        }
        let rules = expression_rules();
        if rules.is_empty() {
            return fail("setup", "no expression rules found");
        }
        let rule = &rules[case.rule % rules.len()];
        let tid = db.catalog.get_table_id_by_name("postgres", "t").unwrap();
        let col = |i: u32| Expr::Column(risinglight::catalog::ColumnRefId::from_table(tid, 0, i));
        use risinglight::types::DataValue as DV;
        let pool: Vec<Expr> = vec![
            col(0), col(1), col(2), col(3), col(4), col(5),
            Expr::Constant(DV::Int32(0)), Expr::Constant(DV::Int32(1)), Expr::Constant(DV::Int32(-1)), Expr::Constant(DV::Int32(2)), Expr::Constant(DV::Int32(3)),
            Expr::Constant(DV::Bool(true)), Expr::Constant(DV::Bool(false)), Expr::Constant(DV::Null),
            Expr::Constant(DV::String("a".into())), Expr::Constant(DV::String("".into())),
            // bounds of another numeric type (side conditions that compare two constants)
            Expr::Constant(DV::Decimal(rust_decimal::Decimal::new(25, 1))), Expr::Constant(DV::Decimal(rust_decimal::Decimal::new(5, 1))),
            col(0), col(1), col(3), col(0), col(1), col(2), col(3), col(4),
        ];
        // instantiate the pattern: the k-th distinct variable gets leaf leaves[k]; if that is
        // ill-typed, deterministic variations of the choice are tried
        let pat = rule.searcher.get_pattern_ast().unwrap();
        let mut found = None;
        let mut nvars = 0usize;
        for attempt in 0..12usize {
            let mut vars: Vec<egg::Var> = vec![];
            let mut lhs = RecExpr::default();
            let mut map: Vec<Id> = vec![];
            for n in pat.as_ref() {
                match n {
                    ENodeOrVar::Var(v) => {
                        let k = match vars.iter().position(|x| x == v) {
                            Some(k) => k,
                            None => {
                                vars.push(*v);
                                vars.len() - 1
                            }
                        };
                        // later variables are constants more often (rules with side conditions
                        // over two constants, e.g. the and-*-fold family)
                        let raw = case.leaves[k % case.leaves.len()] as usize;
                        let base = if k >= 1 && raw >= 12 { 6 + raw % 12 } else { raw };
                        let li = (base + attempt * (5 + k)) % pool.len();
                        map.push(lhs.add(pool[li].clone()));
                    }
                    ENodeOrVar::ENode(e) => {
                        let e2 = e.clone().map_children(|c| map[usize::from(c)]);
                        map.push(lhs.add(e2));
                    }
                }
            }
            nvars = vars.len();
            let ty = {
                let mut eg = egg::EGraph::<Expr, risinglight::planner::TypeSchemaAnalysis>::new(risinglight::planner::TypeSchemaAnalysis { catalog: db.catalog.clone() });
                let id = eg.add_expr(&lhs);
                eg[id].data.type_.clone()
            };
            if let Ok(ty) = ty {
                found = Some((lhs, ty));
                break;
            }
        }
        let Some((lhs, ty)) = found else {
            return Verdict::Discard("ill-typed instantiation");
        };
        let analysis = ExprAnalysis { catalog: db.catalog.clone(), config: Default::default(), stat: Statistics::default() };
        let rhs = match std::panic::catch_unwind(std::panic::AssertUnwindSafe(|| apply_alone(&analysis, rule, &lhs))) {
            Ok(Some(r)) => r,
            Ok(None) => {
                st.class("rule-did-not-fire");
                return Verdict::Pass;
            }
            Err(_) => {
                let _ = take_panics();
                return Verdict::Discard("applying the rule panicked (constant folding of the instance)");
            }
        };
        let rname = rule.name.to_string();
        st.class(&format!("fired:{rname}"));
        let is_bool = matches!(ty, risinglight::types::DataType::Bool);
        let mut merged = RecExpr::default();
        let lroot = append(&mut merged, &lhs);
        let rroot = append(&mut merged, &rhs);
        let has_cols = contains(&merged, |n| matches!(n, Expr::Column(_)));
        let mut ctxs = vec![("proj", expr_contexts_for(&merged, lroot, false), expr_contexts_for(&merged, rroot, false))];
        if is_bool && has_cols {
            ctxs.push(("filter", expr_contexts_for(&merged, lroot, true), expr_contexts_for(&merged, rroot, true)));
        }
        for (cname, lp, rp) in ctxs {
            let lo = db.run_plan(&lp).await;
            let lpan = take_panics();
            st.eval();
            let Out::Rows(lrows) = &lo else {
                st.class("lhs-not-evaluable");
                continue;
            };
            if !lpan.is_empty() {
                continue;
            }
            let ro = db.run_plan(&rp).await;
            let rpan = take_panics();
            st.eval();
            st.class(&format!("executed:{rname}"));
            let has_null = case.rows.iter().any(|r| r.0.is_none() || r.1.is_none() || r.3.is_none());
            st.nontrivial((rname.clone(), cname, has_null, case.leaves.iter().take(nvars).map(|l| *l % 24).collect::<Vec<_>>()));
            let ok = matches!(&ro, Out::Rows(rr) if sorted(rr.clone()) == sorted(lrows.clone()));
            if !ok {
                if let Some(k) = ctx.known_sig(&format!("rule:{rname}")) {
                    *st.known_hits.entry(k.id.clone()).or_default() += 1;
                    continue;
                }
                return fail(
                    format!("rule:{rname}"),
                    format!("rule `{rname}` alone changes the result ({cname} context)\n  lhs: {lhs}\n  rhs: {rhs}\n  lhs result: {}\n  rhs result: {} {:?}\n  table t(a,b,c,p,q,s) rows: {:?}", lo.brief(), ro.brief(), rpan, case.rows),
                );
            }
        }
        Verdict::Pass
    });
    match r {
        Ok(v) => v,
        Err(p) => fail(format!("harness-panic:{}", panic_sig(&p)), p),
    }
}
