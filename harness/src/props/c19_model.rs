//! C19 helper: an engine-independent model of SQL values (one enum, own comparison, own literal
//! printer, own calendar arithmetic), conversions from/to `DataValue`, and the value generators.
use std::cmp::Ordering;
use std::str::FromStr;
use std::sync::OnceLock;

use proptest::prelude::*;
use proptest::strategy::Union;
use risinglight::types::{Blob, DataType, DataValue, Date, F64, Interval, Timestamp, TimestampTz, Vector};
use rust_decimal::Decimal;
use serde::{Deserialize, Serialize};

#[derive(Clone, Copy, Debug, PartialEq, Eq, Hash, Serialize, Deserialize)]
pub enum Ty {
    Bool,
    I16,
    I32,
    I64,
    F64,
    Dec,
    Str,
    Blob,
    Date,
    Ts,
    Tz,
    Iv,
    Vec,
}

impl Ty {
    pub const ALL: [Ty; 13] = [
        Ty::Bool,
        Ty::I16,
        Ty::I32,
        Ty::I64,
        Ty::F64,
        Ty::Dec,
        Ty::Str,
        Ty::Blob,
        Ty::Date,
        Ty::Ts,
        Ty::Tz,
        Ty::Iv,
        Ty::Vec,
    ];
    /// name used in signatures and class names
    pub fn name(self) -> &'static str {
        match self {
            Ty::Bool => "bool",
            Ty::I16 => "int16",
            Ty::I32 => "int32",
            Ty::I64 => "int64",
            Ty::F64 => "float64",
            Ty::Dec => "decimal",
            Ty::Str => "string",
            Ty::Blob => "blob",
            Ty::Date => "date",
            Ty::Ts => "timestamp",
            Ty::Tz => "timestamptz",
            Ty::Iv => "interval",
            Ty::Vec => "vector",
        }
    }
    /// column type in CREATE TABLE
    pub fn sql(self, vlen: usize) -> String {
        match self {
            Ty::Bool => "boolean".into(),
            Ty::I16 => "smallint".into(),
            Ty::I32 => "int".into(),
            Ty::I64 => "bigint".into(),
            Ty::F64 => "double".into(),
            Ty::Dec => "decimal".into(),
            Ty::Str => "varchar".into(),
            Ty::Blob => "blob".into(),
            Ty::Date => "date".into(),
            Ty::Ts => "timestamp".into(),
            Ty::Tz => "timestamptz".into(),
            Ty::Iv => "interval".into(),
            Ty::Vec => format!("vector({vlen})"),
        }
    }
    pub fn data_type(self, vlen: usize) -> DataType {
        match self {
            Ty::Bool => DataType::Bool,
            Ty::I16 => DataType::Int16,
            Ty::I32 => DataType::Int32,
            Ty::I64 => DataType::Int64,
            Ty::F64 => DataType::Float64,
            Ty::Dec => DataType::Decimal(None, None),
            Ty::Str => DataType::String,
            Ty::Blob => DataType::Blob,
            Ty::Date => DataType::Date,
            Ty::Ts => DataType::Timestamp,
            Ty::Tz => DataType::TimestampTz,
            Ty::Iv => DataType::Interval,
            Ty::Vec => DataType::Vector(vlen),
        }
    }
    /// the comparison kernels (`cmp!` in array/ops.rs) have an arm for this type
    pub fn cmp_kernel_listed(self) -> bool {
        !matches!(self, Ty::Blob | Ty::Ts | Ty::Tz | Ty::Iv | Ty::Vec)
    }
}

/// Model value. Floats are kept as bits (JSON cannot carry NaN / -0.0), decimals as
/// sign / 96-bit mantissa (hi, mid, lo) / scale, dates as days since 1970-01-01, timestamps as
/// whole seconds since 1970-01-01 00:00:00 UTC, intervals as (months, days, seconds).
#[derive(Clone, Debug, PartialEq, Eq, Hash, Serialize, Deserialize)]
pub enum V {
    Null,
    Bool(bool),
    I16(i16),
    I32(i32),
    I64(i64),
    F64(u64),
    Dec { neg: bool, m: (u32, u32, u32), scale: u8 },
    Str(String),
    Blob(Vec<u8>),
    Date(i32),
    Ts(i64),
    Tz(i64),
    Iv { m: i32, d: i32, s: i32 },
    Vec(Vec<u64>),
}

pub fn mant(m: (u32, u32, u32)) -> u128 {
    ((m.0 as u128) << 64) | ((m.1 as u128) << 32) | m.2 as u128
}
pub fn unmant(x: u128) -> (u32, u32, u32) {
    ((x >> 64) as u32, (x >> 32) as u32, x as u32)
}

fn fcmp(x: u64, y: u64) -> Ordering {
    let (x, y) = (f64::from_bits(x), f64::from_bits(y));
    match (x.is_nan(), y.is_nan()) {
        (true, true) => Ordering::Equal,
        (true, false) => Ordering::Greater,
        (false, true) => Ordering::Less,
        _ => x.partial_cmp(&y).unwrap(),
    }
}

fn dmag(ma: u128, sa: u8, mb: u128, sb: u8) -> Ordering {
    if sa == sb {
        ma.cmp(&mb)
    } else if sa < sb {
        match ma.checked_mul(10u128.pow((sb - sa) as u32)) {
            Some(x) => x.cmp(&mb),
            None => Ordering::Greater,
        }
    } else {
        dmag(mb, sb, ma, sa).reverse()
    }
}

fn dcmp(na: bool, ma: u128, sa: u8, nb: bool, mb: u128, sb: u8) -> Ordering {
    let sg = |n: bool, m: u128| {
        if m == 0 {
            0
        } else if n {
            -1
        } else {
            1
        }
    };
    let (a, b) = (sg(na, ma), sg(nb, mb));
    if a != b {
        return a.cmp(&b);
    }
    match a {
        0 => Ordering::Equal,
        1 => dmag(ma, sa, mb, sb),
        _ => dmag(ma, sa, mb, sb).reverse(),
    }
}

/// The model's total order: NULL first, then the SQL meaning of each type (numbers numerically with
/// -0.0 = 0.0 and NaN = NaN above everything, decimals numerically regardless of scale, strings and
/// blobs bytewise, dates/timestamps by instant, intervals field-wise (months, days, seconds) as the
/// type declares, vectors lexicographically).
pub fn mcmp(a: &V, b: &V) -> Ordering {
    use V::*;
    match (a, b) {
        (Null, Null) => Ordering::Equal,
        (Null, _) => Ordering::Less,
        (_, Null) => Ordering::Greater,
        (Bool(x), Bool(y)) => x.cmp(y),
        (I16(x), I16(y)) => x.cmp(y),
        (I32(x), I32(y)) => x.cmp(y),
        (I64(x), I64(y)) => x.cmp(y),
        (F64(x), F64(y)) => fcmp(*x, *y),
        (Dec { neg: na, m: ma, scale: sa }, Dec { neg: nb, m: mb, scale: sb }) => dcmp(*na, mant(*ma), *sa, *nb, mant(*mb), *sb),
        (Str(x), Str(y)) => x.as_bytes().cmp(y.as_bytes()),
        (Blob(x), Blob(y)) => x.cmp(y),
        (Date(x), Date(y)) => x.cmp(y),
        (Ts(x), Ts(y)) | (Tz(x), Tz(y)) => x.cmp(y),
        (Iv { m: a1, d: a2, s: a3 }, Iv { m: b1, d: b2, s: b3 }) => (a1, a2, a3).cmp(&(b1, b2, b3)),
        (Vec(x), Vec(y)) => {
            for (p, q) in x.iter().zip(y.iter()) {
                let o = fcmp(*p, *q);
                if o != Ordering::Equal {
                    return o;
                }
            }
            x.len().cmp(&y.len())
        }
        _ => panic!("model: values of different types {a:?} {b:?}"),
    }
}

/// How two equal values differ in representation, if they do.
pub fn alias_kind(a: &V, b: &V) -> Option<&'static str> {
    if a == b || !meq(a, b) {
        return None;
    }
    let f = |x: u64, y: u64| {
        if f64::from_bits(x).is_nan() {
            "nan-signs"
        } else if x != y {
            "zero-signs"
        } else {
            ""
        }
    };
    Some(match (a, b) {
        (V::F64(x), V::F64(y)) => f(*x, *y),
        (V::Dec { .. }, V::Dec { .. }) => "decimal-scales",
        (V::Vec(x), V::Vec(y)) => x
            .iter()
            .zip(y.iter())
            .map(|(p, q)| f(*p, *q))
            .find(|k| !k.is_empty())
            .unwrap_or("other"),
        _ => "other",
    })
}

pub fn meq(a: &V, b: &V) -> bool {
    mcmp(a, b) == Ordering::Equal
}

// ---------------------------------------------------------------------------------------------
// calendar (proleptic Gregorian, astronomical year numbering), independent of chrono

pub fn days_from_civil(y: i64, m: i64, d: i64) -> i64 {
    let y = if m <= 2 { y - 1 } else { y };
    let era = y.div_euclid(400);
    let yoe = y - era * 400;
    let mp = (m + 9) % 12;
    let doy = (153 * mp + 2) / 5 + d - 1;
    let doe = yoe * 365 + yoe / 4 - yoe / 100 + doy;
    era * 146097 + doe - 719468
}

pub fn civil_from_days(z: i64) -> (i64, i64, i64) {
    let z = z + 719468;
    let era = z.div_euclid(146097);
    let doe = z - era * 146097;
    let yoe = (doe - doe / 1460 + doe / 36524 - doe / 146096) / 365;
    let doy = doe - (365 * yoe + yoe / 4 - yoe / 100);
    let mp = (5 * doy + 2) / 153;
    let d = doy - (153 * mp + 2) / 5 + 1;
    let m = if mp < 10 { mp + 3 } else { mp - 9 };
    (yoe + era * 400 + if m <= 2 { 1 } else { 0 }, m, d)
}

fn year_text(y: i64) -> String {
    if y < 0 {
        format!("-{:04}", -y)
    } else if y > 9999 {
        format!("+{y}")
    } else {
        format!("{y:04}")
    }
}

fn date_text(days: i64) -> String {
    let (y, m, d) = civil_from_days(days);
    format!("{}-{m:02}-{d:02}", year_text(y))
}

/// `YYYY-MM-DD HH:MM:SS`; years 1..=9999 BC in the `… BC` form the engine documents, the others
/// with a signed year.
fn ts_text(secs: i64) -> String {
    let (days, r) = (secs.div_euclid(86400), secs.rem_euclid(86400));
    let (y, m, d) = civil_from_days(days);
    let hms = format!("{:02}:{:02}:{:02}", r / 3600, r / 60 % 60, r % 60);
    if (-9999..0).contains(&y) {
        format!("{:04}-{m:02}-{d:02} {hms} BC", -y)
    } else {
        format!("{}-{m:02}-{d:02} {hms}", year_text(y))
    }
}

fn f64_text(bits: u64) -> String {
    let x = f64::from_bits(bits);
    if x.is_nan() {
        if x.is_sign_negative() { "-NaN".into() } else { "NaN".into() }
    } else if x.is_infinite() {
        if x < 0.0 { "-inf".into() } else { "inf".into() }
    } else {
        format!("{x:?}")
    }
}

impl V {
    pub fn is_null(&self) -> bool {
        matches!(self, V::Null)
    }

    /// The text of the value as a user writes it inside a string literal / CSV field
    /// (documented input formats of each type; not the engine's Display).
    pub fn text(&self) -> String {
        match self {
            V::Null => "NULL".into(),
            V::Bool(b) => b.to_string(),
            V::I16(i) => i.to_string(),
            V::I32(i) => i.to_string(),
            V::I64(i) => i.to_string(),
            V::F64(b) => f64_text(*b),
            V::Dec { neg, m, scale } => {
                let mut digits = mant(*m).to_string();
                let sc = *scale as usize;
                if sc > 0 {
                    if digits.len() <= sc {
                        digits = format!("{}{}", "0".repeat(sc + 1 - digits.len()), digits);
                    }
                    digits.insert(digits.len() - sc, '.');
                }
                format!("{}{}", if *neg { "-" } else { "" }, digits)
            }
            V::Str(s) => s.clone(),
            V::Blob(b) => b
                .iter()
                .map(|&c| {
                    if c.is_ascii_alphanumeric() {
                        (c as char).to_string()
                    } else {
                        format!("\\x{c:02X}")
                    }
                })
                .collect(),
            V::Date(d) => date_text(*d as i64),
            V::Ts(s) => ts_text(*s),
            V::Tz(s) => format!("{} +00:00", ts_text(*s)),
            V::Iv { m, d, s } => {
                if m % 12 == 0 && *m != 0 {
                    format!("{} years {d} days {s} seconds", m / 12)
                } else {
                    format!("{m} months {d} days {s} seconds")
                }
            }
            V::Vec(v) => format!("[{}]", v.iter().map(|b| f64_text(*b)).collect::<Vec<_>>().join(",")),
        }
    }

    /// SQL literal (string literal cast by INSERT to the column type), or NULL.
    pub fn literal(&self) -> String {
        match self {
            V::Null => "NULL".into(),
            v => format!("'{}'", v.text().replace('\'', "''")),
        }
    }

    /// A different representation of the same value, where the type has one.
    pub fn alias(&self) -> V {
        match self {
            V::F64(b) => {
                let x = f64::from_bits(*b);
                if x == 0.0 || x.is_nan() {
                    V::F64(b ^ (1 << 63))
                } else {
                    self.clone()
                }
            }
            V::Dec { neg, m, scale } => {
                let x = mant(*m);
                if *scale < 28 && x.checked_mul(10).is_some_and(|y| y < 1u128 << 96) {
                    V::Dec {
                        neg: *neg,
                        m: unmant(x * 10),
                        scale: scale + 1,
                    }
                } else if *scale > 0 && x % 10 == 0 {
                    V::Dec {
                        neg: *neg,
                        m: unmant(x / 10),
                        scale: scale - 1,
                    }
                } else {
                    self.clone()
                }
            }
            V::Vec(v) => V::Vec(
                v.iter()
                    .map(|b| match V::F64(*b).alias() {
                        V::F64(x) => x,
                        _ => *b,
                    })
                    .collect(),
            ),
            v => v.clone(),
        }
    }

    /// Feature of the value that narrows a print/parse signature.
    pub fn pp_class(&self) -> &'static str {
        match self {
            V::Str(s) if s.is_empty() => "empty",
            V::Blob(b) if b.is_empty() => "empty",
            V::Blob(b) if b.contains(&b'\\') => "backslash",
            V::Blob(b) if b.contains(&b'\'') => "quote",
            V::Iv { m: 0, d: 0, s: 0 } => "zero",
            V::Ts(s) | V::Tz(s) => {
                let y = civil_from_days(s.div_euclid(86400)).0;
                if y < -9999 {
                    "year-before-9999bc"
                } else if y > 9999 {
                    "year-after-9999"
                } else {
                    "value"
                }
            }
            V::Date(d) => {
                let y = civil_from_days(*d as i64).0;
                if !(0..=9999).contains(&y) { "year-outside-0-9999" } else { "value" }
            }
            _ => "value",
        }
    }
}

// ---------------------------------------------------------------------------------------------
// DataValue <-> model

/// Offsets of the engine's inner representations, calibrated by parsing the Unix epoch (so the
/// check does not depend on the private epoch constants, only on linearity).
fn bases() -> (i32, i64, i64) {
    static B: OnceLock<(i32, i64, i64)> = OnceLock::new();
    *B.get_or_init(|| {
        (
            Date::from_str("1970-01-01").map(|d| d.get_inner()).unwrap_or(0),
            Timestamp::from_str("1970-01-01 00:00:00").map(|d| d.get_inner()).unwrap_or(0),
            TimestampTz::from_str("1970-01-01 00:00:00 +00:00")
                .map(|d| d.get_inner())
                .unwrap_or(0),
        )
    })
}

/// Build the engine value through the public constructors.
pub fn to_dv(v: &V) -> Result<DataValue, String> {
    let (db, tb, zb) = bases();
    Ok(match v {
        V::Null => DataValue::Null,
        V::Bool(b) => DataValue::Bool(*b),
        V::I16(i) => DataValue::Int16(*i),
        V::I32(i) => DataValue::Int32(*i),
        V::I64(i) => DataValue::Int64(*i),
        V::F64(b) => DataValue::Float64(F64::from(f64::from_bits(*b))),
        V::Dec { neg, m, scale } => DataValue::Decimal(Decimal::from_parts(m.2, m.1, m.0, *neg, *scale as u32)),
        V::Str(s) => DataValue::String(s.as_str().into()),
        V::Blob(b) => DataValue::Blob(Blob::from(b.clone())),
        V::Date(d) => DataValue::Date(Date::new(db + d)),
        V::Ts(s) => DataValue::Timestamp(Timestamp::new(tb + s * 1_000_000)),
        V::Tz(s) => DataValue::TimestampTz(TimestampTz::new(zb + s * 1_000_000)),
        // Interval has no public constructor for all three fields; its documented text form is
        // the only way SQL builds one
        V::Iv { .. } => DataValue::Interval(Interval::from_str(&v.text()).map_err(|e| format!("Interval::from_str({:?}): {e}", v.text()))?),
        V::Vec(x) => DataValue::Vector(Vector::new(x.iter().map(|b| f64::from_bits(*b)).collect())),
    })
}

pub fn from_dv(d: &DataValue) -> V {
    let (db, tb, zb) = bases();
    match d {
        DataValue::Null => V::Null,
        DataValue::Bool(b) => V::Bool(*b),
        DataValue::Int16(i) => V::I16(*i),
        DataValue::Int32(i) => V::I32(*i),
        DataValue::Int64(i) => V::I64(*i),
        DataValue::Float64(f) => V::F64(f.0.to_bits()),
        DataValue::Decimal(x) => V::Dec {
            neg: x.is_sign_negative(),
            m: unmant(x.mantissa().unsigned_abs()),
            scale: x.scale() as u8,
        },
        DataValue::String(s) => V::Str(s.to_string()),
        DataValue::Blob(b) => V::Blob(b.to_vec()),
        DataValue::Date(x) => V::Date(x.get_inner() - db),
        // sub-second parts cannot arise from the generated inputs; keep them visible if they do
        DataValue::Timestamp(x) => {
            let u = x.get_inner() - tb;
            if u % 1_000_000 == 0 {
                V::Ts(u / 1_000_000)
            } else {
                V::Str(format!("timestamp with sub-second part: {x}"))
            }
        }
        DataValue::TimestampTz(x) => {
            let u = x.get_inner() - zb;
            if u % 1_000_000 == 0 {
                V::Tz(u / 1_000_000)
            } else {
                V::Str(format!("timestamptz with sub-second part: {x}"))
            }
        }
        DataValue::Interval(i) => V::Iv {
            m: i.num_months(),
            d: i.days(),
            s: i.hours() * 3600 + i.minutes() * 60 + i.seconds(),
        },
        DataValue::Vector(v) => V::Vec(v.iter().map(|f| f.0.to_bits()).collect()),
    }
}

// ---------------------------------------------------------------------------------------------
// generators: boundary-biased domains of values that SQL / CSV input can produce

fn sel<T: Clone + std::fmt::Debug + 'static>(v: Vec<T>) -> BoxedStrategy<T> {
    prop::sample::select(v).boxed()
}

fn f64_bits() -> BoxedStrategy<u64> {
    let b = |x: f64| x.to_bits();
    prop_oneof![
        4 => sel(vec![
            b(0.0), b(-0.0), b(1.0), b(-1.0), b(1.5), b(-1.5), b(f64::NAN), b(-f64::NAN),
            b(f64::INFINITY), b(f64::NEG_INFINITY), b(f64::MIN_POSITIVE), b(-f64::MIN_POSITIVE),
            1u64, b(f64::MAX), b(f64::MIN), b(0.1), b(0.1 + 0.2), b(0.3), b(1e15 + 0.5), b(2.0),
            b(1e300), b(-1e300), b(f64::EPSILON),
        ]),
        1 => (-1000i32..1000).prop_map(|i| (i as f64 / 4.0).to_bits()),
        // any bit pattern except NaNs with a payload (no input produces those)
        1 => any::<u64>().prop_map(|u| if f64::from_bits(u).is_nan() { f64::NAN.to_bits() | (u & (1 << 63)) } else { u }),
    ]
    .boxed()
}

fn small_f64_bits() -> BoxedStrategy<u64> {
    let b = |x: f64| x.to_bits();
    sel(vec![
        b(0.0),
        b(-0.0),
        b(1.0),
        b(-1.0),
        b(1.5),
        b(f64::NAN),
        b(-f64::NAN),
        b(f64::INFINITY),
        b(f64::NEG_INFINITY),
        b(1e300),
        b(0.1),
    ])
}

fn dec() -> BoxedStrategy<V> {
    // a zero decimal carries no sign (rust_decimal drops it when parsing and in from_parts)
    let d = |neg: bool, m: u128, scale: u8| V::Dec {
        neg: neg && m != 0,
        m: unmant(m),
        scale,
    };
    let max = (1u128 << 96) - 1;
    prop_oneof![
        4 => sel(vec![
            d(false, 0, 0), d(false, 0, 1), d(true, 0, 1), d(false, 0, 28), d(true, 0, 0),
            d(false, 1, 0), d(false, 10, 1), d(false, 100, 2), d(false, 10u128.pow(28), 28),
            d(true, 1, 0), d(true, 10, 1), d(false, 1, 1), d(false, 10, 2), d(false, 5, 1), d(false, 50, 2),
            d(false, 10, 0), d(false, 100, 1), d(false, 12345, 2), d(false, 123450, 3), d(false, 12345, 3),
            d(false, max, 0), d(true, max, 0), d(false, max, 28), d(true, max, 28), d(false, max / 10, 0),
            d(false, 1, 28), d(true, 1, 28), d(false, 2, 0), d(false, 3, 0), d(false, 15, 1),
            d(false, 79228162514264337593543950330, 1), d(false, 7922816251426433759354395033, 0),
        ]),
        1 => (any::<bool>(), 0u128..2000, 0u8..4).prop_map(move |(n, m, s)| d(n, m, s)),
        1 => (any::<bool>(), any::<u64>(), any::<u32>(), 0u8..=28, 0u8..3).prop_map(move |(n, lo, hi, s, k)| {
            let m = match k { 0 => lo as u128 & 0xffff_ffff, 1 => lo as u128, _ => ((hi as u128) << 64) | lo as u128 };
            d(n, m, s)
        }),
    ]
    .boxed()
}

fn string() -> BoxedStrategy<String> {
    prop_oneof![
        3 => sel(
            ["", "a", "b", "ab", "A", "a b", "é", "e\u{301}", " a", "a ", "aa", "B", "it's", "a\\b", "%", "_",
             "\u{ff5e}", "\u{10000}", "\u{e000}", "😀", "Z", "z", "0", "10", "9", "NULL", "null", "ß", "ss", "a\tb"]
                .iter().map(|s| s.to_string()).collect()
        ),
        1 => prop::collection::vec(sel(vec!['a', 'b', 'A', ' ', 'é', '\'', '0', 'z', '\u{10000}', '\u{ffff}']), 0..5)
            .prop_map(|v| v.into_iter().collect()),
    ]
    .boxed()
}

fn blob() -> BoxedStrategy<Vec<u8>> {
    prop_oneof![
        3 => sel(vec![
            vec![], vec![0], vec![0, 0], vec![0xff], b"a".to_vec(), b"ab".to_vec(), b"a\\b".to_vec(), b"\\".to_vec(),
            b"'".to_vec(), b"\\x41".to_vec(), vec![0x80], b" ".to_vec(), b"b".to_vec(), vec![0x7f], vec![0xff, 0], vec![1],
            b"A".to_vec(), b"it's".to_vec(), vec![0xaa, 0xff, 0xaa], b"a\"b".to_vec(), b"a,b".to_vec(),
        ]),
        1 => prop::collection::vec(sel(vec![0u8, 1, b'a', b'b', b'\\', b'\'', b'x', b'4', 0x7f, 0x80, 0xff, b' ']), 0..5),
    ]
    .boxed()
}

/// chrono's range of dates (the type's parser accepts nothing outside it)
const MIN_DAY: i64 = -96_465_292; // -262143-01-01
const MAX_DAY: i64 = 95_026_236; // +262142-12-31

fn day() -> BoxedStrategy<i32> {
    let c = |y, m, d| days_from_civil(y, m, d) as i32;
    prop_oneof![
        4 => sel(vec![
            0, -1, 1, c(2000, 2, 29), c(2020, 2, 29), c(2020, 2, 28), c(2020, 3, 1), c(1900, 2, 28), c(1900, 3, 1),
            c(2000, 1, 1), c(1, 1, 1), c(0, 12, 31), c(0, 2, 29), c(0, 1, 1), c(-1, 12, 31), c(-4, 2, 29),
            c(9999, 12, 31), c(10000, 1, 1), c(-9999, 1, 1), c(-10000, 12, 31), c(1969, 12, 31), c(1582, 10, 10),
            MIN_DAY as i32, MIN_DAY as i32 + 1, MAX_DAY as i32, MAX_DAY as i32 - 1, c(1998, 12, 1), c(1970, 1, 31),
        ]),
        2 => -100_000i32..100_000,
        1 => (MIN_DAY as i32)..=(MAX_DAY as i32),
    ]
    .boxed()
}

fn sec() -> BoxedStrategy<i64> {
    let c = |y, m, d, s: i64| days_from_civil(y, m, d) * 86400 + s;
    prop_oneof![
        4 => sel(vec![
            0, -1, 1, 946_684_800, 946_684_799, c(2020, 2, 29, 86399), c(2020, 3, 1, 0), c(1991, 1, 8, 14706),
            c(1, 1, 1, 0), c(0, 12, 31, 86399), c(0, 1, 1, 0), c(-1, 12, 31, 86399), c(-1991, 1, 10, 14706),
            c(9999, 12, 31, 86399), c(10000, 1, 1, 0), c(-9999, 1, 1, 0), c(-10000, 12, 31, 86399),
            MIN_DAY * 86400, MAX_DAY * 86400 + 86399, c(1900, 3, 1, 0), c(1969, 12, 31, 86399), 86400, -86400,
            -946_684_800, c(2038, 1, 19, 11647), c(2038, 1, 19, 11648),
        ]),
        2 => -4_000_000_000i64..4_000_000_000,
        1 => (-9999i64 * 366 * 86400)..(9999i64 * 365 * 86400),
        1 => (MIN_DAY * 86400)..(MAX_DAY * 86400 + 86400),
    ]
    .boxed()
}

/// seconds of an interval: the documented text form computes `seconds * 1000` in i32
const MAX_IV_S: i32 = 2_147_483;

fn iv() -> BoxedStrategy<V> {
    let i = |m, d, s| V::Iv { m, d, s };
    prop_oneof![
        4 => sel(vec![
            i(0, 0, 0), i(1, 0, 0), i(0, 1, 0), i(0, 0, 1), i(-1, 0, 0), i(0, -1, 0), i(0, 0, -1), i(14, 3, 14706),
            i(12, 0, 0), i(0, 360, 0), i(0, 365, 0), i(0, 30, 0), i(0, 31, 0), i(0, 0, 86400), i(0, 0, 90000), i(0, 1, 3600),
            i(1, -1, 1), i(-1, 1, -1), i(-18, 0, 0), i(0, 0, 60), i(0, 0, 3600), i(0, 0, 59), i(0, 0, 3599), i(11, 0, 0),
            i(13, 0, 0), i(-13, 0, 0), i(24, 0, 0), i(i32::MAX, 0, 0), i(i32::MIN, 0, 0), i(0, i32::MAX, 0), i(0, i32::MIN, 0),
            i(0, 0, MAX_IV_S), i(0, 0, -MAX_IV_S), i(i32::MAX, i32::MAX, MAX_IV_S), i(i32::MIN, i32::MIN, -MAX_IV_S), i(1, 1, 1),
            i(0, 71, 0), i(3, 0, 0),
        ]),
        2 => (-30i32..30, -40i32..40, -100_000i32..100_000).prop_map(move |(m, d, s)| i(m, d, s)),
        1 => (any::<i32>(), any::<i32>(), -MAX_IV_S..=MAX_IV_S).prop_map(move |(m, d, s)| i(m, d, s)),
    ]
    .boxed()
}

fn int<T>(min: T, max: T, any: BoxedStrategy<T>, small: Vec<T>) -> BoxedStrategy<T>
where
    T: Clone + std::fmt::Debug + 'static,
{
    let mut v = small;
    v.push(min);
    v.push(max);
    prop_oneof![3 => sel(v), 1 => any].boxed()
}

/// Values of one type; `vlen` fixes the length of vectors (None: 0..=3).
pub fn value(ty: Ty, vlen: Option<usize>) -> BoxedStrategy<V> {
    match ty {
        Ty::Bool => any::<bool>().prop_map(V::Bool).boxed(),
        Ty::I16 => int(
            i16::MIN,
            i16::MAX,
            any::<i16>().boxed(),
            vec![0, 1, -1, 2, -2, 3, i16::MIN + 1, i16::MAX - 1, 10, 9],
        )
        .prop_map(V::I16)
        .boxed(),
        Ty::I32 => int(
            i32::MIN,
            i32::MAX,
            any::<i32>().boxed(),
            vec![0, 1, -1, 2, -2, 3, i32::MIN + 1, i32::MAX - 1, 10, 9, 65536],
        )
        .prop_map(V::I32)
        .boxed(),
        Ty::I64 => int(
            i64::MIN,
            i64::MAX,
            any::<i64>().boxed(),
            vec![
                0,
                1,
                -1,
                2,
                -2,
                3,
                i64::MIN + 1,
                i64::MAX - 1,
                10,
                9,
                1 << 32,
                (1 << 53) + 1,
                i32::MAX as i64 + 1,
                i32::MIN as i64 - 1,
            ],
        )
        .prop_map(V::I64)
        .boxed(),
        Ty::F64 => f64_bits().prop_map(V::F64).boxed(),
        Ty::Dec => dec(),
        Ty::Str => string().prop_map(V::Str).boxed(),
        Ty::Blob => blob().prop_map(V::Blob).boxed(),
        Ty::Date => day().prop_map(V::Date).boxed(),
        Ty::Ts => sec().prop_map(V::Ts).boxed(),
        Ty::Tz => sec().prop_map(V::Tz).boxed(),
        Ty::Iv => iv(),
        Ty::Vec => match vlen {
            Some(n) => prop::collection::vec(small_f64_bits(), n).prop_map(V::Vec).boxed(),
            None => prop::collection::vec(small_f64_bits(), 0..=3).prop_map(V::Vec).boxed(),
        },
    }
}

/// `n` values drawn from a small pool (so that equal values, and equal values in a different
/// representation, are frequent); `nulls` allows NULL.
pub fn pooled(ty: Ty, vlen: Option<usize>, n: std::ops::RangeInclusive<usize>, nulls: bool) -> BoxedStrategy<Vec<V>> {
    (
        prop::collection::vec(value(ty, vlen), 1..=4),
        prop::collection::vec((0u8..8, prop::bool::weighted(0.35)), n),
    )
        .prop_map(move |(pool, picks)| {
            picks
                .iter()
                .map(|&(k, al)| {
                    if nulls && k == 7 {
                        V::Null
                    } else {
                        let v = &pool[k as usize * pool.len() / 8];
                        if al { v.alias() } else { v.clone() }
                    }
                })
                .collect()
        })
        .boxed()
}

/// One strategy per type, chosen uniformly.
pub fn per_type<T: std::fmt::Debug + 'static>(f: impl Fn(Ty) -> BoxedStrategy<T>) -> Union<BoxedStrategy<T>> {
    Union::new(Ty::ALL.iter().map(|&t| f(t)).collect::<Vec<_>>())
}
