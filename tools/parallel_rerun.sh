#!/bin/bash
# tools/parallel_rerun.sh <lanes>: re-verify that every seeded change is still caught by the quick tier of its
# property's check, in <lanes> scratch copies (worktree of /repo + private copy of the harness) side by side.
# Development aid; the recorded result.json files come from tools/run_seeded.sh (patch applied to /repo).
L=${1:-4}
cd /verif
ls -d seeded/c*-*/ | sed 's#/$##' > /tmp/lanes_all.txt
split -n l/$L -d /tmp/lanes_all.txt /tmp/lanes_part_
for k in $(seq 0 $((L-1))); do
  (
    D=/tmp/lane_$k; rm -rf $D; mkdir -p $D/v
    git -C /repo worktree add --detach $D/repo HEAD >/dev/null 2>&1
    rsync -a --exclude target --exclude target-build.log /verif/harness/ $D/harness/
    sed -i "s#path = \"/repo\"#path = \"$D/repo\"#; s#path = \"/repo/proto\"#path = \"$D/repo/proto\"#" $D/harness/Cargo.toml
    ln -s /verif/known_findings.json $D/v/; ln -s /verif/findings $D/v/; ln -s /verif/oracle $D/v/
    export CARGO_NET_OFFLINE=true VERIF_DIR=$D/v VERIF_WORKERS=4
    for s in $(cat /tmp/lanes_part_0$k); do
      P=$(python3 -c "import json;print(json.load(open('/verif/$s/meta.json'))['property'])")
      # the checks that caught it last time (the property's own first)
      CH=$(python3 -c "import json;r=json.load(open('/verif/$s/result.json'));c=r.get('caught_by',[]);print(' '.join(sorted(c,key=lambda x:x!='$P')) or '$P')")
      git -C $D/repo apply /verif/$s/patch.diff || { echo "$(basename $s) PATCH-FAILED"; continue; }
      (cd $D/harness && cargo build 2>$D/build.log >&2) || { echo "$(basename $s) BUILD-FAILED"; git -C $D/repo checkout -- .; continue; }
      res=""
      for c in $CH; do
        $D/harness/target/debug/rlv check $c --tier quick > $D/out.log 2>&1; rc=$?
        res="$res $c=$rc"
        [ $rc -eq 1 ] && break
      done
      echo "$(basename $s)$res"
      git -C $D/repo checkout -- .; git -C $D/repo clean -fdq tests/ 2>/dev/null
    done
    git -C /repo worktree remove --force $D/repo; rm -rf $D
  ) > /tmp/lane_$k.log 2>&1 &
done
wait
cat /tmp/lane_*.log | sort
