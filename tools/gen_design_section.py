#!/usr/bin/env python3
"""Regenerates the generated tables of DESIGN.md section 11 (hook commits, fix commits, open findings)."""
import json, subprocess, re
V='/verif'
d=json.load(open(f'{V}/known_findings.json'))
s=open(f'{V}/DESIGN.md').read()
log=subprocess.run(['git','-C','/repo','log','--reverse','--format=%h %s','e5b03f1..HEAD'],capture_output=True,text=True).stdout.splitlines()
fixl=[l for l in log if ' fix:' in l]; hookl=[l for l in log if ' verif:' in l]
openf=[f for f in d['findings'] if f['status']=='open']
def block(name, body):
    global s
    a=f'<!-- BEGIN {name} -->'; b=f'<!-- END {name} -->'
    assert a in s and b in s, name
    s=s[:s.index(a)+len(a)]+'\n'+body+'\n'+s[s.index(b):]
block('HOOKS','\n'.join('* `%s`'%l for l in hookl))
block('FIXES','\n'.join('* `%s`'%l for l in fixl))
rows=['| id | property | what (short) | handling |','|---|---|---|---|']
for f in openf:
    what=f['what'].replace('|','/'); what=what[:160]+('…' if len(what)>160 else '')
    h=('switch '+', '.join(f['excludes'])) if f['excludes'] else ('signatures' if f['signatures'] else 'ablation')
    if f.get('ablate_rules'): h+=' + rule ablation'
    rows.append(f"| {f['id']} | {f['property']} | {what} | {h} |")
block('OPEN','\n'.join(rows))
open(f'{V}/DESIGN.md','w').write(s)
print(len(hookl),'hooks',len(fixl),'fixes',len(openf),'open findings')
