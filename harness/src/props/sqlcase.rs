//! Shared pieces of the SQL-level checks: decoded cases, database setup, result comparison.

use serde::{Deserialize, Serialize};

use crate::engine::*;
use crate::gens::sql::*;
use crate::gens::tape::Tape;
use crate::sqlrun::*;

#[derive(Clone, Debug, Serialize, Deserialize)]
pub struct DbSpec {
    pub schema: Vec<TableDef>,
    /// per table: insert batches
    pub data: Vec<Vec<Vec<Vec<Val>>>>,
    /// None = in-memory engine
    pub disk: Option<DiskCfg>,
    /// run a compaction pass after loading
    pub tick_after_load: bool,
    /// statements run after the load (DELETEs, "TICK" = one compaction pass on disk); their
    /// outcome is not examined
    #[serde(default)]
    pub post: Vec<String>,
}

impl DbSpec {
    pub fn setup_sql(&self) -> Vec<String> {
        let mut v = vec![];
        for td in &self.schema {
            v.push(td.create_sql());
        }
        // interleave the batches of the tables
        let maxb = self.data.iter().map(|b| b.len()).max().unwrap_or(0);
        for b in 0..maxb {
            for (ti, td) in self.schema.iter().enumerate() {
                if let Some(rows) = self.data[ti].get(b) {
                    v.push(insert_sql(&td.name, rows));
                }
            }
        }
        v
    }
    pub fn has_null(&self) -> bool {
        self.data.iter().flatten().flatten().flatten().any(|v| v.is_null())
    }
    pub fn multi_rowset(&self) -> bool {
        self.data.iter().any(|b| b.len() >= 2)
    }
    pub fn total_rows(&self) -> usize {
        self.data.iter().flatten().map(|b| b.len()).sum()
    }
}

pub fn gen_dbspec(t: &mut Tape, cfg: &GenCfg, disk: Option<DiskCfg>) -> DbSpec {
    let schema = gen_schema(t, cfg);
    let data = gen_data(t, cfg, &schema);
    let tick_after_load = disk.is_some() && t.chance(1, 4);
    DbSpec { schema, data, disk, tick_after_load, post: vec![] }
}

/// Open the database of a case and load it. Err = setup did not work (reported by the caller).
pub async fn open_and_load(ctx: &Ctx, spec: &DbSpec, tag: &str) -> Result<risinglight::Database, String> {
    let db = match &spec.disk {
        None => risinglight::Database::new_in_memory(),
        Some(cfg) => {
            let dir = ctx.case_dir(tag);
            open_disk(cfg, &dir.join("db")).await?
        }
    };
    for s in spec.setup_sql() {
        match exec(&db, &s).await {
            Out::Rows(_) => {}
            o => return Err(format!("setup statement `{s}` -> {}", o.brief())),
        }
    }
    if spec.tick_after_load {
        tick().await;
    }
    for s in &spec.post {
        if s == "TICK" {
            if spec.disk.is_some() {
                tick().await;
            }
        } else {
            let _ = exec(&db, s).await;
        }
    }
    let _ = take_panics();
    Ok(db)
}

pub async fn close(spec: &DbSpec, db: &risinglight::Database) {
    if spec.disk.is_some() {
        let _ = shutdown(db).await;
    }
}

fn project(rows: &[Row], idx: &[(usize, bool)]) -> Vec<Row> {
    rows.iter().map(|r| idx.iter().map(|(i, _)| r[*i].clone()).collect()).collect()
}

fn multiset_included(small: &[Row], big: &[Row]) -> bool {
    let mut b = sorted(big.to_vec());
    for r in sorted(small.to_vec()) {
        match b.binary_search(&r) {
            Ok(i) => {
                b.remove(i);
            }
            Err(_) => return false,
        }
    }
    true
}

/// Compare a result with a reference result of the same query, by the rules of DESIGN §5.1:
/// multisets; key sequences when ordered; with LIMIT/OFFSET: count, containment in the
/// un-limited reference result, key sequence.
pub fn compare_results(q: &Query, reference: &[Row], got: &[Row], unlimited_ref: Option<&[Row]>) -> Result<(), String> {
    let limited = q.limit.is_some() || q.offset.is_some();
    if !q.order_by.is_empty() {
        let kr = project(reference, &q.order_by);
        let kg = project(got, &q.order_by);
        if kr != kg {
            return Err(format!("ORDER BY key sequences differ: reference {} vs {}", fmt_rows(&kr), fmt_rows(&kg)));
        }
    }
    if !limited {
        if sorted(reference.to_vec()) != sorted(got.to_vec()) {
            return Err(format!("row multisets differ: reference {} vs {}", fmt_rows(&sorted(reference.to_vec())), fmt_rows(&sorted(got.to_vec()))));
        }
    } else {
        if reference.len() != got.len() {
            return Err(format!("row counts differ under LIMIT/OFFSET: reference {} vs {}", reference.len(), got.len()));
        }
        if let Some(u) = unlimited_ref {
            // the un-limited reference comes from `Query::print_unlimited`: the original columns
            // first, then the ORDER BY keys that are not selected
            let n = q.select.len();
            let up: Vec<Row> = u.iter().map(|r| r[..n.min(r.len())].to_vec()).collect();
            if !multiset_included(got, &up) {
                return Err(format!("rows under LIMIT/OFFSET are not contained in the un-limited result: {} vs un-limited {}", fmt_rows(got), fmt_rows(&up)));
            }
            if order_is_total(q, u) && reference != got {
                return Err(format!(
                    "the order is total on the un-limited result, so the rows under LIMIT/OFFSET are determined, but they differ: reference {} vs {}",
                    fmt_rows(reference),
                    fmt_rows(got)
                ));
            }
        }
    }
    Ok(())
}

/// Is the order given by ORDER BY total on the result (no two rows tie on all keys while
/// differing elsewhere)? Then LIMIT results are unique and compared exactly.
pub fn order_is_total(q: &Query, unlimited: &[Row]) -> bool {
    let a = q.augmented();
    if a.order_by.is_empty() || unlimited.iter().any(|r| r.len() != a.select.len()) {
        return false;
    }
    let n = q.select.len();
    let keys = project(unlimited, &a.order_by);
    for i in 0..keys.len() {
        for j in i + 1..keys.len() {
            if keys[i] == keys[j] && unlimited[i][..n] != unlimited[j][..n] {
                return false;
            }
        }
    }
    true
}

pub fn shape_fp(q: &Query, spec: &DbSpec) -> (Vec<&'static str>, bool, bool, bool, usize) {
    (q.features(), spec.has_null(), spec.disk.is_some(), spec.multi_rowset(), spec.total_rows().min(3))
}

/// Generator configuration for a property: everything on, minus the switches turned off by
/// open findings (of this property or shared with it).
pub fn cfg_for(ctx: &Ctx, subqueries: bool) -> GenCfg {
    let mut c = GenCfg::full();
    c.subqueries = subqueries;
    c.subq_in_select = subqueries && !ctx.off("gen.subquery_in_select");
    c.not_in_subq = !ctx.off("gen.not_in_subquery");
    c.correlated = !ctx.off("gen.correlated_subquery");
    c.nonequi_outer = !ctx.off("gen.nonequi_outer_join");
    c.bare_bool = !ctx.off("gen.bare_bool_predicate");
    c.div_mod = !ctx.off("gen.div_mod");
    c.case_expr = !ctx.off("gen.case_expr");
    c.null_literal = !ctx.off("gen.null_literal");
    c.count_distinct = !ctx.off("gen.count_distinct");
    c.const_items = !ctx.off("gen.const_select_items");
    c.const_agg_arg = !ctx.off("gen.const_agg_arg");
    c.distinct_complex = !ctx.off("gen.distinct_complex");
    c.const_divisor = !ctx.off("gen.const_divisor");
    c.derived_expr_items = !ctx.off("gen.derived_expr_items");
    c.case_string = !ctx.off("gen.case_string");
    c.const_case_cond = !ctx.off("gen.const_case_cond");
    c.arith_identity = !ctx.off("gen.arith_identity");
    c.const_join_cond = !ctx.off("gen.const_join_cond");
    c.having_other_agg = !ctx.off("gen.having_other_agg");
    c.null_unsound_patterns = !ctx.off("gen.null_unsound_patterns");
    c.correlated_scalar = !ctx.off("gen.correlated_scalar_subquery");
    c.count_star_in_subquery = !ctx.off("gen.count_star_in_subquery");
    c.scalar_subquery = !ctx.off("gen.scalar_subquery");
    c.correlated_not_in = !ctx.off("gen.correlated_not_in");
    c.derived_order = !ctx.off("gen.derived_order");
    c.order_over_derived_sortagg = !ctx.off("gen.order_over_derived_sortagg");
    c
}


/// A statement that one side answers got no answer from risinglight (error or panic). Whether
/// every accepted statement gets an *executable plan* is C17's question (and the unchanged tree
/// fails it for many shapes), so a failure that comes from the planner or from building / evaluating
/// the plan is not this property's business: `Ok(class)`. A failure from anywhere else — storage,
/// array kernels, the operators themselves — while the other side answers is a difference in
/// behaviour: `Err(signature)`.
pub fn no_answer(out: &Out, panics: &[String]) -> Result<String, String> {
    const PLAN_SITES: [&str; 7] = [
        "planner/",
        "binder/",
        "executor/mod.rs",            // executor build: column not found, unsupported node
        "executor/evaluator.rs",      // an expression node the evaluator does not know (exists, in, ..)
        "executor/nested_loop_join.rs:26", // todo!(): RIGHT/FULL nested-loop join
        "egg-",
        "db.rs",
    ];
    const PLAN_ERRORS: [&str; 6] = ["not supported in executor", "no function", "can not evaluate", "not found from input", "bind error", "parse error"];
    match panics.first() {
        Some(p) => {
            let sig = panic_sig(p);
            if PLAN_SITES.iter().any(|s| sig.starts_with(s) || sig.contains(&format!("/{s}"))) {
                Ok(format!("no-answer:{sig}"))
            } else {
                Err(format!("no-answer:{sig}"))
            }
        }
        None => {
            let b = out.brief();
            if PLAN_ERRORS.iter().any(|e| b.contains(e)) {
                Ok("no-answer:error:plan".to_string())
            } else {
                let short: String = b.chars().take(60).map(|c| if c.is_ascii_digit() { '#' } else { c }).collect();
                Err(format!("no-answer:error:{short}"))
            }
        }
    }
}

/// DELETE statements (and compaction passes) to run after the load, so that queries see row-sets
/// with delete vectors: 0-2 deletes with a generated predicate, each possibly followed by a pass.
pub fn gen_post(t: &mut Tape, cfg: &GenCfg, schema: &[TableDef]) -> Vec<String> {
    let mut post = vec![];
    if !t.chance(1, 3) {
        return post;
    }
    for _ in 0..t.range(1, 2) {
        let td = &schema[t.pick(schema.len())];
        let scope: Vec<ScopeCol> = td.cols.iter().map(|c| ScopeCol { alias: td.name.clone(), name: c.name.clone(), ty: c.ty }).collect();
        let mut c2 = cfg.clone();
        c2.subqueries = false;
        let mut g = Gen { t, cfg: c2, schema, alias_no: 0 };
        let p = g.expr(&scope, &[], Ty::Bool, 2, false);
        post.push(format!("delete from {} where {}", td.name, p.print(Dialect::Rl)));
        if t.chance(1, 4) {
            post.push("TICK".to_string());
        }
    }
    post
}
