//! One libFuzzer target for every in-process property part: the input bytes are the entropy of the
//! part's proptest strategy (pass-through RNG), the oracle is the part's own test function.
//!   RLV_FUZZ_PROP=C06 RLV_FUZZ_PART=protocol cargo fuzz run prop ...
//! A failure that is not a listed finding is written as a replay file (the same format the rlv
//! checks write, so `./check <P> --replay <file>` re-runs it) and the process aborts, which makes
//! libFuzzer keep the input as an artifact.
#![no_main]
use std::path::PathBuf;
use std::sync::{Mutex, OnceLock};

use libfuzzer_sys::fuzz_target;
use rlv::engine::*;

struct State {
    def: PropDef,
    part: usize,
    ctx: Ctx,
    stats: Mutex<Stats>,
}

static STATE: OnceLock<State> = OnceLock::new();

fn init() -> State {
    // libfuzzer-sys aborts on every panic; the checks tolerate (and classify) panics of the code
    // under test with catch_unwind, so the harness' own hook replaces it
    rlv::sqlrun::install_panic_hook();
    let prop = std::env::var("RLV_FUZZ_PROP").unwrap_or_else(|_| "C06".into());
    let def = rlv::props::all().into_iter().find(|p| p.id == prop).expect("unknown property");
    let pname = std::env::var("RLV_FUZZ_PART").unwrap_or_else(|_| def.parts[0].name().to_string());
    let part = def.parts.iter().position(|p| p.name() == pname).expect("unknown part");
    let verif_dir = std::env::var("VERIF_DIR").map(PathBuf::from).unwrap_or_else(|_| PathBuf::from("/verif"));
    let base = if std::path::Path::new("/dev/shm").is_dir() { PathBuf::from("/dev/shm") } else { std::env::temp_dir() };
    let scratch = base.join(format!("rlv-fuzz-{}", std::process::id()));
    let _ = std::fs::create_dir_all(&scratch);
    let known = Known::load(&verif_dir);
    let ctx = Ctx { prop, tier: Tier::Thorough, seed: 0, worker: 0, nworkers: 1, scratch, verif_dir, known, strict: false, scale: 1.0 };
    State { def, part, ctx, stats: Mutex::new(Stats::new()) }
}

fuzz_target!(|data: &[u8]| {
    let st = STATE.get_or_init(init);
    let mut stats = st.stats.lock().unwrap();
    let part = &st.def.parts[st.part];
    if let Some((case, failure)) = part.run_bytes(&st.ctx, data, &mut stats) {
        let v = Violation { part: part.name().to_string(), idx: 0, case, failure: failure.clone(), shrink_steps: 0 };
        let p = write_replay(&st.ctx.verif_dir, &st.ctx.prop, 0, &v);
        eprintln!("violation [{}] {}", failure.sig, failure.msg);
        eprintln!("VIOLATION property={} replay={}", st.ctx.prop, p.display());
        std::process::abort();
    }
    if stats.cases % 20000 == 0 {
        eprintln!("rlv-fuzz: {} cases, {} distinct non-trivial, known hits {:?}", stats.cases, stats.nontrivial.len(), stats.known_hits);
    }
});
