//! Runner glue: per-case seeded proptest generation, shrinking, replay files, evidence,
//! known findings, worker processes with heartbeat and watchdog.

use std::collections::{BTreeMap, BTreeSet};
use std::hash::{Hash, Hasher};
use std::io::Write;
use std::path::{Path, PathBuf};
use std::time::{Duration, Instant};

use proptest::strategy::{Strategy, ValueTree};
use proptest::test_runner::{Config, RngAlgorithm, TestRng, TestRunner};
use serde::de::DeserializeOwned;
use serde::{Deserialize, Serialize};
use serde_json::{Value, json};

#[derive(Clone, Copy, Debug, PartialEq, Eq, Serialize, Deserialize)]
pub enum Tier {
    Quick,
    Thorough,
}

impl Tier {
    pub fn name(self) -> &'static str {
        match self {
            Tier::Quick => "quick",
            Tier::Thorough => "thorough",
        }
    }
    pub fn pick(self, q: usize, t: usize) -> usize {
        match self {
            Tier::Quick => q,
            Tier::Thorough => t,
        }
    }
}

/// A failure of the property on one case.
#[derive(Clone, Debug, Serialize, Deserialize)]
pub struct Failure {
    /// Human-readable description (what was expected, what was observed).
    pub msg: String,
    /// Narrow signature of *what* fails, matched against `known_findings.json`.
    pub sig: String,
}

pub enum Verdict {
    Pass,
    Discard(&'static str),
    Fail(Failure),
}

pub fn fail(sig: impl Into<String>, msg: impl Into<String>) -> Verdict {
    Verdict::Fail(Failure {
        msg: msg.into(),
        sig: sig.into(),
    })
}

/// What a run covered.
#[derive(Default, Clone, Debug, Serialize, Deserialize)]
pub struct Stats {
    pub evaluations: u64,
    pub cases: u64,
    pub nontrivial: BTreeSet<u64>,
    pub classes: BTreeMap<String, u64>,
    pub discards: BTreeMap<String, u64>,
    pub excluded: BTreeMap<String, u64>,
    pub known_hits: BTreeMap<String, u64>,
    pub samples: Vec<Value>,
    pub timeouts: Vec<String>,
    /// survey mode (RLV_SURVEY=1, development only): failures by signature, first message
    #[serde(default)]
    pub survey: BTreeMap<String, (u64, String)>,
    #[serde(skip)]
    pub recording: bool,
    #[serde(skip)]
    pub cur_nontrivial: bool,
}

impl Stats {
    pub fn new() -> Self {
        Stats {
            recording: true,
            ..Default::default()
        }
    }
    /// One more execution of the code under test (a case may contain several).
    pub fn eval(&mut self) {
        self.evaluations += 1;
    }
    pub fn evals(&mut self, n: u64) {
        self.evaluations += n;
    }
    pub fn class(&mut self, name: &str) {
        *self.classes.entry(name.to_string()).or_default() += 1;
    }
    pub fn class_n(&mut self, name: &str, n: u64) {
        *self.classes.entry(name.to_string()).or_default() += n;
    }
    pub fn excluded(&mut self, switch: &str) {
        *self.excluded.entry(switch.to_string()).or_default() += 1;
    }
    /// Mark the current case (or sub-case) as non-trivial, with its structural fingerprint.
    pub fn nontrivial(&mut self, fp: impl Hash) {
        let mut h = std::collections::hash_map::DefaultHasher::new();
        fp.hash(&mut h);
        self.nontrivial.insert(h.finish());
        self.cur_nontrivial = true;
    }
    pub fn merge(&mut self, o: Stats) {
        self.evaluations += o.evaluations;
        self.cases += o.cases;
        self.nontrivial.extend(o.nontrivial);
        for (k, v) in o.classes {
            *self.classes.entry(k).or_default() += v;
        }
        for (k, v) in o.discards {
            *self.discards.entry(k).or_default() += v;
        }
        for (k, v) in o.excluded {
            *self.excluded.entry(k).or_default() += v;
        }
        for (k, v) in o.known_hits {
            *self.known_hits.entry(k).or_default() += v;
        }
        for s in o.samples {
            if self.samples.len() < 8 {
                self.samples.push(s);
            }
        }
        self.timeouts.extend(o.timeouts);
        for (k, (n, m)) in o.survey {
            let e = self.survey.entry(k).or_insert((0, m));
            e.0 += n;
        }
    }
}

// ---------------------------------------------------------------------------------------------
// known findings

#[derive(Clone, Debug, Serialize, Deserialize)]
pub struct Finding {
    pub id: String,
    pub property: String,
    pub status: String, // "open" | "fixed"
    pub what: String,
    #[serde(default)]
    pub witness: Option<String>,
    /// Failure signatures (exact strings) that belong to this finding.
    #[serde(default)]
    pub signatures: Vec<String>,
    /// Generator switches turned off while the finding is open.
    #[serde(default)]
    pub excludes: Vec<String>,
    #[serde(default)]
    pub ablate_rules: Vec<String>,
    #[serde(default)]
    pub commit: Option<String>,
    /// other properties whose generators also honour this finding's `excludes`
    #[serde(default)]
    pub shared_with: Vec<String>,
    /// signatures that are also tolerated in the `shared_with` properties (e.g. "process-crash"
    /// for an optimizer blow-up that any generated query can hit)
    #[serde(default)]
    pub shared_signatures: Vec<String>,
}

#[derive(Clone, Debug, Default)]
pub struct Known {
    pub findings: Vec<Finding>,
}

impl Known {
    pub fn load(verif_dir: &Path) -> Known {
        let p = verif_dir.join("known_findings.json");
        let Ok(s) = std::fs::read_to_string(&p) else {
            return Known::default();
        };
        let v: Value = serde_json::from_str(&s).expect("known_findings.json is not valid JSON");
        let findings = serde_json::from_value(v["findings"].clone())
            .expect("known_findings.json: bad 'findings'");
        Known { findings }
    }
    pub fn open_for<'a>(&'a self, prop: &'a str) -> impl Iterator<Item = &'a Finding> + 'a {
        self.findings
            .iter()
            .filter(move |f| f.status == "open" && f.property == prop)
    }
}

/// A listed signature matches exactly, or as a prefix when it ends with `*`.
pub fn sig_matches(listed: &str, sig: &str) -> bool {
    match listed.strip_suffix('*') {
        Some(prefix) => sig.starts_with(prefix),
        None => listed == sig,
    }
}

// ---------------------------------------------------------------------------------------------
// context

pub struct Ctx {
    pub prop: String,
    pub tier: Tier,
    pub seed: u64,
    pub worker: usize,
    pub nworkers: usize,
    pub scratch: PathBuf,
    pub verif_dir: PathBuf,
    pub known: Known,
    /// strict mode (replay): known findings are not tolerated, nothing is excluded.
    pub strict: bool,
    pub scale: f64,
}

impl Ctx {
    /// Whether a generator switch is turned off by an open finding of this property.
    pub fn off(&self, switch: &str) -> bool {
        if self.strict {
            return false;
        }
        if std::env::var("RLV_NO_SWITCH").is_ok_and(|s| s.split(',').any(|x| x == switch)) {
            return false;
        }
        self.known.findings.iter().any(|f| {
            f.status == "open"
                && (f.property == self.prop || f.shared_with.iter().any(|p| *p == self.prop))
                && f.excludes.iter().any(|e| e == switch)
        })
    }
    /// All switches that are off for this property.
    pub fn off_switches(&self) -> Vec<String> {
        if self.strict {
            return vec![];
        }
        // development aid: RLV_NO_SWITCH=a,b re-enables the named shapes
        let on: Vec<String> = std::env::var("RLV_NO_SWITCH").map(|s| s.split(',').map(|x| x.to_string()).collect()).unwrap_or_default();
        let mut v = vec![];
        for f in &self.known.findings {
            if f.status == "open" && (f.property == self.prop || f.shared_with.iter().any(|p| *p == self.prop)) {
                v.extend(f.excludes.iter().filter(|e| !on.contains(e)).cloned());
            }
        }
        v
    }
    /// A context that only carries generator switches (for use inside `prop_map` closures).
    pub fn switches_only(prop: &str, off: Vec<String>, strict: bool) -> Ctx {
        Ctx {
            prop: prop.to_string(),
            tier: Tier::Quick,
            seed: 0,
            worker: 0,
            nworkers: 1,
            scratch: Default::default(),
            verif_dir: Default::default(),
            known: Known {
                findings: vec![Finding {
                    id: "switches".into(),
                    property: prop.to_string(),
                    status: "open".into(),
                    what: String::new(),
                    witness: None,
                    signatures: vec![],
                    excludes: off,
                    ablate_rules: vec![],
                    commit: None,
                    shared_with: vec![],
                    shared_signatures: vec![],
                }],
            },
            strict,
            scale: 1.0,
        }
    }
    /// The open finding a failure signature belongs to.
    pub fn known_sig(&self, sig: &str) -> Option<&Finding> {
        if self.strict || std::env::var("RLV_IGNORE_KNOWN").is_ok() {
            return None;
        }
        self.known.findings.iter().find(|f| {
            f.status == "open"
                && ((f.property == self.prop && f.signatures.iter().any(|s| sig_matches(s, sig)))
                    || (f.shared_with.iter().any(|p| *p == self.prop) && f.shared_signatures.iter().any(|s| sig_matches(s, sig))))
        })
    }
    pub fn ablate_rules(&self) -> Vec<String> {
        let mut v = vec![];
        for f in &self.known.findings {
            if f.status == "open" && (f.property == self.prop || f.shared_with.iter().any(|p| *p == self.prop)) {
                v.extend(f.ablate_rules.iter().cloned());
            }
        }
        v
    }
    /// A fresh directory for one case; removed by the caller (or with the scratch root).
    pub fn case_dir(&self, tag: &str) -> PathBuf {
        let d = self.scratch.join(format!("w{}-{}", self.worker, tag));
        let _ = std::fs::remove_dir_all(&d);
        std::fs::create_dir_all(&d).unwrap();
        d
    }
}

// ---------------------------------------------------------------------------------------------
// parts

pub struct Violation {
    pub part: String,
    pub idx: u64,
    pub case: Value,
    pub failure: Failure,
    pub shrink_steps: u32,
}

pub trait Part: Send + Sync {
    fn name(&self) -> &str;
    fn cases(&self, tier: Tier) -> usize;
    /// Run the cases `idx ≡ worker (mod nworkers)`, `idx >= from`.
    fn run(&self, ctx: &Ctx, stats: &mut Stats, hb: &Heartbeat, part_no: u64, from: u64)
    -> Option<Violation>;
    fn replay(&self, ctx: &Ctx, case: &Value) -> Verdict;
    fn generate(&self, ctx: &Ctx, idx: u64) -> Value;
    /// Coverage-guided entry: `bytes` are the generator's entropy (proptest's pass-through RNG), so
    /// a libFuzzer mutation of the input is a mutation of the generated case. Returns the case and
    /// the failure if the oracle fails in a way that is not a listed finding.
    fn run_bytes(&self, ctx: &Ctx, bytes: &[u8], stats: &mut Stats) -> Option<(Value, Failure)>;
}

pub struct GenPart<T, S, G, F>
where
    S: Strategy<Value = T>,
    G: Fn(&Ctx) -> S + Send + Sync,
    F: Fn(&Ctx, &T, &mut Stats) -> Verdict + Send + Sync,
{
    pub name: &'static str,
    pub quick: usize,
    pub thorough: usize,
    pub strat: G,
    pub test: F,
}

pub fn part<T, S, G, F>(
    name: &'static str,
    quick: usize,
    thorough: usize,
    strat: G,
    test: F,
) -> Box<dyn Part>
where
    T: Serialize + DeserializeOwned + std::fmt::Debug + Clone + 'static,
    S: Strategy<Value = T> + 'static,
    G: Fn(&Ctx) -> S + Send + Sync + 'static,
    F: Fn(&Ctx, &T, &mut Stats) -> Verdict + Send + Sync + 'static,
{
    Box::new(GenPart {
        name,
        quick,
        thorough,
        strat,
        test,
    })
}

fn splitmix(x: &mut u64) -> u64 {
    *x = x.wrapping_add(0x9E3779B97F4A7C15);
    let mut z = *x;
    z = (z ^ (z >> 30)).wrapping_mul(0xBF58476D1CE4E5B9);
    z = (z ^ (z >> 27)).wrapping_mul(0x94D049BB133111EB);
    z ^ (z >> 31)
}

fn case_rng(seed: u64, prop: &str, part: &str, idx: u64) -> TestRng {
    let mut h = std::collections::hash_map::DefaultHasher::new();
    (seed, prop, part, idx).hash(&mut h);
    let mut x = h.finish();
    let mut bytes = [0u8; 32];
    for c in bytes.chunks_mut(8) {
        c.copy_from_slice(&splitmix(&mut x).to_le_bytes());
    }
    TestRng::from_seed(RngAlgorithm::ChaCha, &bytes)
}

fn runner_for(seed: u64, prop: &str, part: &str, idx: u64) -> TestRunner {
    let cfg = Config {
        failure_persistence: None,
        ..Config::default()
    };
    TestRunner::new_with_rng(cfg, case_rng(seed, prop, part, idx))
}

impl<T, S, G, F> Part for GenPart<T, S, G, F>
where
    T: Serialize + DeserializeOwned + std::fmt::Debug + Clone + 'static,
    S: Strategy<Value = T> + 'static,
    G: Fn(&Ctx) -> S + Send + Sync,
    F: Fn(&Ctx, &T, &mut Stats) -> Verdict + Send + Sync,
{
    fn name(&self) -> &str {
        self.name
    }
    fn cases(&self, tier: Tier) -> usize {
        tier.pick(self.quick, self.thorough)
    }
    fn generate(&self, ctx: &Ctx, idx: u64) -> Value {
        let strat = (self.strat)(ctx);
        let mut runner = runner_for(ctx.seed, &ctx.prop, self.name, idx);
        match strat.new_tree(&mut runner) {
            Ok(t) => serde_json::to_value(t.current()).unwrap_or(Value::Null),
            Err(_) => Value::Null,
        }
    }
    fn run(
        &self,
        ctx: &Ctx,
        stats: &mut Stats,
        hb: &Heartbeat,
        part_no: u64,
        from: u64,
    ) -> Option<Violation> {
        let total = ((self.cases(ctx.tier) as f64) * ctx.scale).ceil() as u64;
        let strat = (self.strat)(ctx);
        let mut idx = ctx.worker as u64;
        let mut last_snap = Instant::now();
        while idx < total {
            if idx < from {
                idx += ctx.nworkers as u64;
                continue;
            }
            // what was counted so far survives a watchdog kill of this worker
            if last_snap.elapsed() > Duration::from_millis(1500) {
                snapshot_stats(stats);
                last_snap = Instant::now();
            }
            hb.beat(part_no, idx);
            let mut runner = runner_for(ctx.seed, &ctx.prop, self.name, idx);
            let mut tree = match strat.new_tree(&mut runner) {
                Ok(t) => t,
                Err(_) => {
                    *stats.discards.entry("generator-reject".into()).or_default() += 1;
                    idx += ctx.nworkers as u64;
                    continue;
                }
            };
            let value = tree.current();
            stats.cases += 1;
            stats.cur_nontrivial = false;
            let verdict = (self.test)(ctx, &value, stats);
            // samples: some non-trivial cases, and in any case the first case of the worker
            if (stats.cur_nontrivial && stats.samples.len() < 4 && stats.cases % 7 == 1) || stats.samples.is_empty() {
                let mut s = serde_json::to_string(&value).unwrap_or_default();
                if s.len() > 1500 {
                    let mut n = 1500;
                    while !s.is_char_boundary(n) {
                        n -= 1;
                    }
                    s.truncate(n);
                    s.push_str("…(truncated)");
                    stats.samples.push(json!({"part": self.name, "case_json_prefix": s}));
                } else {
                    stats.samples.push(
                        json!({"part": self.name, "case": serde_json::to_value(&value).unwrap_or(Value::Null)}),
                    );
                }
            }
            match verdict {
                Verdict::Pass => {}
                Verdict::Discard(r) => {
                    *stats.discards.entry(r.to_string()).or_default() += 1;
                }
                Verdict::Fail(f) => {
                    if let Some(k) = ctx.known_sig(&f.sig) {
                        *stats.known_hits.entry(k.id.clone()).or_default() += 1;
                    } else if std::env::var("RLV_ONLY_SIG").is_ok_and(|o| !f.sig.starts_with(&o)) {
                        // development aid: look at one kind of failure only
                    } else if std::env::var("RLV_SURVEY").is_ok() {
                        let e = stats.survey.entry(f.sig.clone()).or_insert((0, f.msg.clone()));
                        e.0 += 1;
                    } else {
                        // shrink
                        let mut best = value.clone();
                        let mut best_f = f;
                        let mut steps = 0u32;
                        let t0 = Instant::now();
                        let mut scratch = Stats::default();
                        if tree.simplify() {
                            loop {
                                if steps >= 3000 || t0.elapsed() > Duration::from_secs(240) {
                                    break;
                                }
                                steps += 1;
                                hb.beat(part_no, idx);
                                let v = tree.current();
                                let failed = match (self.test)(ctx, &v, &mut scratch) {
                                    // shrink towards the same kind of failure only
                                    Verdict::Fail(f2) if f2.sig == best_f.sig => {
                                        best = v;
                                        best_f = f2;
                                        true
                                    }
                                    _ => false,
                                };
                                if failed {
                                    if !tree.simplify() {
                                        break;
                                    }
                                } else if !tree.complicate() {
                                    break;
                                }
                            }
                        }
                        return Some(Violation {
                            part: self.name.to_string(),
                            idx,
                            case: serde_json::to_value(&best).unwrap(),
                            failure: best_f,
                            shrink_steps: steps,
                        });
                    }
                }
            }
            idx += ctx.nworkers as u64;
        }
        None
    }
    fn run_bytes(&self, ctx: &Ctx, bytes: &[u8], stats: &mut Stats) -> Option<(Value, Failure)> {
        let strat = (self.strat)(ctx);
        let cfg = Config { failure_persistence: None, ..Config::default() };
        // The pass-through RNG yields zeros once its data are used up, and rand's uniform sampling
        // rejects the low end of its range: on a zero stream it never returns. The input is
        // therefore continued with a pseudo-random stream derived from it.
        let mut buf = bytes.to_vec();
        let mut h = std::collections::hash_map::DefaultHasher::new();
        bytes.hash(&mut h);
        let mut x = h.finish() | 1;
        while buf.len() < bytes.len() + (4 << 20) {
            buf.extend_from_slice(&splitmix(&mut x).to_le_bytes());
        }
        let mut runner = TestRunner::new_with_rng(cfg, TestRng::from_seed(RngAlgorithm::PassThrough, &buf));
        let tree = strat.new_tree(&mut runner).ok()?;
        let value = tree.current();
        stats.cases += 1;
        stats.cur_nontrivial = false;
        match (self.test)(ctx, &value, stats) {
            Verdict::Fail(f) => match ctx.known_sig(&f.sig) {
                Some(k) => {
                    *stats.known_hits.entry(k.id.clone()).or_default() += 1;
                    None
                }
                None => Some((serde_json::to_value(&value).unwrap_or(Value::Null), f)),
            },
            _ => None,
        }
    }
    fn replay(&self, ctx: &Ctx, case: &Value) -> Verdict {
        let v: T = match serde_json::from_value(case.clone()) {
            Ok(v) => v,
            Err(e) => return fail("replay:bad-case", format!("cannot decode case: {e}")),
        };
        let mut st = Stats::default();
        (self.test)(ctx, &v, &mut st)
    }
}

pub struct PropDef {
    pub id: &'static str,
    pub level: &'static str,
    pub rule: &'static str,
    pub assumptions: Vec<&'static str>,
    pub parts: Vec<Box<dyn Part>>,
    /// Minimum fraction of cases that must be non-trivial, else the run is inconclusive.
    pub min_nontrivial: u64,
}

// ---------------------------------------------------------------------------------------------
// heartbeat (shared memory file)

pub struct Heartbeat {
    ptr: *mut u64,
}
unsafe impl Send for Heartbeat {}
unsafe impl Sync for Heartbeat {}

impl Heartbeat {
    pub fn open(path: &Path) -> Heartbeat {
        use std::os::fd::AsRawFd;
        let f = std::fs::OpenOptions::new()
            .read(true)
            .write(true)
            .create(true)
            .truncate(false)
            .open(path)
            .unwrap();
        f.set_len(64).unwrap();
        let p = unsafe {
            libc::mmap(
                std::ptr::null_mut(),
                64,
                libc::PROT_READ | libc::PROT_WRITE,
                libc::MAP_SHARED,
                f.as_raw_fd(),
                0,
            )
        };
        assert!(p != libc::MAP_FAILED);
        Heartbeat { ptr: p as *mut u64 }
    }
    pub fn none() -> Heartbeat {
        let b = Box::leak(Box::new([0u64; 8]));
        Heartbeat { ptr: b.as_mut_ptr() }
    }
    pub fn beat(&self, part: u64, idx: u64) {
        unsafe {
            std::ptr::write_volatile(self.ptr, part);
            std::ptr::write_volatile(self.ptr.add(1), idx);
            let c = std::ptr::read_volatile(self.ptr.add(2));
            std::ptr::write_volatile(self.ptr.add(2), c + 1);
        }
    }
    pub fn read(&self) -> (u64, u64, u64) {
        unsafe {
            (
                std::ptr::read_volatile(self.ptr),
                std::ptr::read_volatile(self.ptr.add(1)),
                std::ptr::read_volatile(self.ptr.add(2)),
            )
        }
    }
}

// ---------------------------------------------------------------------------------------------
// replay files

#[derive(Serialize, Deserialize, Clone, Debug)]
pub struct ReplayFile {
    pub property: String,
    pub part: String,
    pub seed: u64,
    pub idx: u64,
    pub failure: Failure,
    pub case: Value,
}

pub fn write_replay(verif_dir: &Path, prop: &str, seed: u64, v: &Violation) -> PathBuf {
    let rf = ReplayFile {
        property: prop.to_string(),
        part: v.part.clone(),
        seed,
        idx: v.idx,
        failure: v.failure.clone(),
        case: v.case.clone(),
    };
    let s = serde_json::to_string_pretty(&rf).unwrap();
    let mut h = std::collections::hash_map::DefaultHasher::new();
    s.hash(&mut h);
    let dir = verif_dir.join("replays").join(prop);
    std::fs::create_dir_all(&dir).unwrap();
    let p = dir.join(format!("{}-{:012x}.json", v.part, h.finish() & 0xffff_ffff_ffff));
    std::fs::write(&p, s).unwrap();
    p
}

// ---------------------------------------------------------------------------------------------
// worker side

#[derive(Serialize, Deserialize, Default)]
pub struct WorkerOut {
    pub stats: Stats,
    pub violation: Option<(String, u64, Value, Failure, u32)>,
    pub done: bool,
}

pub fn set_mem_limit(bytes: u64) {
    unsafe {
        let lim = libc::rlimit {
            rlim_cur: bytes,
            rlim_max: bytes,
        };
        libc::setrlimit(libc::RLIMIT_AS, &lim);
    }
}

static SNAP_PATH: std::sync::OnceLock<PathBuf> = std::sync::OnceLock::new();

/// Write the worker's statistics so far to its output file (not `done`).
pub fn snapshot_stats(stats: &Stats) {
    if let Some(out) = SNAP_PATH.get() {
        let snap = WorkerOut { stats: stats.clone(), violation: None, done: false };
        write_atomic(out, &serde_json::to_vec(&snap).unwrap());
    }
}

pub fn worker_main(def: &PropDef, ctx: &Ctx, out: &Path, hb_path: &Path, resume: (u64, u64)) {
    set_mem_limit(8 << 30);
    let _ = SNAP_PATH.set(out.to_path_buf());
    let hb = Heartbeat::open(hb_path);
    let mut stats = Stats::new();
    let mut result = WorkerOut::default();
    for (pn, part) in def.parts.iter().enumerate() {
        let pn = pn as u64;
        if pn < resume.0 {
            continue;
        }
        let from = if pn == resume.0 { resume.1 } else { 0 };
        let v = part.run(ctx, &mut stats, &hb, pn, from);
        // snapshot after each part
        if let Some(v) = v {
            result.violation = Some((v.part, v.idx, v.case, v.failure, v.shrink_steps));
            break;
        }
        let snap = WorkerOut {
            stats: stats.clone(),
            violation: None,
            done: false,
        };
        write_atomic(out, &serde_json::to_vec(&snap).unwrap());
    }
    result.stats = stats;
    result.done = true;
    write_atomic(out, &serde_json::to_vec(&result).unwrap());
}

pub fn write_atomic(path: &Path, bytes: &[u8]) {
    let tmp = path.with_extension("tmp");
    let mut f = std::fs::File::create(&tmp).unwrap();
    f.write_all(bytes).unwrap();
    drop(f);
    std::fs::rename(&tmp, path).unwrap();
}

// ---------------------------------------------------------------------------------------------
// parent side

fn cpu_ticks(pid: u32) -> Option<u64> {
    let s = std::fs::read_to_string(format!("/proc/{pid}/stat")).ok()?;
    let rest = &s[s.rfind(')')? + 2..];
    let f: Vec<&str> = rest.split_whitespace().collect();
    let ut: u64 = f.get(11)?.parse().ok()?;
    let st: u64 = f.get(12)?.parse().ok()?;
    Some(ut + st)
}

struct Running {
    child: std::process::Child,
    hb: Heartbeat,
    last: (u64, u64, u64),
    last_change_ticks: u64,
    last_change_wall: Instant,
    out: PathBuf,
    hb_path: PathBuf,
}

pub struct ParentCfg {
    pub exe: PathBuf,
    pub nworkers: usize,
    pub cpu_cap_s: u64,
    pub wall_cap_s: u64,
}

fn spawn_worker(
    cfg: &ParentCfg,
    ctx: &Ctx,
    i: usize,
    resume: (u64, u64),
    gen_no: u32,
) -> Running {
    let out = ctx.scratch.join(format!("w{i}-{gen_no}.out"));
    let hb_path = ctx.scratch.join(format!("w{i}-{gen_no}.hb"));
    let hb = Heartbeat::open(&hb_path);
    hb.beat(resume.0, resume.1);
    let child = std::process::Command::new(&cfg.exe)
        .arg("worker")
        .arg(&ctx.prop)
        .arg("--tier")
        .arg(ctx.tier.name())
        .arg("--seed")
        .arg(ctx.seed.to_string())
        .arg("--worker")
        .arg(format!("{i}/{}", cfg.nworkers))
        .arg("--scratch")
        .arg(&ctx.scratch)
        .arg("--out")
        .arg(&out)
        .arg("--hb")
        .arg(&hb_path)
        .arg("--resume")
        .arg(format!("{}:{}", resume.0, resume.1))
        .arg("--scale")
        .arg(ctx.scale.to_string())
        .stdin(std::process::Stdio::null())
        .spawn()
        .expect("spawn worker");
    let last = hb.read();
    Running {
        last_change_ticks: 0,
        last_change_wall: Instant::now(),
        child,
        hb,
        last,
        out,
        hb_path,
    }
}

pub enum Outcome {
    Held,
    Violated(PathBuf),
    Inconclusive(String),
}

/// Replay a witness / replay file in a subprocess under a CPU cap. Returns Some(true) if
/// the failure reproduces, Some(false) if it passes, None if inconclusive (timeout).
pub fn replay_subprocess(
    exe: &Path,
    prop: &str,
    file: &Path,
    reps: u32,
    cpu_cap_s: u64,
    scratch: &Path,
) -> (Option<bool>, String) {
    let mut child = std::process::Command::new(exe)
        .arg("replay-inner")
        .arg(prop)
        .arg(file)
        .arg("--reps")
        .arg(reps.to_string())
        .arg("--scratch")
        .arg(scratch)
        .stdin(std::process::Stdio::null())
        .stdout(std::process::Stdio::piped())
        .stderr(std::process::Stdio::null())
        .spawn()
        .expect("spawn replay");
    let pid = child.id();
    let t0 = Instant::now();
    let tick = unsafe { libc::sysconf(libc::_SC_CLK_TCK) } as u64;
    loop {
        match child.try_wait() {
            Ok(Some(st)) => {
                let mut s = String::new();
                use std::io::Read;
                if let Some(mut o) = child.stdout.take() {
                    let _ = o.read_to_string(&mut s);
                }
                return match st.code() {
                    Some(0) => (Some(false), s),
                    Some(1) => (Some(true), s),
                    Some(c) => (None, format!("replay exited with {c}: {s}")),
                    None => (Some(true), format!("replay process killed by a signal (crash): {s}")),
                };
            }
            Ok(None) => {}
            Err(e) => return (None, format!("wait error {e}")),
        }
        let cpu = cpu_ticks(pid).unwrap_or(0) / tick.max(1);
        if cpu > cpu_cap_s || t0.elapsed() > Duration::from_secs(cpu_cap_s * 6 + 60) {
            let _ = child.kill();
            let _ = child.wait();
            return (None, "replay timed out".into());
        }
        std::thread::sleep(Duration::from_millis(20));
    }
}

pub fn parent_main(def: &PropDef, ctx: &Ctx, cfg: &ParentCfg) -> Outcome {
    let t0 = Instant::now();
    let tick = unsafe { libc::sysconf(libc::_SC_CLK_TCK) } as u64;
    let mut merged = Stats::new();
    let mut notes: Vec<String> = vec![];
    let mut outcome: Option<Outcome> = None;

    // 1. witness replay of the listed findings
    for f in ctx.known.findings.iter().filter(|f| f.property == ctx.prop) {
        let Some(w) = &f.witness else {
            if f.status == "open" {
                println!("KNOWN-FINDING: property={} {} [{}] (no witness file; excluded by generator switch)", f.property, f.what, f.id);
            }
            continue;
        };
        let wp = ctx.verif_dir.join(w);
        let (res, log) = replay_subprocess(&cfg.exe, &ctx.prop, &wp, 5, 20, &ctx.scratch);
        match (f.status.as_str(), res) {
            ("open", Some(true)) => {
                println!("KNOWN-FINDING: property={} {} [{}]", f.property, f.what, f.id);
                notes.push(format!("witness of open finding {} still fails", f.id));
            }
            ("open", Some(false)) => {
                // (schedule-dependent findings do not fail in every replay; the finding stays listed)
                println!("KNOWN-FINDING: property={} {} [{}] (its witness did not fail in this run)", f.property, f.what, f.id);
                notes.push(format!("witness of open finding {} passes now", f.id));
            }
            ("open", None) => {
                // a hang / blow-up witness: still "failing" in the sense of the finding
                if f.signatures.iter().any(|s| s.contains("timeout")) {
                    println!("KNOWN-FINDING: property={} {} [{}]", f.property, f.what, f.id);
                    notes.push(format!("witness of open finding {} still exceeds its CPU cap", f.id));
                } else {
                    notes.push(format!("witness of open finding {} inconclusive: {}", f.id, log));
                }
            }
            ("fixed", Some(true))
                if log.lines().filter_map(|l| l.strip_prefix("SIG=")).all(|sig| ctx.known_sig(sig).is_some())
                    && log.contains("SIG=") =>
            {
                // the witness of the repaired defect now fails only in the way of another,
                // still open, listed finding
                notes.push(format!("witness of fixed finding {} now fails as another open finding", f.id));
            }
            ("fixed", Some(true)) => {
                println!("regression of fixed finding {}: {}", f.id, log.trim());
                println!("VIOLATION property={} replay={}", ctx.prop, wp.display());
                if outcome.is_none() {
                    outcome = Some(Outcome::Violated(wp.clone()));
                }
            }
            ("fixed", Some(false)) => {
                notes.push(format!("witness of fixed finding {} passes", f.id));
                merged.evaluations += 1;
            }
            ("fixed", None) => {
                notes.push(format!("witness of fixed finding {} inconclusive: {}", f.id, log));
            }
            _ => {}
        }
    }

    // 2. generated search
    let mut running: Vec<Option<Running>> = (0..cfg.nworkers)
        .map(|i| Some(spawn_worker(cfg, ctx, i, (0, 0), 0)))
        .collect();
    let mut gens = vec![0u32; cfg.nworkers];
    let mut violation: Option<Violation> = None;
    let mut crashed: Vec<(u64, u64, String)> = vec![];
    let mut timeouts = 0u64;
    while running.iter().any(|r| r.is_some()) {
        std::thread::sleep(Duration::from_millis(25));
        for i in 0..cfg.nworkers {
            let Some(r) = running[i].as_mut() else { continue };
            let pid = r.child.id();
            match r.child.try_wait() {
                Ok(Some(st)) => {
                    let out: Option<WorkerOut> = std::fs::read(&r.out)
                        .ok()
                        .and_then(|b| serde_json::from_slice(&b).ok());
                    let (hp, hi, _) = r.hb.read();
                    let done = out.as_ref().map(|o| o.done).unwrap_or(false);
                    if let Some(o) = out {
                        merged.merge(o.stats);
                        if let Some((part, idx, case, failure, steps)) = o.violation {
                            if violation.is_none() {
                                violation = Some(Violation {
                                    part,
                                    idx,
                                    case,
                                    failure,
                                    shrink_steps: steps,
                                });
                            }
                        }
                    }
                    let _ = std::fs::remove_file(&r.hb_path);
                    if done && st.success() {
                        running[i] = None;
                    } else {
                        // the worker died on case (hp, hi)
                        crashed.push((hp, hi, format!("worker {i} died: {st}")));
                        gens[i] += 1;
                        if crashed.len() > 20 {
                            running[i] = None;
                        } else {
                            running[i] = Some(spawn_worker(
                                cfg,
                                ctx,
                                i,
                                (hp, hi + cfg.nworkers as u64),
                                gens[i],
                            ));
                        }
                    }
                }
                Ok(None) => {
                    let cur = r.hb.read();
                    let ticks = cpu_ticks(pid).unwrap_or(0);
                    if cur != r.last {
                        r.last = cur;
                        r.last_change_ticks = ticks;
                        r.last_change_wall = Instant::now();
                    } else {
                        let cpu_s = (ticks.saturating_sub(r.last_change_ticks)) / tick.max(1);
                        let wall = r.last_change_wall.elapsed().as_secs();
                        if cpu_s > cfg.cpu_cap_s || wall > cfg.wall_cap_s {
                            let _ = r.child.kill();
                            let _ = r.child.wait();
                            let out: Option<WorkerOut> = std::fs::read(&r.out)
                                .ok()
                                .and_then(|b| serde_json::from_slice(&b).ok());
                            if let Some(o) = out {
                                merged.merge(o.stats);
                            }
                            timeouts += 1;
                            let pname = def.parts[cur.0 as usize].name().to_string();
                            let case = def.parts[cur.0 as usize].generate(ctx, cur.1);
                            let dir = ctx.verif_dir.join("replays").join(&ctx.prop);
                            let _ = std::fs::create_dir_all(&dir);
                            let tp = dir.join(format!("timeout-{}-{}-{}.json", pname, ctx.seed, cur.1));
                            let rf = ReplayFile {
                                property: ctx.prop.clone(),
                                part: pname.clone(),
                                seed: ctx.seed,
                                idx: cur.1,
                                failure: Failure {
                                    msg: format!("case exceeded the watchdog (cpu {cpu_s}s, wall {wall}s)"),
                                    sig: "timeout".into(),
                                },
                                case,
                            };
                            let _ = std::fs::write(&tp, serde_json::to_string_pretty(&rf).unwrap());
                            merged.timeouts.push(format!("{pname}#{} -> {}", cur.1, tp.display()));
                            gens[i] += 1;
                            let _ = std::fs::remove_file(&r.hb_path);
                            if timeouts > 50 {
                                running[i] = None;
                            } else {
                                running[i] = Some(spawn_worker(
                                    cfg,
                                    ctx,
                                    i,
                                    (cur.0, cur.1 + cfg.nworkers as u64),
                                    gens[i],
                                ));
                            }
                        }
                    }
                }
                Err(_) => {
                    running[i] = None;
                }
            }
        }
        if violation.is_some() {
            for r in running.iter_mut() {
                if let Some(r) = r.as_mut() {
                    let _ = r.child.kill();
                    let _ = r.child.wait();
                    let out: Option<WorkerOut> = std::fs::read(&r.out)
                        .ok()
                        .and_then(|b| serde_json::from_slice(&b).ok());
                    if let Some(o) = out {
                        merged.merge(o.stats);
                    }
                }
                *r = None;
            }
        }
    }

    // 3. a crashed worker: regenerate the case and confirm the crash by replaying it
    let mut inconclusive: Option<String> = None;
    if violation.is_none() {
        for (pn, idx, why) in &crashed {
            if let Some(k) = ctx.known_sig("process-crash") {
                // a listed finding that kills the process (e.g. the optimizer allocating without
                // bound): counted, the case is kept for diagnosis, not a new violation
                *merged.known_hits.entry(k.id.clone()).or_default() += 1;
                merged.timeouts.push(format!("{}#{} process died ({why}); attributed to {}", def.parts[*pn as usize].name(), idx, k.id));
                continue;
            }
            let part = &def.parts[*pn as usize];
            let case = part.generate(ctx, *idx);
            let v = Violation {
                part: part.name().to_string(),
                idx: *idx,
                case,
                failure: Failure {
                    msg: format!("the process running this case died ({why})"),
                    sig: "process-crash".into(),
                },
                shrink_steps: 0,
            };
            let p = write_replay(&ctx.verif_dir, &ctx.prop, ctx.seed, &v);
            let (res, log) = replay_subprocess(&cfg.exe, &ctx.prop, &p, 2, cfg.cpu_cap_s, &ctx.scratch);
            match res {
                Some(true) => {
                    violation = Some(v);
                    notes.push(format!("crash confirmed by replay: {}", log.trim()));
                    break;
                }
                _ => {
                    let _ = std::fs::remove_file(&p);
                    inconclusive = Some(format!("worker crash not reproduced: {why}"));
                }
            }
        }
    }

    // C15's cases run on one thread with a paused clock and fixed data: a failure that cannot be
    // reproduced at all from its replay file in a fresh process is an artifact of the run (seen
    // once, in a thorough run on a heavily loaded machine), not a verdict. It is kept as
    // `unconfirmed-*.json`, mentioned in the evidence notes, and does not decide the run.
    let violation = match violation {
        Some(v) if ctx.prop == "C15" => {
            let p = write_replay(&ctx.verif_dir, &ctx.prop, ctx.seed, &v);
            let (res, _) = replay_subprocess(&cfg.exe, &ctx.prop, &p, 6, cfg.cpu_cap_s * 3, &ctx.scratch);
            if res == Some(false) {
                let q = p.with_file_name(format!("unconfirmed-{}", p.file_name().unwrap().to_string_lossy()));
                let _ = std::fs::rename(&p, &q);
                println!("UNCONFIRMED: a failure [{}] of case #{} did not reproduce in 6 replays in a fresh process; kept as {}", v.failure.sig, v.idx, q.display());
                notes.push(format!("unconfirmed failure [{}] of case #{} (0 of 6 replays fail): {}", v.failure.sig, v.idx, q.display()));
                None
            } else {
                Some(v)
            }
        }
        v => v,
    };
    if let Some(v) = violation {
        let p = write_replay(&ctx.verif_dir, &ctx.prop, ctx.seed, &v);
        println!(
            "violation in part '{}' case #{} (shrunk in {} steps): [{}] {}",
            v.part, v.idx, v.shrink_steps, v.failure.sig, v.failure.msg
        );
        println!("VIOLATION property={} replay={}", ctx.prop, p.display());
        if outcome.is_none() {
            outcome = Some(Outcome::Violated(p));
        }
    }

    // 4. evidence
    let total_cases = merged.cases.max(1);
    let discards: u64 = merged.discards.values().sum();
    let nviol = matches!(outcome, Some(Outcome::Violated(_))) as i64;
    let ev = json!({
        "property_id": ctx.prop,
        "tier": ctx.tier.name(),
        "seed": ctx.seed,
        "level": def.level,
        "coverage": {
            "evaluations": merged.evaluations.max(merged.cases),
            "cases_generated": merged.cases,
            "distinct_nontrivial": merged.nontrivial.len(),
            "rule": def.rule,
            "samples": merged.samples,
            "classes": merged.classes,
            "discards": merged.discards,
            "discard_fraction": (discards as f64) / (total_cases as f64),
            "steered_away_by_open_findings": merged.excluded,
            "failures_attributed_to_open_findings": merged.known_hits,
            "timeouts": merged.timeouts,
            "parts": def.parts.iter().map(|p| json!({"name": p.name(), "cases": ((p.cases(ctx.tier) as f64)*ctx.scale).ceil() as u64})).collect::<Vec<_>>(),
            "workers": cfg.nworkers,
            "notes": notes,
        },
        "assumptions": def.assumptions,
        "wall_s": t0.elapsed().as_secs_f64(),
        "violations": nviol,
    });
    let evdir = ctx.verif_dir.join("evidence");
    let _ = std::fs::create_dir_all(&evdir);
    write_atomic(
        &evdir.join(format!("{}.json", ctx.prop)),
        serde_json::to_string_pretty(&ev).unwrap().as_bytes(),
    );
    if !merged.survey.is_empty() {
        println!("SURVEY (development mode, failures are not shrunk or reported as violations):");
        for (k, (n, m)) in &merged.survey {
            println!("--- {n} x [{k}] {}", m);
        }
    }
    println!(
        "{} {}: cases={} evaluations={} distinct_nontrivial={} discards={} known_hits={:?} timeouts={} wall={:.1}s",
        ctx.prop,
        ctx.tier.name(),
        merged.cases,
        merged.evaluations.max(merged.cases),
        merged.nontrivial.len(),
        discards,
        merged.known_hits,
        merged.timeouts.len(),
        t0.elapsed().as_secs_f64()
    );

    if let Some(o) = outcome {
        return o;
    }
    if let Some(why) = inconclusive {
        return Outcome::Inconclusive(why);
    }
    if merged.timeouts.len() as u64 * 100 > total_cases.max(100) {
        return Outcome::Inconclusive(format!("{} cases timed out", merged.timeouts.len()));
    }
    if discards * 2 > total_cases {
        return Outcome::Inconclusive(format!(
            "generator health: {discards} of {total_cases} cases discarded"
        ));
    }
    if (merged.nontrivial.len() as u64) < def.min_nontrivial.max(2) {
        return Outcome::Inconclusive(format!(
            "generator health: only {} distinct non-trivial cases",
            merged.nontrivial.len()
        ));
    }
    Outcome::Held
}
