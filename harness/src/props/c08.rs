//! C08 — readers see a stable snapshot and their files are never removed (DESIGN §5.8).
//!
//! A case is a workload (tables with several row-sets and delete vectors, writer sessions
//! with INSERT / DELETE / DROP TABLE, readers, clock advances) plus a choice vector that drives
//! the owned scheduler of `sched.rs` through the gates in commit, compaction, vacuum and DDL.
//! Readers are driven through the public storage API: open (= pin + scan), one `next_batch` per
//! step, close (iterator dropped, then the transaction).
//!
//! Oracle:
//!  (1) the rows a reader returns are the rows of the table model at the moment of its open
//!      step (= initial rows + the statements whose new version was installed before);
//!  (2) no reader step returns an error or panics, and the vacuum never finds a row-set "still
//!      being used";
//!  (3) whenever the vacuum announces the removal of a row-set, no pinned version contains it;
//!  (4) at the end (nothing pinned, two more compactor passes) no deletion is left unapplied and
//!      — real directory — the row-set directories are exactly those of the current version.

use std::collections::BTreeSet;

use proptest::prelude::*;

use super::sched::*;
use crate::engine::*;
use crate::gens::tape::{Tape, tape_strategy};
use crate::sqlrun::*;

pub const AVOID_SWITCH: &str = "gen.c09.delete_overlapping_compaction";
pub const DROP_SWITCH: &str = "gen.c08.drop_overlapping_compaction";

fn strat(ctx: &Ctx) -> impl Strategy<Value = Workload> + use<> {
    let avoid = ctx.off(AVOID_SWITCH);
    let avoid_drop = ctx.off(DROP_SWITCH);
    (tape_strategy(96), tape_strategy(160), sched_disk_strategy()).prop_map(move |(wt, choices, disk)| {
        let p = GenParams {
            tables: (1, 2),
            sessions: (1, 3),
            stmts: (1, 3),
            readers: (1, 3),
            ticks: (1, 3),
            allow_drop: true,
            avoid,
            avoid_drop,
            allow_reopen: false,
            overlap_deletes: false,
        };
        gen_workload(&mut Tape::new(&wt), &p, disk, choices)
    })
}

/// Statements whose version was installed before trace position `seq`, in commit order.
fn committed_before(run: &Run, seq: u64) -> Vec<&Stmt> {
    let mut v: Vec<(u64, &Stmt)> =
        run.stmts.iter().filter_map(|s| s.commit_seq.filter(|c| *c < seq).map(|c| (c, &s.stmt))).collect();
    v.sort_by_key(|x| x.0);
    v.into_iter().map(|x| x.1).collect()
}

fn id_of(r: &Row) -> i64 {
    match r.first() {
        Some(Val::Int(i)) => *i,
        _ => i64::MIN,
    }
}

/// Why is a row that the model does not have in the reader's result / missing from it?
fn classify_row(w: &Workload, run: &Run, t: usize, open: u64, id: i64, extra: bool) -> &'static str {
    for s in &run.stmts {
        let hit = match &s.stmt {
            Stmt::Insert { t: tt, rows } => *tt == t && rows.iter().any(|r| r.0 as i64 == id),
            Stmt::Delete { t: tt, ids, .. } => *tt == t && ids.iter().any(|i| *i as i64 == id),
            _ => false,
        };
        if !hit {
            continue;
        }
        let before = s.commit_seq.is_some_and(|c| c < open);
        match (&s.stmt, extra, before) {
            (Stmt::Delete { .. }, true, true) => return "row-deleted-before-open-returned",
            (Stmt::Insert { .. }, true, false) => return "row-committed-after-open-returned",
            (Stmt::Delete { .. }, false, false) => return "row-deleted-after-open-missing",
            (Stmt::Insert { .. }, false, true) => return "row-committed-before-open-missing",
            _ => {}
        }
    }
    if w.tables[t].init_delete.iter().any(|i| *i as i64 == id) && extra {
        return "row-deleted-before-open-returned";
    }
    if extra { "unknown-row-returned" } else { "initial-row-missing" }
}

/// The history pattern of the open finding F-C08-drop-overlaps-compaction: a DROP TABLE was in
/// flight while a compactor pass that had pinned its snapshot still had that table before it.
fn drop_overlaps_compaction(run: &Run) -> bool {
    run.stmts.iter().any(|s| match (&s.stmt, s.start_seq) {
        (Stmt::Drop { t }, Some(from)) => {
            let to = s.finish_seq.unwrap_or(u64::MAX);
            run.passes.iter().any(|p| p.overlaps(run.table_ids[*t], from, to))
        }
        _ => false,
    })
}

fn judge(w: &Workload, run: &Run, st: &mut Stats) -> Verdict {
    // crashes of the background tasks and what they leave behind carry the history pattern in
    // their signature (snapshot and unlink-rule violations never do)
    let pat = drop_overlaps_compaction(run);
    let bg = |sig: String| if pat { sig.replacen("c08:", "c08:drop-overlaps-compaction-of-same-table:", 1) } else { sig };
    if pat {
        st.class("drop-overlaps-compaction-of-same-table");
    }
    let ctxt = |run: &Run| format!("\n  trace: {}\n  panics: {:?}", fmt_trace(run, 400), run.panics);
    if let Some(e) = &run.setup_error {
        return fail("c08:setup", format!("loading the tables failed: {e}"));
    }
    // ---- classes / non-triviality
    st.class(if w.disk.inmem { "io-inmem" } else { "io-real-directory" });
    let mut fp: Vec<(bool, Vec<&'static str>)> = vec![];
    for (i, r) in run.readers.iter().enumerate() {
        let Some(open) = r.open_seq else {
            st.class(if r.no_table { "reader-open-after-drop" } else { "reader-never-opened" });
            continue;
        };
        let close = r.close_seq.unwrap_or(u64::MAX);
        // the last step of the reader that touched data
        let last_step = (run.trace.iter())
            .filter(|e| e.actor == Actor::Reader(i) && matches!(e.kind, EvKind::Reader { what } if what != "open"))
            .map(|e| e.seq)
            .max()
            .unwrap_or(open);
        let mut kinds: Vec<&'static str> = vec![];
        for ev in run.trace.iter().filter(|e| e.seq > open && e.seq < last_step) {
            let k = match (&ev.actor, &ev.kind) {
                (Actor::Stmt(k), EvKind::Arrive { gate, .. }) if run.stmts[*k].commit_seq == Some(ev.seq) && gate.as_str() != "" => {
                    match run.stmts[*k].stmt {
                        Stmt::Insert { .. } => "insert-commit",
                        Stmt::Delete { .. } => "delete-commit",
                        Stmt::Drop { .. } => "drop-commit",
                    }
                }
                (_, EvKind::Event { kind, .. }) if kind == "compaction.commit" => "compaction-commit",
                (_, EvKind::Event { kind, .. }) if kind == "vacuum.rowset" => "vacuum",
                _ => continue,
            };
            kinds.push(k);
        }
        for k in kinds.iter().collect::<BTreeSet<_>>() {
            st.class(&format!("reader-step-after-{k}"));
        }
        st.class(if r.exhausted { "reader-exhausted" } else { "reader-closed-early" });
        if r.batches >= 2 {
            st.class("reader-multi-batch");
        }
        // a compaction of the reader's table committed while it was open, and the vacuum of the
        // replaced row-sets happened only after it closed
        let tid = run.table_ids[w.readers[i].t];
        let compacted_while_open = run.compactions.iter().any(|c| c.table == tid && c.commit_seq > open && c.commit_seq < close);
        if compacted_while_open {
            st.class("reader-table-compacted-while-open");
            // … and the pass ended (its unpin wakes the vacuum) while the reader still held its pin
            let pass_ended_while_open = run.passes.iter().any(|p| {
                p.end_seq.is_some_and(|e| e > open && e < close)
                    && run.compactions.iter().any(|c| c.table == tid && c.pin_seq == p.pin_seq && c.commit_seq > open)
            });
            if pass_ended_while_open {
                st.class("vacuum-woken-while-reader-pins-replaced-rowsets");
            }
            let vac_after = run.trace.iter().any(|e| e.seq > close && matches!(&e.kind, EvKind::Event { kind, .. } if kind == "vacuum.rowset"));
            if vac_after {
                st.class("vacuum-deferred-until-reader-closed");
            }
        }
        if !kinds.is_empty() {
            kinds.truncate(10);
            fp.push((w.readers[i].sorted, kinds));
        }
    }
    // two readers open at the same time on different versions
    let opens: Vec<(u64, u64)> = run.readers.iter().filter_map(|r| Some((r.open_seq?, r.close_seq.unwrap_or(u64::MAX)))).collect();
    let commits: Vec<u64> = (run.stmts.iter().filter_map(|s| s.commit_seq)).chain(run.compactions.iter().map(|c| c.commit_seq)).collect();
    if opens.iter().any(|a| opens.iter().any(|b| a.0 < b.0 && b.0 < a.1 && commits.iter().any(|c| a.0 < *c && *c < b.0))) {
        st.class("readers-pin-different-versions-concurrently");
    }
    if !fp.is_empty() {
        st.nontrivial((w.tables.len(), w.disk.inmem, fp));
    }
    if run.stmts.iter().any(|s| matches!(s.out, Some(Out::Failed(_)) | Some(Out::Panicked(_)))) {
        st.class("writer-statement-failed");
    }
    if run.stmts.iter().any(|s| matches!(s.out, Some(Out::Rejected(_)))) {
        st.class("writer-rejected-after-drop");
    }
    if run.drained > 0 {
        st.class("choice-vector-exhausted");
    }
    if w.avoid && w.sessions.iter().flatten().any(|s| s.is_delete()) {
        st.excluded(AVOID_SWITCH);
    }
    if w.avoid_drop && w.sessions.iter().flatten().any(|s| matches!(s, Stmt::Drop { .. })) {
        st.excluded(DROP_SWITCH);
    }

    // ---- (3) unlink rule
    if let Some((sig, msg)) = run.unlink_violations.first() {
        return fail(sig.clone(), format!("{msg}{}", ctxt(run)));
    }
    if let Some(p) = &run.compactor_died {
        return fail(bg(format!("c08:compactor-died:{}", psig(p))), format!("the compactor task panicked inside a pass: {p}{}", ctxt(run)));
    }
    // ---- deadlock (proved)
    if let Some(d) = &run.deadlock {
        return fail("c08:deadlock", format!("{d}{}", ctxt(run)));
    }
    // ---- (2) reader errors
    for (i, r) in run.readers.iter().enumerate() {
        if let Some(e) = r.errors.first() {
            let sig = if let Some(p) = e.strip_prefix("panic: ") {
                bg(format!("c08:reader-panic:{}", psig(p)))
            } else {
                format!("c08:reader-error:{}", e.split(':').next().unwrap_or(""))
            };
            return fail(sig, format!("reader {i} on {}: {e}{}", w.tables[w.readers[i].t].name, ctxt(run)));
        }
        if r.no_table {
            let t = w.readers[i].t;
            let at = run.trace.iter().find(|e| e.actor == Actor::Reader(i)).map(|e| e.seq).unwrap_or(0);
            let dropped = run.stmts.iter().any(|s| matches!(s.stmt, Stmt::Drop { t: tt } if tt == t) && s.applied_seq.is_some_and(|a| a < at));
            if !dropped {
                return fail("c08:reader-open:table-not-found", format!("reader {i}: table {} not found although no DROP was applied{}", w.tables[t].name, ctxt(run)));
            }
        }
    }
    // the vacuum's own assertion that nobody uses the row-set it removes
    if let Some(p) = run.panics.iter().find(|p| p.contains("is still being used")) {
        return fail("c08:vacuum-panic:rowset-still-being-used", format!("{p}{}", ctxt(run)));
    }
    if let Some(p) = run.panics.first() {
        return fail(bg(format!("c08:panic:{}", psig(p))), format!("a task panicked during the schedule: {p}{}", ctxt(run)));
    }
    // ---- (1) snapshot
    for (i, r) in run.readers.iter().enumerate() {
        let Some(open) = r.open_seq else { continue };
        let t = w.readers[i].t;
        let model = model_rows(w, t, &committed_before(run, open));
        let got = sorted(r.rows.clone());
        let mut extra: Vec<Row> = vec![];
        let mut rest = model.clone();
        for row in &got {
            match rest.iter().position(|m| m == row) {
                Some(p) => {
                    rest.remove(p);
                }
                None => extra.push(row.clone()),
            }
        }
        let describe = |what: &str, row: &Row, cls: &str| {
            format!(
                "reader {i} on {} (sorted={}, opened at step {open}, {}): {what} {} [{cls}]\n  returned {}\n  model at open {}{}",
                w.tables[t].name,
                w.readers[i].sorted,
                if r.exhausted { "read to the end" } else { "closed early" },
                fmt_rows(std::slice::from_ref(row)),
                fmt_rows(&got),
                fmt_rows(&model),
                ctxt(run)
            )
        };
        if let Some(row) = extra.first() {
            let dup = model.contains(row);
            let cls = if dup { "row-returned-twice" } else { classify_row(w, run, t, open, id_of(row), true) };
            return fail(format!("c08:snapshot:{cls}"), describe("returned a row that was not committed at its open step:", row, cls));
        }
        if r.exhausted {
            if let Some(row) = rest.first() {
                let cls = classify_row(w, run, t, open, id_of(row), false);
                return fail(format!("c08:snapshot:{cls}"), describe("did not return the committed row", row, cls));
            }
        }
    }
    // ---- (4) end state
    {
        if let Some((e, v)) = run.end.pending.first() {
            return fail(
                bg("c08:end:deletions-never-applied".into()),
                format!("nothing is pinned and two more compactor passes ran, but the row-sets {v:?} deleted in epoch {e} were never vacuumed{}", ctxt(run)),
            );
        }
        if let Some((dirs, live)) = &run.end.dirs {
            if let Some(m) = live.difference(dirs).next() {
                return fail("c08:end:live-rowset-dir-missing", format!("row-set {m:?} of the current version has no directory; on disk {dirs:?}, live {live:?}{}", ctxt(run)));
            }
            if let Some(m) = dirs.difference(live).next() {
                return fail(bg("c08:end:dead-rowset-dir-left".into()), format!("directory of row-set {m:?} is still on disk although no version contains it; on disk {dirs:?}, live {live:?}{}", ctxt(run)));
            }
        }
    }
    Verdict::Pass
}

fn test(ctx: &Ctx, w: &Workload, st: &mut Stats) -> Verdict {
    let run = run_workload(ctx, w, "c08");
    st.evals(1 + run.readers.iter().map(|r| r.batches as u64).sum::<u64>());
    judge(w, &run, st)
}

pub fn def() -> PropDef {
    PropDef {
        id: "C08",
        level: "exploration",
        rule: "tape-generated workload (1-2 tables with 1-4 row-sets and delete vectors, 1-3 writer sessions of INSERT/DELETE/DROP, 1-3 readers, 1-3 compactor passes; in-memory I/O in 3 of 4, real directory else) + a 160-element choice vector driving the owned scheduler over the parking subset of 15 gates; non-trivial = a reader performs a step after a commit / compaction commit / vacuum that followed its open; distinct by (tables, I/O backend, per reader: sorted flag + sequence of overlapped event kinds)",
        assumptions: vec![
            "interleavings are explored at gate granularity on one thread (no data races)",
            "a statement's version is installed immediately before it reaches gate txn.commit.after_changes (no await in between)",
            "quiescence is read from the tokio runtime metrics (run queues empty, blocking pool idle)",
        ],
        min_nontrivial: 50,
        parts: vec![part("schedules", 40_000, 800_000, strat, test)],
    }
}
