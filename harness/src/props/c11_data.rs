//! C11 support: generated tables (compact encoding -> typed rows -> chunks in an in-memory
//! storage), programmatic physical plans, plan execution with panic capture.
use std::panic::AssertUnwindSafe;
use std::sync::Arc;

use egg::Id;
use futures::{FutureExt, TryStreamExt};
use proptest::prelude::*;
use risinglight::array::{DataChunk, DataChunkBuilder};
use risinglight::binder::Binder;
use risinglight::catalog::{ColumnRefId, TableRefId};
use risinglight::parser::parse;
use risinglight::planner::{Config, Expr, Optimizer, RecExpr, Statistics};
use risinglight::storage::{InMemoryStorage, Storage, Table, Transaction};
use risinglight::types::{DataType, DataValue};
use serde::{Deserialize, Serialize};

use crate::sqlrun::{Row, Val, take_panics};

/// Columns of every generated table: k0 k1 k2 (typed keys), v INT, u BIGINT, w INT (filter flag).
pub const NCOL: usize = 6;
pub const V: usize = 3;
pub const U: usize = 4;
pub const W: usize = 5;
pub const COLN: [&str; NCOL] = ["k0", "k1", "k2", "v", "u", "w"];

#[derive(Clone, Copy, Debug, PartialEq, Eq, Hash, Serialize, Deserialize)]
pub enum Ty {
    Small,
    Int,
    Big,
    Str,
    Bool,
}

impl Ty {
    pub fn sql(self) -> &'static str {
        match self {
            Ty::Small => "smallint",
            Ty::Int => "int",
            Ty::Big => "bigint",
            Ty::Str => "varchar",
            Ty::Bool => "boolean",
        }
    }
    pub fn is_int(self) -> bool {
        matches!(self, Ty::Small | Ty::Int | Ty::Big)
    }
    fn data_type(self) -> DataType {
        match self {
            Ty::Small => DataType::Int16,
            Ty::Int => DataType::Int32,
            Ty::Big => DataType::Int64,
            Ty::Str => DataType::String,
            Ty::Bool => DataType::Bool,
        }
    }
}

/// Compact table: a cell is a u16 `x` (NULL iff `x % 256 + nullp >= 256`, else domain index
/// `x * card >> 16`), so that shrinking moves towards the first, simplest domain value.
#[derive(Clone, Debug, Serialize, Deserialize)]
pub struct TabData {
    /// number of distinct domain indices per key column (1 = all keys equal)
    pub card: [u16; 3],
    /// NULL probability per key column in 1/256 (256 = all NULL)
    pub nullp: [u16; 3],
    pub vcard: u16,
    pub vnull: u16,
    /// chunk sizes (1..=1024), used cyclically: the table scan emits exactly these chunks
    pub cuts: Vec<u16>,
    /// put `filter (> w 0)` on top of the scan (irregular and empty chunks)
    pub flt: bool,
    /// k0 = row position (unique ascending keys; #groups = #rows) instead of the cell value
    #[serde(default)]
    pub seq: bool,
    pub rows: Vec<[u16; NCOL]>,
}

const SMALL: [i64; 12] = [0, 1, -1, 2, 3, 7, 100, -100, 32767, -32768, 32766, -32767];
const INT: [i64; 14] = [
    0, 1, -1, 2, 3, 7, 100, -100, 2147483647, -2147483648, 32767, -32768, 65536, 2147483646,
];
const BIG: [i64; 15] = [
    0,
    1,
    -1,
    2,
    3,
    7,
    100,
    -100,
    2147483647,
    -2147483648,
    i64::MAX,
    i64::MIN,
    2147483648,
    -2147483649,
    1 << 32,
];
const STR: [&str; 13] = ["", "a", "b", "ab", "A", "a b", "é", "aa", "B", "0", "1", " ", "abc"];
const PAY: [i64; 8] = [0, 1, -1, 2, 3, 5, 10, -7];

fn dom(ty: Ty, idx: usize) -> Val {
    // beyond the boundary-biased list: distinct values that collide with no list entry
    let pick = |l: &[i64]| Val::Int(l.get(idx).copied().unwrap_or(1000 + idx as i64));
    match ty {
        Ty::Small => pick(&SMALL),
        Ty::Int => pick(&INT),
        Ty::Big => pick(&BIG),
        Ty::Str => Val::Str(STR.get(idx).map(|s| s.to_string()).unwrap_or_else(|| format!("s{idx}"))),
        Ty::Bool => Val::Bool(idx & 1 == 1),
    }
}

fn cell(x: u16, card: u16, nullp: u16) -> Option<usize> {
    if (x & 255) + nullp >= 256 {
        return None;
    }
    Some(x as usize * card.max(1) as usize >> 16)
}

/// A materialised table.
pub struct Mat {
    pub tys: [Ty; NCOL],
    /// all stored rows
    pub rows: Vec<Row>,
    /// the rows the operator sees (after the optional filter)
    pub live: Vec<Row>,
    /// stored chunks as row ranges
    pub chunks: Vec<(usize, usize)>,
    pub flt: bool,
    /// number of chunks delivered to the operator that still hold rows / hold no row
    pub live_chunks: usize,
    pub empty_chunks: usize,
}

pub fn materialise(t: &TabData, kt: [Ty; 3]) -> Mat {
    let tys = [kt[0], kt[1], kt[2], Ty::Int, Ty::Big, Ty::Int];
    let rows: Vec<Row> = t
        .rows
        .iter()
        .enumerate()
        .map(|(pos, r)| {
            let mut out = Vec::with_capacity(NCOL);
            for j in 0..3 {
                let c = cell(r[j], t.card[j], t.nullp[j]).map(|i| if t.seq && j == 0 { pos } else { i });
                out.push(c.map(|i| dom(kt[j], i)).unwrap_or(Val::Null));
            }
            for j in [V, U] {
                out.push(
                    cell(r[j], t.vcard, t.vnull)
                        .map(|i| Val::Int(PAY.get(i).copied().unwrap_or(i as i64 - 100)))
                        .unwrap_or(Val::Null),
                );
            }
            out.push(Val::Int((r[W] >= 0x4000) as i64));
            out
        })
        .collect();
    let mut chunks = vec![];
    let (mut at, mut k) = (0, 0);
    while at < rows.len() {
        let c = (t.cuts.get(k % t.cuts.len().max(1)).copied().unwrap_or(1024).clamp(1, 1024)) as usize;
        let end = (at + c).min(rows.len());
        chunks.push((at, end));
        at = end;
        k += 1;
    }
    let keep = |r: &Row| !t.flt || r[W] == Val::Int(1);
    let live: Vec<Row> = rows.iter().filter(|r| keep(r)).cloned().collect();
    let live_chunks = chunks.iter().filter(|(a, b)| rows[*a..*b].iter().any(keep)).count();
    Mat {
        tys,
        live,
        flt: t.flt,
        live_chunks,
        empty_chunks: chunks.len() - live_chunks,
        rows,
        chunks,
    }
}

fn dv(v: &Val, ty: Ty) -> DataValue {
    match (v, ty) {
        (Val::Null, _) => DataValue::Null,
        (Val::Int(i), Ty::Small) => DataValue::Int16(*i as i16),
        (Val::Int(i), Ty::Int) => DataValue::Int32(*i as i32),
        (Val::Int(i), Ty::Big) => DataValue::Int64(*i),
        (Val::Str(s), _) => DataValue::String(s.as_str().into()),
        (Val::Bool(b), _) => DataValue::Bool(*b),
        _ => unreachable!("cell/type mismatch"),
    }
}

pub fn rows_of(chunks: &[DataChunk]) -> Vec<Row> {
    let mut out = vec![];
    for c in chunks {
        for r in c.rows() {
            out.push(r.values().map(|v| Val::from_dv(&v)).collect());
        }
    }
    out
}

/// Result of running one physical plan.
pub enum Outc {
    Rows(Vec<Row>),
    Failed(String),
    Panicked(String),
}

/// A private in-memory storage with the generated tables.
pub struct Env {
    pub st: Arc<InMemoryStorage>,
}

impl Env {
    pub fn new() -> Env {
        Env { st: Arc::new(InMemoryStorage::new()) }
    }
    fn optimizer(&self) -> Optimizer {
        Optimizer::new(self.st.catalog().clone(), Statistics::default(), Config::default())
    }
    /// `create table` through parser + binder + executor (what `Database::run` does), then
    /// append the chunks through the storage API so that chunk boundaries are as generated.
    pub async fn create(&self, name: &str, m: &Mat) -> Result<TableRefId, String> {
        let cols: Vec<String> = (0..NCOL).map(|j| format!("{} {}", COLN[j], m.tys[j].sql())).collect();
        let sql = format!("create table {name}({})", cols.join(", "));
        for stmt in parse(&sql).map_err(|e| e.to_string())? {
            let plan = Binder::new(self.st.catalog().clone()).bind(stmt).map_err(|e| e.to_string())?;
            let ex = risinglight::executor::build(self.optimizer(), self.st.clone(), &plan);
            let _: Vec<DataChunk> = ex.try_collect().await.map_err(|e| e.to_string())?;
        }
        let tid = self.st.catalog().get_table_id_by_name("postgres", name).ok_or("table not created")?;
        let table = self.st.get_table(tid).map_err(|e| e.to_string())?;
        let types: Vec<DataType> = m.tys.iter().map(|t| t.data_type()).collect();
        let mut txn = table.write().await.map_err(|e| e.to_string())?;
        for (a, b) in &m.chunks {
            let mut bld = DataChunkBuilder::unbounded(&types);
            for r in &m.rows[*a..*b] {
                let _ = bld.push_row(r.iter().zip(m.tys).map(|(v, t)| dv(v, t)));
            }
            if let Some(c) = bld.take() {
                txn.append(c).await.map_err(|e| e.to_string())?;
            }
        }
        txn.commit().await.map_err(|e| e.to_string())?;
        Ok(tid)
    }
    /// Build the executor for a hand-built plan and drain it. A panic of `build`, of the stream or
    /// of any spawned operator task (which the consumer only sees as end of input) is reported.
    pub async fn run(&self, plan: &RecExpr) -> Outc {
        let _ = take_panics();
        let fut = async {
            risinglight::executor::build(self.optimizer(), self.st.clone(), plan)
                .try_collect::<Vec<DataChunk>>()
                .await
        };
        let r = AssertUnwindSafe(fut).catch_unwind().await;
        // let aborted operator tasks finish unwinding before the next plan runs
        tokio::task::yield_now().await;
        let panics = take_panics();
        match r {
            Err(_) => Outc::Panicked(panics.first().cloned().unwrap_or_else(|| "panic".into())),
            Ok(_) if !panics.is_empty() => Outc::Panicked(panics[0].clone()),
            Ok(Err(e)) => Outc::Failed(e.to_string()),
            Ok(Ok(chunks)) => Outc::Rows(rows_of(&chunks)),
        }
    }
}

/// Programmatic plan construction.
#[derive(Default)]
pub struct Pb {
    pub e: RecExpr,
}

impl Pb {
    pub fn add(&mut self, n: Expr) -> Id {
        self.e.add(n)
    }
    pub fn list(&mut self, ids: Vec<Id>) -> Id {
        self.add(Expr::List(ids.into()))
    }
    pub fn col(&mut self, t: TableRefId, c: usize) -> Id {
        self.add(Expr::Column(ColumnRefId::from_table(t, 0, c as u32)))
    }
    pub fn int(&mut self, i: i32) -> Id {
        self.add(Expr::Constant(DataValue::Int32(i)))
    }
    pub fn tru(&mut self) -> Id {
        self.add(Expr::true_())
    }
    /// `(scan $t (list all columns) true)`, optionally under `(filter (> $t.w 0) ..)`.
    pub fn input(&mut self, t: TableRefId, flt: bool) -> Id {
        let tn = self.add(Expr::Table(t));
        let cols = (0..NCOL).map(|c| self.col(t, c)).collect();
        let cols = self.list(cols);
        let tr = self.tru();
        let scan = self.add(Expr::Scan([tn, cols, tr]));
        if !flt {
            return scan;
        }
        let (w, z) = (self.col(t, W), self.int(0));
        let c = self.add(Expr::Gt([w, z]));
        self.add(Expr::Filter([c, scan]))
    }
    pub fn order(&mut self, keys: Vec<Id>, child: Id) -> Id {
        let k = self.list(keys);
        self.add(Expr::Order([k, child]))
    }
    pub fn finish(self) -> RecExpr {
        self.e
    }
}

// ---------------------------------------------------------------------------------------------
// strategies

fn rowvec(r: std::ops::RangeInclusive<usize>) -> BoxedStrategy<Vec<[u16; NCOL]>> {
    prop::collection::vec(prop::array::uniform6(any::<u16>()), r).boxed()
}

/// 0..2500 rows, skewed small; ~16 % exceed one 1024-row chunk.
pub fn tab_strategy() -> impl Strategy<Value = TabData> {
    let rows = prop_oneof![
        8 => rowvec(0..=0),
        28 => rowvec(1..=8),
        30 => rowvec(9..=64),
        14 => rowvec(65..=1000),
        5 => rowvec(1022..=1027),
        4 => rowvec(1024..=1024),
        2 => rowvec(2040..=2060),
        1 => rowvec(2048..=2048),
        8 => rowvec(1028..=2500),
    ];
    let card = || prop::sample::select(vec![1u16, 1, 2, 2, 2, 3, 3, 3, 6, 6, 6, 6, 16, 16, 16, 64, 64, 250, 250, 4000, 4000]);
    let nullp = || prop::sample::select(vec![0u16, 0, 0, 0, 10, 10, 60, 60, 128, 256]);
    (
        prop::array::uniform3(card()),
        prop::array::uniform3(nullp()),
        prop::sample::select(vec![2u16, 8, 8, 200]),
        nullp(),
        prop::collection::vec(prop::sample::select(vec![1u16, 2, 7, 100, 1000, 1023, 1024, 1024, 1024, 1024]), 1..=3),
        prop::bool::weighted(0.25),
        prop::bool::weighted(0.2),
        rows,
    )
        .prop_map(|(card, nullp, vcard, vnull, cuts, flt, seq, rows)| TabData { card, nullp, vcard, vnull, cuts, flt, seq, rows })
}

pub fn ty_strategy() -> impl Strategy<Value = Ty> {
    prop::sample::select(vec![Ty::Int, Ty::Int, Ty::Int, Ty::Big, Ty::Big, Ty::Str, Ty::Str, Ty::Bool, Ty::Small])
}
