#!/bin/bash
# tools/mk_kit.sh <name>: scratch worktree of /repo + private copy of the harness pointing at it.
set -e
N=$1
git -C /repo worktree add --detach /tmp/wt_$N HEAD >/dev/null 2>&1
mkdir -p /tmp/hk_$N
rsync -a --exclude target-build.log /verif/harness/ /tmp/hk_$N/
sed -i "s#path = \"/repo\"#path = \"/tmp/wt_$N\"#; s#path = \"/repo/proto\"#path = \"/tmp/wt_$N/proto\"#" /tmp/hk_$N/Cargo.toml
mkdir -p /tmp/hk_$N/vdir/findings
echo '{"findings":[]}' > /tmp/hk_$N/vdir/known_findings.json
cp /verif/properties.jsonl /verif/DESIGN.md /tmp/hk_$N/vdir/
echo "kit ready: /tmp/hk_$N (harness), /tmp/wt_$N (risinglight worktree)"
