//! Histories over a real database directory, shared by C03 and C07: tape-driven generator (one
//! fixed tape slot per op, so the tape shrinker can delete single ops), table model with a
//! three-valued predicate interpreter, and the interpreter that runs a history against the
//! database and the model.

use std::collections::{BTreeMap, BTreeSet};
use std::path::Path;
use std::sync::{Arc, Mutex};

use proptest::prelude::*;
use risinglight::Database;
use serde::{Deserialize, Serialize};

use crate::engine::*;
use crate::gens::sql::{ColDef, TableDef, Ty, insert_sql, lit};
use crate::gens::tape::{Tape, tape_strategy};
use crate::sqlrun::*;

// ---------------------------------------------------------------------------------------------
// case

#[derive(Clone, Copy, Debug, PartialEq, Eq, Hash, Serialize, Deserialize)]
pub enum Cmp {
    Eq,
    Ne,
    Lt,
    Le,
    Gt,
    Ge,
}

#[derive(Clone, Debug, PartialEq, Eq, Hash, Serialize, Deserialize)]
pub enum Pred {
    True,
    Cmp(String, Cmp, Val),
    /// (column, negated): `c IS [NOT] NULL`
    IsNull(String, bool),
    And(Box<Pred>, Box<Pred>),
    Or(Box<Pred>, Box<Pred>),
}

#[derive(Clone, Debug, PartialEq, Eq, Serialize, Deserialize)]
pub enum Op {
    CreateTable(TableDef),
    DropTable(String),
    CreateView { name: String, table: String, cols: Vec<String> },
    DropView(String),
    CreateIndex { name: String, table: String, col: String },
    CreateFunction(String),
    Insert { table: String, rows: Vec<Row> },
    /// `None` = no WHERE clause
    Delete { table: String, pred: Option<Pred> },
    /// advance the paused clock by 1.1 s: one compactor pass + vacuum
    Tick,
    /// shutdown + open the same directory
    Reopen,
}

#[derive(Clone, Debug, Serialize, Deserialize)]
pub struct HistCase {
    pub cfg: DiskCfg,
    pub ops: Vec<Op>,
    /// generator switches (turned off by open findings) that changed this case
    #[serde(default)]
    pub steered: Vec<String>,
}

impl Pred {
    pub fn sql(&self) -> String {
        match self {
            Pred::True => "true".into(),
            Pred::Cmp(c, o, v) => {
                let o = match o {
                    Cmp::Eq => "=",
                    Cmp::Ne => "<>",
                    Cmp::Lt => "<",
                    Cmp::Le => "<=",
                    Cmp::Gt => ">",
                    Cmp::Ge => ">=",
                };
                format!("{c} {o} {}", lit(v))
            }
            Pred::IsNull(c, neg) => format!("{c} is {}null", if *neg { "not " } else { "" }),
            Pred::And(a, b) => format!("({}) and ({})", a.sql(), b.sql()),
            Pred::Or(a, b) => format!("({}) or ({})", a.sql(), b.sql()),
        }
    }
    fn cols(&self, out: &mut Vec<(String, Option<Val>)>) {
        match self {
            Pred::True => {}
            Pred::Cmp(c, _, v) => out.push((c.clone(), Some(v.clone()))),
            Pred::IsNull(c, _) => out.push((c.clone(), None)),
            Pred::And(a, b) | Pred::Or(a, b) => {
                a.cols(out);
                b.cols(out);
            }
        }
    }
    /// SQL three-valued logic: Some(true) / Some(false) / None = unknown.
    pub fn eval(&self, def: &TableDef, row: &Row) -> Option<bool> {
        let col = |c: &str| def.cols.iter().position(|d| d.name == c).map(|i| &row[i]);
        match self {
            Pred::True => Some(true),
            Pred::Cmp(c, o, k) => {
                let v = col(c)?;
                if v.is_null() || k.is_null() {
                    return None;
                }
                let ord = match (v, k) {
                    (Val::Int(a), Val::Int(b)) => a.cmp(b),
                    (Val::Str(a), Val::Str(b)) => a.as_bytes().cmp(b.as_bytes()),
                    (Val::Bool(a), Val::Bool(b)) => a.cmp(b),
                    _ => return None,
                };
                Some(match o {
                    Cmp::Eq => ord.is_eq(),
                    Cmp::Ne => ord.is_ne(),
                    Cmp::Lt => ord.is_lt(),
                    Cmp::Le => ord.is_le(),
                    Cmp::Gt => ord.is_gt(),
                    Cmp::Ge => ord.is_ge(),
                })
            }
            Pred::IsNull(c, neg) => Some(col(c)?.is_null() != *neg),
            Pred::And(a, b) => match (a.eval(def, row), b.eval(def, row)) {
                (Some(false), _) | (_, Some(false)) => Some(false),
                (Some(true), Some(true)) => Some(true),
                _ => None,
            },
            Pred::Or(a, b) => match (a.eval(def, row), b.eval(def, row)) {
                (Some(true), _) | (_, Some(true)) => Some(true),
                (Some(false), Some(false)) => Some(false),
                _ => None,
            },
        }
    }
}

fn ty_of(v: &Val) -> Option<Ty> {
    match v {
        Val::Int(_) => Some(Ty::Int),
        Val::Bool(_) => Some(Ty::Bool),
        Val::Str(_) => Some(Ty::Str),
        _ => None,
    }
}

impl Op {
    pub fn kind(&self) -> &'static str {
        match self {
            Op::CreateTable(_) => "create-table",
            Op::DropTable(_) => "drop-table",
            Op::CreateView { .. } => "create-view",
            Op::DropView(_) => "drop-view",
            Op::CreateIndex { .. } => "create-index",
            Op::CreateFunction(_) => "create-function",
            Op::Insert { .. } => "insert",
            Op::Delete { .. } => "delete",
            Op::Tick => "tick",
            Op::Reopen => "reopen",
        }
    }
    pub fn sql(&self) -> String {
        match self {
            Op::CreateTable(d) => d.create_sql(),
            Op::DropTable(n) => format!("drop table {n}"),
            Op::CreateView { name, table, cols } => {
                let al: Vec<String> = (0..cols.len()).map(|i| format!("a{i}")).collect();
                format!("create view {name}({}) as select {} from {table}", al.join(", "), cols.join(", "))
            }
            Op::DropView(n) => format!("drop view {n}"),
            Op::CreateIndex { name, table, col } => format!("create index {name} on {table} using btree ({col})"),
            Op::CreateFunction(n) => format!("create function {n}(int) returns int language sql as 'select $1 + 1'"),
            Op::Insert { table, rows } => insert_sql(table, rows),
            Op::Delete { table, pred: None } => format!("delete from {table}"),
            Op::Delete { table, pred: Some(p) } => format!("delete from {table} where {}", p.sql()),
            Op::Tick => "-- tick".into(),
            Op::Reopen => "-- reopen".into(),
        }
    }
    /// Short, readable form for failure messages (row lists abbreviated).
    pub fn brief(&self) -> String {
        match self {
            Op::Insert { table, rows } if rows.len() > 3 => {
                format!("insert into {table}: {} rows {} …", rows.len(), fmt_rows(&rows[..2]))
            }
            Op::Tick => "TICK".into(),
            Op::Reopen => "REOPEN".into(),
            o => o.sql(),
        }
    }
}

// ---------------------------------------------------------------------------------------------
// model

#[derive(Clone, Debug)]
pub struct MRow {
    pub v: Row,
    /// number of the INSERT that wrote the row, position inside it (class tracking only)
    pub batch: u32,
    pub pos: u32,
    pub compacted: bool,
}

#[derive(Clone, Debug)]
pub struct TableM {
    pub def: TableDef,
    pub rows: Vec<MRow>,
    /// generator side: next key counter of this incarnation of the table
    pub next_key: u32,
    // class tracking
    pub inserts_since_compaction: u32,
    pub dv_alive: bool,
    pub deleted_before_compaction: bool,
    pub compactions: u32,
}

impl TableM {
    fn new(def: TableDef) -> TableM {
        TableM { def, rows: vec![], next_key: 0, inserts_since_compaction: 0, dv_alive: false, deleted_before_compaction: false, compactions: 0 }
    }
    /// The key column the storage sorts by. A key declared with the table constraint
    /// `primary key(c)` makes the column NOT NULL but is not a sort key of the storage (the
    /// column is not flagged primary), so no order is expected for it.
    pub fn pk(&self) -> Option<usize> {
        if !self.def.table_pk.is_empty() {
            return None;
        }
        self.def.cols.iter().position(|c| c.pk)
    }
    pub fn sorted_rows(&self) -> Vec<Row> {
        sorted(self.rows.iter().map(|r| r.v.clone()).collect())
    }
}

#[derive(Clone, Copy, Debug, PartialEq, Eq)]
pub enum Expect {
    Ack,
    NoAck,
    /// SQL semantics do not fix the outcome (e.g. DROP TABLE with a dependent view)
    Either,
    /// malformed with respect to the model (only in hand-edited replay files): not executed
    Skip,
}

#[derive(Clone, Debug, Default)]
pub struct DelInfo {
    pub n: usize,
    pub batches: usize,
    pub on_compacted: bool,
    pub max_pos: u32,
}

#[derive(Clone, Debug, Default)]
pub struct Model {
    pub tables: BTreeMap<String, TableM>,
    /// views created in this session (they are not persisted): name -> base table
    pub views: BTreeMap<String, String>,
    /// names of all non-table objects ever created (never reused)
    pub used_names: BTreeSet<String>,
    pub batch_no: u32,
}

impl Model {
    pub fn expect(&self, op: &Op) -> Expect {
        let has_cols = |t: &TableM, cs: &[String]| cs.iter().all(|c| t.def.cols.iter().any(|d| d.name == *c));
        match op {
            Op::CreateTable(d) => {
                if d.cols.is_empty() || self.used_names.contains(&d.name) {
                    Expect::Skip
                } else if self.tables.contains_key(&d.name) {
                    Expect::NoAck
                } else {
                    Expect::Ack
                }
            }
            Op::DropTable(n) => match self.tables.get(n) {
                None if self.used_names.contains(n) => Expect::Skip,
                None => Expect::NoAck,
                Some(_) if self.views.values().any(|b| b == n) => Expect::Either,
                Some(_) => Expect::Ack,
            },
            Op::CreateView { name, table, cols } => match self.tables.get(table) {
                _ if self.used_names.contains(name) || self.tables.contains_key(name) || cols.is_empty() => Expect::Skip,
                None => Expect::NoAck,
                Some(t) if has_cols(t, cols) => Expect::Ack,
                Some(_) => Expect::NoAck,
            },
            Op::DropView(n) => {
                if self.views.contains_key(n) {
                    Expect::Ack
                } else {
                    Expect::Skip
                }
            }
            Op::CreateIndex { name, table, col } => match self.tables.get(table) {
                _ if self.used_names.contains(name) || self.tables.contains_key(name) => Expect::Skip,
                None => Expect::NoAck,
                Some(t) if has_cols(t, std::slice::from_ref(col)) => Expect::Ack,
                Some(_) => Expect::NoAck,
            },
            Op::CreateFunction(n) => {
                if self.used_names.contains(n) {
                    Expect::Skip
                } else {
                    Expect::Ack
                }
            }
            Op::Insert { table, rows } => match self.tables.get(table) {
                None if self.used_names.contains(table) => Expect::Skip,
                None => Expect::NoAck,
                Some(t) => {
                    let pk = t.def.cols.iter().position(|c| c.pk);
                    let mut keys: BTreeSet<&Val> = BTreeSet::new();
                    if let Some(k) = pk {
                        keys.extend(t.rows.iter().map(|r| &r.v[k]));
                    }
                    let ok = !rows.is_empty()
                        && rows.iter().all(|r| {
                            r.len() == t.def.cols.len()
                                && r.iter().zip(&t.def.cols).all(|(v, c)| if v.is_null() { c.nullable && !c.pk } else { ty_of(v) == Some(c.ty) })
                                && pk.is_none_or(|k| keys.insert(&r[k]))
                        });
                    if ok { Expect::Ack } else { Expect::Skip }
                }
            },
            Op::Delete { table, pred } => match self.tables.get(table) {
                None if self.used_names.contains(table) => Expect::Skip,
                None => Expect::NoAck,
                Some(t) => {
                    let mut cs = vec![];
                    if let Some(p) = pred {
                        p.cols(&mut cs);
                    }
                    let ok = cs.iter().all(|(c, v)| {
                        t.def.cols.iter().any(|d| d.name == *c && v.as_ref().is_none_or(|v| ty_of(v) == Some(d.ty)))
                    });
                    if ok { Expect::Ack } else { Expect::Skip }
                }
            },
            Op::Tick | Op::Reopen => Expect::Ack,
        }
    }

    /// Apply an acknowledged op.
    pub fn apply(&mut self, op: &Op) -> DelInfo {
        let mut info = DelInfo::default();
        match op {
            Op::CreateTable(d) => {
                self.tables.insert(d.name.clone(), TableM::new(d.clone()));
            }
            Op::DropTable(n) => {
                self.tables.remove(n);
            }
            Op::CreateView { name, table, .. } => {
                self.views.insert(name.clone(), table.clone());
                self.used_names.insert(name.clone());
            }
            Op::DropView(n) => {
                self.views.remove(n);
            }
            Op::CreateIndex { name, .. } => {
                self.used_names.insert(name.clone());
            }
            Op::CreateFunction(n) => {
                self.used_names.insert(n.clone());
            }
            Op::Insert { table, rows } => {
                self.batch_no += 1;
                let b = self.batch_no;
                if let Some(t) = self.tables.get_mut(table) {
                    t.inserts_since_compaction += 1;
                    t.rows.extend(rows.iter().enumerate().map(|(i, r)| MRow { v: r.clone(), batch: b, pos: i as u32, compacted: false }));
                }
            }
            Op::Delete { table, pred } => {
                if let Some(t) = self.tables.get_mut(table) {
                    let def = t.def.clone();
                    let mut batches = BTreeSet::new();
                    t.rows.retain(|r| {
                        let hit = pred.as_ref().is_none_or(|p| p.eval(&def, &r.v) == Some(true));
                        if hit {
                            info.n += 1;
                            batches.insert(r.batch);
                            info.on_compacted |= r.compacted;
                            info.max_pos = info.max_pos.max(r.pos);
                        }
                        !hit
                    });
                    info.batches = batches.len();
                    if info.n > 0 {
                        t.dv_alive = true;
                        t.deleted_before_compaction = true;
                    }
                }
            }
            Op::Tick => {}
            Op::Reopen => self.views.clear(),
        }
        info
    }
}

// ---------------------------------------------------------------------------------------------
// generator

#[derive(Clone, Copy, Debug, PartialEq, Eq, Hash, Serialize, Deserialize)]
pub enum Which {
    C03,
    C07,
}

#[derive(Clone, Debug)]
pub struct GenOpts {
    pub which: Which,
    /// views / indexes may be followed by CREATE TABLE in the same session
    pub nontable_then_table: bool,
    /// `k > a AND k < b` with a >= b on a primary key
    pub empty_key_range: bool,
    pub max_ops: usize,
}

const HDR: usize = 8;
const SLOT: usize = 12;
pub const OPS_SHORT: usize = 44;
pub const OPS_LONG: usize = 96;

const INT_DOM: [i64; 12] = [0, 1, 2, 3, 5, 7, -1, -2, 10, 100, 65536, 2147483647];
const STR_DOM: [&str; 12] = ["a", "b", "ab", "", "abc", "zz", "A", "a b", "xyz", "0", "null", "é"];
const CARDS: [u32; 6] = [2, 1, 3, 4, 6, 12];

fn mix(a: u32, b: u32, c: u32) -> u32 {
    let mut x = (a as u64) << 40 ^ (b as u64) << 20 ^ c as u64 ^ 0x9E37_79B9_7F4A_7C15;
    x = (x ^ (x >> 30)).wrapping_mul(0xBF58_476D_1CE4_E5B9);
    x = (x ^ (x >> 27)).wrapping_mul(0x94D0_49BB_1331_11EB);
    ((x ^ (x >> 31)) >> 16) as u32
}

/// The n-th key of a table: a bijection on 16 bits, so keys are unique and the key ranges of
/// successive insert batches overlap.
fn key_no(n: u32) -> i64 {
    (n.wrapping_mul(40503) & 0xffff) as i64 - 32768
}

fn dom_val(ty: Ty, i: u32) -> Val {
    match ty {
        Ty::Int => Val::Int(INT_DOM[i as usize % INT_DOM.len()]),
        Ty::Bool => Val::Bool(i % 2 == 1),
        Ty::Str => Val::Str(STR_DOM[i as usize % STR_DOM.len()].to_string()),
    }
}

/// `k > a AND k < b` (either order) with a >= b on the primary key: an empty key range.
fn empty_key_range(tm: &TableM, a: &Pred, b: &Pred) -> bool {
    let pk = |c: &String| tm.def.cols.iter().any(|d| d.pk && d.name == *c);
    match (a, b) {
        (Pred::Cmp(c1, Cmp::Gt, Val::Int(lo)), Pred::Cmp(c2, Cmp::Lt, Val::Int(hi))) | (Pred::Cmp(c2, Cmp::Lt, Val::Int(hi)), Pred::Cmp(c1, Cmp::Gt, Val::Int(lo))) => c1 == c2 && pk(c1) && lo >= hi,
        _ => false,
    }
}

struct GenState {
    m: Model,
    uniq: u32,
    /// a view or index was created since the last open
    session_nontable: bool,
    steered: Vec<String>,
}

impl GenState {
    fn rows_for(&mut self, table: &str, n: usize, salt: u32, card: u32) -> Vec<Row> {
        let t = self.m.tables.get_mut(table).unwrap();
        let mut rows = Vec::with_capacity(n);
        for i in 0..n as u32 {
            let row: Row = (t.def.cols.iter().enumerate())
                .map(|(j, c)| {
                    if c.pk {
                        t.next_key += 1;
                        Val::Int(key_no(t.next_key - 1))
                    } else {
                        let h = mix(salt, i, j as u32);
                        if c.nullable && (h >> 8) % 6 == 0 { Val::Null } else { dom_val(c.ty, (h & 0xff) % card + salt % 3) }
                    }
                })
                .collect();
            rows.push(row);
        }
        rows
    }

    fn atom(&self, t: &mut Tape, tm: &TableM) -> Pred {
        let c = &tm.def.cols[t.pick(tm.def.cols.len())];
        if c.nullable && t.chance(1, 6) {
            return Pred::IsNull(c.name.clone(), t.pick(2) == 1);
        }
        let ci = tm.def.cols.iter().position(|d| d.name == c.name).unwrap();
        // constant: the value of an existing row, or one of the domain
        let from_row = !tm.rows.is_empty() && t.chance(2, 3);
        let mut k = if from_row { tm.rows[t.pick(tm.rows.len())].v[ci].clone() } else { Val::Null };
        if k.is_null() {
            k = if c.pk { Val::Int([0, -1, 100, 20000, -20000, 40000][t.pick(6)]) } else { dom_val(c.ty, t.pick(12) as u32) };
        }
        let op = match c.ty {
            Ty::Bool => [Cmp::Eq, Cmp::Ne][t.pick(2)],
            _ => [Cmp::Eq, Cmp::Lt, Cmp::Ge, Cmp::Ne, Cmp::Le, Cmp::Gt][t.pick(6)],
        };
        Pred::Cmp(c.name.clone(), op, k)
    }

    fn pick_table(&self, t: &mut Tape) -> Option<String> {
        let names: Vec<&String> = self.m.tables.keys().collect();
        if names.is_empty() { None } else { Some(names[t.pick(names.len())].clone()) }
    }

    fn create_table(&mut self, t: &mut Tape, max_tables: usize) -> Option<Op> {
        let free: Vec<String> = (0..max_tables + 1).map(|i| format!("t{i}")).filter(|n| !self.m.tables.contains_key(n)).collect();
        if self.m.tables.len() >= max_tables || free.is_empty() {
            return None;
        }
        let name = free[t.pick(free.len().min(2))].clone();
        let nc = t.range(1, 4);
        let pk_at = if t.chance(2, 5) { Some(t.pick(nc)) } else { None };
        let cols = (0..nc)
            .map(|ci| {
                let pk = pk_at == Some(ci);
                let ty = if pk { Ty::Int } else { [Ty::Int, Ty::Str, Ty::Int, Ty::Bool][t.pick(4)] };
                ColDef { name: format!("c{ci}"), ty, nullable: !pk && !t.chance(1, 4), pk }
            })
            .collect();
        // one key in four is declared with the table constraint syntax
        let table_pk = match pk_at {
            Some(p) if t.chance(1, 4) => vec![p],
            _ => vec![],
        };
        Some(Op::CreateTable(TableDef { name, cols, table_pk }))
    }

    fn insert(&mut self, t: &mut Tape, table: String) -> Op {
        let n = match t.weighted(&[5, 3, 2]) {
            0 => t.range(1, 8),
            1 => t.range(9, 64),
            _ => t.range(65, 300),
        };
        let salt = t.pick(1000) as u32;
        let card = CARDS[t.pick(CARDS.len())];
        let rows = self.rows_for(&table, n, salt, card);
        Op::Insert { table, rows }
    }

    fn gen_op(&mut self, t: &mut Tape, o: &GenOpts) -> Option<Op> {
        // kinds: 0 nop 1 insert 2 delete 3 tick 4 reopen 5 create 6 drop 7 view 8 index
        //        9 function 10 drop view 11 statement that must be rejected
        let (w, max_tables): ([u32; 12], usize) = match o.which {
            Which::C03 => ([2, 22, 13, 8, 11, 9, 4, 4, 3, 1, 1, 2], 3),
            Which::C07 => ([2, 30, 28, 16, 7, 3, 1, 0, 0, 0, 0, 1], 2),
        };
        let mut kind = t.weighted(&w);
        if kind == 0 {
            return None;
        }
        if self.m.tables.is_empty() && !matches!(kind, 3 | 4 | 9 | 11) {
            kind = 5;
        }
        if kind == 5 && !o.nontable_then_table && self.session_nontable {
            self.steered.push("gen.hist.table_after_view_or_index".into());
            kind = 1;
        }
        let mut steer = false;
        let op = match kind {
            1 => None, // insert: the fallback below
            5 => self.create_table(t, max_tables),
            6 => {
                let cand: Vec<String> = (self.m.tables.keys()).filter(|n| !self.m.views.values().any(|b| b == *n)).cloned().collect();
                if cand.is_empty() { None } else { Some(Op::DropTable(cand[t.pick(cand.len())].clone())) }
            }
            7 => self.pick_table(t).map(|table| {
                let def = &self.m.tables[&table].def;
                let n = t.range(1, def.cols.len());
                let first = t.pick(def.cols.len());
                let cols = (0..n).map(|i| def.cols[(first + i) % def.cols.len()].name.clone()).collect();
                self.uniq += 1;
                Op::CreateView { name: format!("v{}", self.uniq), table, cols }
            }),
            8 => self.pick_table(t).map(|table| {
                let def = &self.m.tables[&table].def;
                let col = def.cols[t.pick(def.cols.len())].name.clone();
                self.uniq += 1;
                Op::CreateIndex { name: format!("i{}", self.uniq), table, col }
            }),
            9 => {
                self.uniq += 1;
                Some(Op::CreateFunction(format!("f{}", self.uniq)))
            }
            10 => {
                let vs: Vec<&String> = self.m.views.keys().collect();
                if vs.is_empty() { None } else { Some(Op::DropView(vs[t.pick(vs.len())].clone())) }
            }
            11 => Some(match (t.pick(4), self.pick_table(t)) {
                (0, Some(n)) => Op::CreateTable(TableDef { name: n, cols: vec![ColDef { name: "c0".into(), ty: Ty::Int, nullable: true, pk: false }], table_pk: vec![] }),
                (1, _) => Op::DropTable("t9".into()),
                (2, _) => Op::Insert { table: "t9".into(), rows: vec![vec![Val::Int(1)]] },
                _ => Op::Delete { table: "t9".into(), pred: None },
            }),
            2 => self.pick_table(t).map(|table| {
                let tm = &self.m.tables[&table];
                let _ = &mut steer;
                let pred = match t.weighted(&[10, 3, 3, 1, 1]) {
                    0 => Some(self.atom(t, tm)),
                    1 => {
                        let (a, b) = (self.atom(t, tm), self.atom(t, tm));
                        if !o.empty_key_range && empty_key_range(tm, &a, &b) {
                            steer = true;
                            Some(Pred::Or(Box::new(a), Box::new(b)))
                        } else {
                            Some(Pred::And(Box::new(a), Box::new(b)))
                        }
                    }
                    2 => Some(Pred::Or(Box::new(self.atom(t, tm)), Box::new(self.atom(t, tm)))),
                    3 => Some(Pred::True),
                    _ => None,
                };
                Op::Delete { table, pred }
            }),
            3 => Some(Op::Tick),
            4 => Some(Op::Reopen),
            _ => None,
        };
        if steer {
            self.steered.push("gen.hist.empty_key_range".into());
        }
        // an insert, also when the chosen op is not possible now
        let op = match op {
            Some(op) => op,
            None => {
                let table = self.pick_table(t)?;
                self.insert(t, table)
            }
        };
        match &op {
            Op::CreateView { .. } | Op::CreateIndex { .. } => self.session_nontable = true,
            Op::Reopen => self.session_nontable = false,
            _ => {}
        }
        if self.m.expect(&op) == Expect::Ack {
            self.m.apply(&op);
        }
        Some(op)
    }
}

/// Decode a tape into a history.
pub fn decode(tape: &[u32], o: &GenOpts) -> HistCase {
    let mut h = Tape::new(&tape[..HDR.min(tape.len())]);
    let cfg = DiskCfg {
        block: *h.choose(&[128usize, 64, 96, 256, 1024, 16384]),
        rowset: [1usize << 20, 4096, 256][h.weighted(&[5, 4, 1])],
        checksum: h.pick(2) == 1,
        first_key: true,
        cache: *h.choose(&[1024usize, 1]),
        inmem: false,
    };
    let n = h.range(8, o.max_ops);
    let mut g = GenState { m: Model::default(), uniq: 0, session_nontable: false, steered: vec![] };
    let mut ops = vec![];
    for i in 0..n {
        let lo = (HDR + i * SLOT).min(tape.len());
        let hi = (lo + SLOT).min(tape.len());
        let mut t = Tape::new(&tape[lo..hi]);
        if let Some(op) = g.gen_op(&mut t, o) {
            ops.push(op);
        }
    }
    g.steered.sort();
    g.steered.dedup();
    HistCase { cfg, ops, steered: g.steered }
}

pub fn strategy(ctx: &Ctx, which: Which, max_ops: usize) -> impl Strategy<Value = HistCase> + use<> {
    let o = GenOpts {
        which,
        nontable_then_table: !ctx.off("gen.hist.table_after_view_or_index"),
        empty_key_range: !ctx.off("gen.hist.empty_key_range"),
        max_ops,
    };
    tape_strategy(HDR + SLOT * max_ops).prop_map(move |tape| decode(&tape, &o))
}

// ---------------------------------------------------------------------------------------------
// interpreter

fn mask(s: &str, n: usize) -> String {
    s.chars().take(n).map(|c| if c.is_ascii_digit() { '#' } else if c.is_whitespace() { '_' } else { c }).collect()
}

/// Signature of a statement outcome that is not an acknowledgement.
fn out_sig(o: &Out) -> String {
    match o {
        Out::Rows(_) => "acked".into(),
        Out::Rejected(e) => format!("rejected:{}", mask(e, 48)),
        Out::Failed(e) => format!("failed:{}", mask(e, 48)),
        Out::Panicked(p) => format!("panicked:{}", panic_sig(p)),
    }
}

/// Signature of a panic at open: location of the panic plus the start of the error it wraps.
fn open_sig(p: &str) -> String {
    let (msg, loc) = p.rsplit_once(" @ ").unwrap_or((p, ""));
    let loc = loc.rsplit_once("/src/").map(|x| x.1).unwrap_or(loc);
    let inner = msg.split_once("value: ").map(|x| x.1).unwrap_or(msg);
    format!("{loc}|{}", mask(inner, 48))
}

struct Fail(String, String);

const STALE: &str = "stale-delete-vector-on-reused-rowset-id";
const DROPPED: &str = "delete-vector-of-dropped-table";

type Events = Arc<Mutex<Vec<String>>>;

struct Run<'a> {
    which: Which,
    p: &'static str,
    case: &'a HistCase,
    dir: std::path::PathBuf,
    m: Model,
    events: Events,
    /// table id (as reported by pg_tables after CREATE) -> name
    ids: BTreeMap<u32, String>,
    trace: Vec<String>,
    // evidence
    reopens: u32,
    compactions: u32,
    nontrivial: bool,
    classes: BTreeSet<&'static str>,
    followup_no: i64,
    inserted_rows: usize,
    evals: u64,
    db_open: bool,
    /// manifest_diagnosis().0 taken between shutdown and open
    shutdown_diag: Option<String>,
}

fn diff_kind(model: &[Row], got: &[Row]) -> (&'static str, String) {
    // both sorted
    let (mut i, mut j) = (0, 0);
    let (mut lost, mut extra) = (vec![], vec![]);
    while i < model.len() || j < got.len() {
        match (model.get(i), got.get(j)) {
            (Some(a), Some(b)) if a == b => {
                i += 1;
                j += 1;
            }
            (Some(a), Some(b)) if a < b => {
                lost.push(a.clone());
                i += 1;
            }
            (Some(_), Some(b)) => {
                extra.push(b.clone());
                j += 1;
            }
            (Some(a), None) => {
                lost.push(a.clone());
                i += 1;
            }
            (None, Some(b)) => {
                extra.push(b.clone());
                j += 1;
            }
            (None, None) => break,
        }
    }
    let kind = match (lost.is_empty(), extra.is_empty()) {
        (false, true) => "row-lost",
        (true, false) => "row-extra",
        _ => "rows-differ",
    };
    (kind, format!("model has {} rows, database returns {}; missing from the database: {}; not in the model: {}", model.len(), got.len(), fmt_rows(&lost), fmt_rows(&extra)))
}

impl<'a> Run<'a> {
    fn ctx_msg(&self) -> String {
        let n = self.trace.len();
        let from = n.saturating_sub(30);
        format!("\n  options: {:?}\n  history so far ({} steps{}):\n    {}", self.case.cfg, n, if from > 0 { ", last 30 shown" } else { "" }, self.trace[from..].join("\n    "))
    }
    fn fail(&self, sig: String, msg: String) -> Fail {
        Fail(format!("{}:{sig}", self.p), format!("{msg}{}", self.ctx_msg()))
    }

    fn check_panics(&self, step: &str) -> Result<(), Fail> {
        let p = take_panics();
        if let Some(first) = p.first() {
            return Err(self.fail(format!("panic:{step}:{}", panic_sig(first)), format!("panic(s) during {step}: {p:?}")));
        }
        Ok(())
    }

    /// Root-cause attribution from the manifest log: `.0` a row-set is added under a (table,
    /// row-set id) for which a delete vector is still registered (a stale delete vector of a dead
    /// row-set whose id was handed out again); `.1` a delete vector is still registered for a
    /// dropped table.
    fn manifest_diagnosis(&self) -> (Option<String>, Option<String>) {
        let Ok(s) = std::fs::read_to_string(self.dir.join("manifest.json")) else { return (None, None) };
        let mut dvs: Vec<(u64, u64)> = vec![];
        let mut dropped: BTreeSet<u64> = BTreeSet::new();
        let mut reuse = None;
        let key = |e: &serde_json::Value| (e["table_id"]["table_id"].as_u64().unwrap_or(u64::MAX), e["rowset_id"].as_u64().unwrap_or(u64::MAX));
        for v in serde_json::Deserializer::from_str(&s).into_iter::<serde_json::Value>().flatten() {
            if let Some(e) = v.get("AddDV") {
                dvs.push(key(e));
            } else if let Some(e) = v.get("DeleteDV") {
                if let Some(i) = dvs.iter().position(|d| *d == key(e)) {
                    dvs.remove(i);
                }
            } else if let Some(e) = v.get("DropTable") {
                dropped.insert(e["table_id"]["table_id"].as_u64().unwrap_or(u64::MAX));
            } else if let Some(e) = v.get("AddRowSet") {
                if dvs.contains(&key(e)) && reuse.is_none() {
                    reuse = Some(format!("the manifest registers a delete vector for (table {}, row-set {}) before that row-set is added", key(e).0, key(e).1));
                }
            }
        }
        let d = dvs.iter().find(|d| dropped.contains(&d.0));
        (reuse, d.map(|d| format!("the manifest still registers a delete vector for row-set {} of the dropped table {}", d.1, d.0)))
    }

    async fn select_all(&mut self, db: &Database, t: &str) -> Result<Vec<Row>, Out> {
        self.evals += 1;
        match exec(db, &format!("select * from {t}")).await {
            Out::Rows(r) => Ok(r),
            o => Err(o),
        }
    }

    /// `SELECT *` of every model table equals the model (multiset); keyed tables come back in
    /// key order.
    async fn check_tables(&mut self, db: &Database, when: &str) -> Result<(), Fail> {
        let names: Vec<String> = self.m.tables.keys().cloned().collect();
        for n in names {
            let got = match self.select_all(db, &n).await {
                Ok(r) => r,
                Err(o) => return Err(self.fail(format!("select:{when}:{}", out_sig(&o)), format!("`select * from {n}` {when}: {}", o.brief()))),
            };
            let tm = &self.m.tables[&n];
            if let Some(k) = tm.pk() {
                if let Some(w) = got.windows(2).find(|w| w[0][k] > w[1][k]) {
                    return Err(self.fail(format!("pk-order:{when}"), format!("`select * from {n}` (primary key {}) is not in key order {when}: … {} before {} …", tm.def.cols[k].name, w[0][k], w[1][k])));
                }
            }
            let want = tm.sorted_rows();
            let got = sorted(got);
            if want != got {
                let (kind, d) = diff_kind(&want, &got);
                let mut sig = format!("{kind}:{when}");
                let mut extra = String::new();
                if kind == "row-lost" {
                    // after a reopen the manifest has been rewritten: use the log as it was at shutdown
                    let diag = if when == "after-reopen" { self.shutdown_diag.clone() } else { self.manifest_diagnosis().0 };
                    if let Some(diag) = diag {
                        sig = format!("{kind}:{STALE}");
                        extra = format!("\n  diagnosis: {diag}");
                    }
                }
                return Err(self.fail(sig, format!("table {n} {when}: {d}{extra}")));
            }
        }
        Ok(())
    }

    fn drain_events(&mut self) {
        let evs: Vec<String> = std::mem::take(&mut *self.events.lock().unwrap());
        for e in evs {
            // "<table id>:<from,from,..>-><Some(id)|None>"
            let Some((tid, rest)) = e.split_once(':') else { continue };
            let Some((from, to)) = rest.split_once("->") else { continue };
            self.compactions += 1;
            self.classes.insert("compaction");
            if to == "None" {
                self.classes.insert("compaction-to-empty");
            }
            if from.split(',').count() >= 3 {
                self.classes.insert("compaction-of-3+-rowsets");
            }
            let name = tid.parse::<u32>().ok().and_then(|i| self.ids.get(&i)).cloned();
            if let Some(t) = name.and_then(|n| self.m.tables.get_mut(&n)) {
                t.compactions += 1;
                if t.dv_alive {
                    self.classes.insert("compaction-applies-delete-vector");
                }
                if t.compactions >= 2 {
                    self.classes.insert("table-compacted-2+-times");
                }
                let nrows = t.rows.len();
                let distinct: usize = (0..t.def.cols.len()).map(|j| t.rows.iter().map(|r| &r.v[j]).collect::<BTreeSet<_>>().len()).sum();
                if nrows > 0 && distinct * 5 < nrows * t.def.cols.len() {
                    self.classes.insert("compaction-low-cardinality(dictionary)");
                }
                if self.which == Which::C07 && t.deleted_before_compaction && nrows > 0 {
                    self.nontrivial = true;
                }
                t.dv_alive = false;
                t.inserts_since_compaction = 0;
                t.rows.iter_mut().for_each(|r| r.compacted = true);
            }
        }
    }

    async fn statement(&mut self, db: &Database, op: &Op) -> Result<(), Fail> {
        let exp = self.m.expect(op);
        if exp == Expect::Skip {
            return Ok(());
        }
        let sql = op.sql();
        self.evals += 1;
        let out = exec(db, &sql).await;
        let panics = take_panics();
        let kind = op.kind();
        if let Out::Panicked(p) = &out {
            return Err(self.fail(format!("stmt:{kind}:panicked:{}", panic_sig(p)), format!("`{}` panicked: {p}", op.brief())));
        }
        if let Some(p) = panics.first() {
            return Err(self.fail(format!("stmt:{kind}:panic-in-task:{}", panic_sig(p)), format!("`{}` -> {}; panics: {panics:?}", op.brief(), out.brief())));
        }
        match (exp, &out) {
            (Expect::Ack, Out::Rows(rows)) | (Expect::Either, Out::Rows(rows)) => {
                let info = self.m.apply(op);
                match op {
                    Op::CreateTable(d) => {
                        // (system tables are always selected with `*`: their scan does not support column pruning)
                        if let Out::Rows(r) = exec(db, &format!("select * from pg_catalog.pg_tables where schema_name = 'postgres' and table_name = '{}'", d.name)).await {
                            if let Some(Val::Int(i)) = r.first().and_then(|r| r.get(2)) {
                                self.ids.insert(*i as u32, d.name.clone());
                            }
                        }
                        let _ = take_panics();
                    }
                    Op::Insert { rows: ins, table } => {
                        self.inserted_rows += ins.len();
                        if self.m.tables.get(table).is_some_and(|t| t.compactions > 0) {
                            self.classes.insert("insert-after-compaction");
                        }
                        if ins.len() > 64 {
                            self.classes.insert("insert-65+-rows");
                        }
                    }
                    Op::Delete { .. } => {
                        if self.which == Which::C07 && rows != &vec![vec![Val::Int(info.n as i64)]] {
                            let fewer = matches!(rows.first().and_then(|r| r.first()), Some(Val::Int(k)) if (*k as usize) < info.n);
                            return Err(match self.manifest_diagnosis().0 {
                                Some(diag) if fewer => self.fail(format!("row-lost:{STALE}"), format!("`{sql}` reports {} but removes {} rows of the model\n  diagnosis: {diag}", fmt_rows(rows), info.n)),
                                _ => self.fail("delete-count".into(), format!("`{sql}` reports {} but removes {} rows of the model", fmt_rows(rows), info.n)),
                            });
                        }
                        if info.n > 0 {
                            self.classes.insert("delete-hits");
                        }
                        if info.batches >= 2 {
                            self.classes.insert("delete-spans-2+-insert-batches");
                        }
                        if info.on_compacted {
                            self.classes.insert("delete-on-compacted-data");
                        }
                        if info.n > 0 && info.max_pos >= 64 && self.case.cfg.block <= 256 {
                            self.classes.insert("delete-beyond-first-block");
                        }
                    }
                    _ => {}
                }
                Ok(())
            }
            (Expect::Ack, o) => Err(self.fail(format!("stmt:{kind}:{}", out_sig(o)), format!("`{}` must be acknowledged (valid against the model), but -> {}", op.brief(), o.brief()))),
            (Expect::NoAck, Out::Rows(_)) => Err(self.fail(format!("stmt:{kind}:acked-but-invalid"), format!("`{}` must be refused (it refers to a missing / an existing object), but was acknowledged", op.brief()))),
            _ => Ok(()),
        }
    }

    /// C03 oracle after a reopen.
    async fn check_reopened(&mut self, db: &Database) -> Result<(), Fail> {
        // (3) no base table beyond the model's, none missing
        let out = exec(db, "select * from pg_catalog.pg_tables where schema_name = 'postgres'").await;
        let Out::Rows(r) = &out else {
            return Err(self.fail(format!("catalog-query:{}", out_sig(&out)), format!("pg_tables after reopen: {}", out.brief())));
        };
        let have: BTreeSet<String> = r.iter().filter_map(|r| if let Some(Val::Str(s)) = r.get(3) { Some(s.clone()) } else { None }).collect();
        let want: BTreeSet<String> = self.m.tables.keys().cloned().collect();
        if let Some(x) = have.difference(&want).next() {
            return Err(self.fail("extra-table-after-reopen".into(), format!("table {x} exists after reopen but not in the model (model: {want:?}, database: {have:?})")));
        }
        if let Some(x) = want.difference(&have).next() {
            return Err(self.fail("table-missing-after-reopen".into(), format!("table {x} is missing after reopen (model: {want:?}, database: {have:?})")));
        }
        // (2) definitions
        for (n, tm) in &self.m.tables {
            let out = exec(db, &format!("select * from pg_catalog.pg_attribute where schema_name = 'postgres' and table_name = '{n}'")).await;
            let Out::Rows(r) = &out else {
                return Err(self.fail(format!("catalog-query:{}", out_sig(&out)), format!("pg_attribute after reopen: {}", out.brief())));
            };
            let want: Vec<Row> = (tm.def.cols.iter().enumerate())
                .map(|(i, c)| {
                    let ty = match c.ty {
                        Ty::Int => "int",
                        Ty::Bool => "boolean",
                        Ty::Str => "string",
                    };
                    vec![Val::Int(i as i64), Val::Str(c.name.clone()), Val::Str(ty.into()), Val::Bool(c.pk || !c.nullable)]
                })
                .collect();
            let got = sorted(r.iter().map(|r| r[2..].to_vec()).collect());
            if got != want {
                return Err(self.fail("schema-differs-after-reopen".into(), format!("definition of {n} after reopen: {} expected {}", fmt_rows(&got), fmt_rows(&want))));
            }
        }
        // (2) rows (and key order of keyed tables: the primary key is part of the definition)
        self.check_tables(db, "after-reopen").await?;
        Ok(())
    }

    /// C03 (4): every table accepts an insert and a delete after the reopen.
    async fn followups(&mut self, db: &Database) -> Result<(), Fail> {
        let names: Vec<String> = self.m.tables.keys().cloned().collect();
        for n in names {
            self.followup_no += 1;
            let def = self.m.tables[&n].def.clone();
            let row: Row = (def.cols.iter())
                .map(|c| match c.ty {
                    Ty::Int if c.pk => Val::Int(1_000_000 + self.followup_no),
                    Ty::Int => Val::Int(424_242),
                    Ty::Bool => Val::Bool(true),
                    Ty::Str => Val::Str("follow-up".into()),
                })
                .collect();
            let ins = Op::Insert { table: n.clone(), rows: vec![row.clone()] };
            let del = Op::Delete { table: n.clone(), pred: Some(Pred::Cmp(def.cols[0].name.clone(), Cmp::Eq, row[0].clone())) };
            for op in [ins, del] {
                self.trace.push(format!("(follow-up) {}", op.brief()));
                if let Err(Fail(sig, msg)) = self.statement(db, &op).await {
                    let sig = sig.replacen(":stmt:", ":followup:", 1);
                    return Err(Fail(sig, msg));
                }
            }
        }
        Ok(())
    }

    async fn run(&mut self) -> Result<(), Fail> {
        let cfg = self.case.cfg.clone();
        let dir = self.dir.clone();
        let mut db = match open_disk(&cfg, &dir).await {
            Ok(db) => db,
            Err(p) => return Err(self.fail(format!("open:panic:{}", open_sig(&p)), format!("opening an empty directory panicked: {p}"))),
        };
        let _ = take_panics();
        self.db_open = true;
        let r = self.steps(&mut db).await;
        // always leave the database shut down
        let sd = if self.db_open { shutdown(&db).await } else { Ok(()) };
        drop(db);
        self.drain_events();
        r?;
        if let Err(e) = sd {
            return Err(self.fail("shutdown:error".into(), format!("final shutdown: {e}")));
        }
        self.check_panics("shutdown")?;
        if self.which == Which::C07 {
            self.storage_level_scan(&cfg, &dir).await?;
        }
        Ok(())
    }

    async fn steps(&mut self, db: &mut Database) -> Result<(), Fail> {
        let case = self.case;
        // C03: every history ends with a reopen, so that all of it is checked
        let last = (self.which == Which::C03 && case.ops.last() != Some(&Op::Reopen)).then_some(Op::Reopen);
        let total = case.ops.len() + last.iter().len();
        for (step, op) in case.ops.iter().chain(last.iter()).enumerate() {
            self.trace.push(op.brief());
            match op {
                Op::Tick => {
                    let before = if self.which == Which::C07 { Some(self.snapshot(db).await) } else { None };
                    tick().await;
                    self.drain_events();
                    self.check_panics("tick")?;
                    if let Some(before) = before {
                        let after = self.snapshot(db).await;
                        if before != after {
                            let t = before.iter().zip(&after).find(|(a, b)| a != b).map(|(a, _)| a.0.clone()).unwrap_or_default();
                            // which of the two is wrong (if any) is reported by check_tables below;
                            // this is the "compaction is invisible" clause on its own
                            self.check_tables(db, "after-tick").await?;
                            return Err(self.fail("tick-changed-result".into(), format!("`select * from {t}` differs before and after a compaction/vacuum pass")));
                        }
                    }
                }
                Op::Reopen => {
                    if self.which == Which::C03 {
                        // the state before shutdown is the model's
                        self.check_tables(db, "before-shutdown").await?;
                    }
                    if self.m.tables.values().any(|t| t.dv_alive) {
                        self.classes.insert("delete-vector-alive-at-shutdown");
                    }
                    if self.m.tables.values().any(|t| t.inserts_since_compaction >= 2) {
                        self.classes.insert("several-rowsets-at-shutdown");
                    }
                    if !self.m.views.is_empty() {
                        self.classes.insert("view-alive-at-shutdown");
                    }
                    let before = self.compactions;
                    self.db_open = false;
                    if let Err(e) = shutdown(db).await {
                        return Err(self.fail("shutdown:error".into(), format!("shutdown failed: {e}")));
                    }
                    self.drain_events();
                    self.check_panics("shutdown")?;
                    if self.compactions > before {
                        self.classes.insert("compaction-during-shutdown");
                    }
                    let comp_before_open = self.compactions;
                    self.shutdown_diag = self.manifest_diagnosis().0;
                    match open_disk(&self.case.cfg, &self.dir).await {
                        Ok(d) => {
                            *db = d;
                            self.db_open = true;
                        }
                        Err(p) => {
                            return Err(match self.manifest_diagnosis().1 {
                                Some(diag) => self.fail(format!("reopen:panic:{DROPPED}"), format!("reopening the directory panicked: {p}\n  diagnosis: {diag}")),
                                _ => self.fail(format!("reopen:panic:{}", open_sig(&p)), format!("reopening the directory panicked: {p}")),
                            });
                        }
                    }
                    self.drain_events();
                    self.check_panics("reopen")?;
                    if self.compactions > comp_before_open {
                        self.classes.insert("compaction-at-open");
                    }
                    self.m.apply(op);
                    self.reopens += 1;
                    if self.reopens >= 2 {
                        self.classes.insert("reopen-2+");
                    }
                    if self.reopens >= 3 {
                        self.classes.insert("reopen-3+");
                    }
                    if self.compactions > 0 {
                        self.classes.insert("compaction-before-reopen");
                    }
                    let rows: usize = self.m.tables.values().map(|t| t.rows.len()).sum();
                    if self.m.tables.values().any(|t| t.rows.is_empty()) {
                        self.classes.insert("reopen-with-empty-table");
                    }
                    if self.which == Which::C03 {
                        self.check_reopened(db).await?;
                        if self.inserted_rows > 0 && rows > 0 {
                            self.nontrivial = true;
                        }
                        // "accepts further statements": the ops that follow in the history; after
                        // the final reopen an insert and a delete on every table (not after every
                        // reopen: they would keep a young row-set alive in every table and so hide
                        // what happens when ids are handed out again)
                        if step + 1 == total {
                            self.followups(db).await?;
                        }
                    }
                }
                stmt => self.statement(db, stmt).await?,
            }
            if self.which == Which::C07 {
                let when = format!("after-{}", op.kind());
                self.check_tables(db, &when).await?;
            }
            self.check_panics("background")?;
        }
        Ok(())
    }

    async fn snapshot(&mut self, db: &Database) -> Vec<(String, Option<Vec<Row>>)> {
        let names: Vec<String> = self.m.tables.keys().cloned().collect();
        let mut v = vec![];
        for n in names {
            let r = self.select_all(db, &n).await.ok().map(sorted);
            v.push((n, r));
        }
        v
    }

    /// C07: open the storage engine directly and scan every table through the public
    /// Storage/Table/Transaction API with `with_sorted(true)`.
    async fn storage_level_scan(&mut self, cfg: &DiskCfg, dir: &Path) -> Result<(), Fail> {
        use futures::FutureExt;
        use risinglight::storage::{ScanOptions, SecondaryStorage, Storage, StorageColumnRef, Table, Transaction, TxnIterator};
        let opts = cfg.options(dir);
        let pre = self.manifest_diagnosis().0;
        let st = match std::panic::AssertUnwindSafe(SecondaryStorage::open(opts)).catch_unwind().await {
            Ok(Ok(s)) => Arc::new(s),
            Ok(Err(e)) => return Err(self.fail(format!("storage-open:error:{}", mask(&e.to_string(), 48)), format!("SecondaryStorage::open after the history: {e}"))),
            Err(_) => {
                let p = take_panics().pop().unwrap_or_default();
                return Err(match self.manifest_diagnosis().1 {
                    Some(diag) => self.fail(format!("reopen:panic:{DROPPED}"), format!("SecondaryStorage::open after the history panicked: {p}\n  diagnosis: {diag}")),
                    _ => self.fail(format!("storage-open:panic:{}", open_sig(&p)), format!("SecondaryStorage::open after the history panicked: {p}")),
                });
            }
        };
        for (n, tm) in &self.m.tables {
            let Some(id) = st.catalog().get_table_id_by_name("postgres", n) else {
                return Err(self.fail("storage-scan:table-missing".into(), format!("table {n} not in the catalog of the reopened storage")));
            };
            let fut = async {
                let table = st.get_table(id)?;
                let txn = table.read().await?;
                let cols: Vec<StorageColumnRef> = (0..tm.def.cols.len()).map(|i| StorageColumnRef::Idx(i as u32)).collect();
                let mut it = txn.scan(&cols, ScanOptions::default().with_sorted(true)).await?;
                let mut rows: Vec<Row> = vec![];
                while let Some(chunk) = it.next_batch(None).await? {
                    for r in chunk.rows() {
                        rows.push(r.values().map(|v| Val::from_dv(&v)).collect());
                    }
                }
                drop(it);
                txn.abort().await?;
                Ok::<_, risinglight::storage::TracedStorageError>(rows)
            };
            self.evals += 1;
            let rows = match std::panic::AssertUnwindSafe(fut).catch_unwind().await {
                Ok(Ok(r)) => r,
                Ok(Err(e)) => return Err(self.fail(format!("storage-scan:error:{}", mask(&e.to_string(), 48)), format!("sorted storage scan of {n}: {e}"))),
                Err(_) => {
                    let p = take_panics().pop().unwrap_or_default();
                    return Err(self.fail(format!("storage-scan:panic:{}", panic_sig(&p)), format!("sorted storage scan of {n} panicked: {p}")));
                }
            };
            if let Some(k) = tm.pk() {
                self.classes.insert("storage-level-sorted-scan-of-keyed-table");
                if let Some(w) = rows.windows(2).find(|w| w[0][k] > w[1][k]) {
                    return Err(self.fail("storage-scan:pk-order".into(), format!("scan(with_sorted) of {n} is not in key order: … {} before {} …", w[0][k], w[1][k])));
                }
            }
            let (want, got) = (tm.sorted_rows(), sorted(rows));
            if want != got {
                let (kind, d) = diff_kind(&want, &got);
                return Err(match (kind, &pre) {
                    ("row-lost", Some(diag)) => self.fail(format!("row-lost:{STALE}"), format!("scan(with_sorted) of {n} after the history: {d}\n  diagnosis: {diag}")),
                    _ => self.fail(format!("storage-scan:{kind}"), format!("scan(with_sorted) of {n} after the history: {d}")),
                });
            }
        }
        Ok(())
    }
}

pub fn run_history(ctx: &Ctx, case: &HistCase, which: Which, st: &mut Stats) -> Verdict {
    risinglight::verif::reset();
    let events: Events = Arc::new(Mutex::new(vec![]));
    let ev = events.clone();
    risinglight::verif::set_observer(Some(Arc::new(move |k: &str, d: &str| {
        if k == "compaction.commit" {
            ev.lock().unwrap().push(d.to_string());
        }
    })));
    let _ = take_panics();
    let p = match which {
        Which::C03 => "c03",
        Which::C07 => "c07",
    };
    let dir = ctx.case_dir(p).join("db");
    let mut run = Run {
        which,
        p,
        case,
        dir,
        m: Model::default(),
        events,
        ids: BTreeMap::new(),
        trace: vec![],
        reopens: 0,
        compactions: 0,
        nontrivial: false,
        classes: BTreeSet::new(),
        followup_no: 0,
        inserted_rows: 0,
        evals: 0,
        db_open: false,
        shutdown_diag: None,
    };
    let r = block_on(run.run());
    risinglight::verif::reset();
    st.evals(run.evals);
    for sw in &case.steered {
        st.excluded(sw);
    }
    for c in &run.classes {
        st.class(c);
    }
    // generator-side classes
    let mut created: BTreeSet<&str> = BTreeSet::new();
    let mut dropped: BTreeSet<&str> = BTreeSet::new();
    let (mut nontable_open, mut recreate, mut between) = (false, false, false);
    for op in &case.ops {
        match op {
            Op::CreateTable(d) => {
                recreate |= dropped.contains(d.name.as_str());
                between |= nontable_open && !created.is_empty();
                created.insert(&d.name);
            }
            Op::DropTable(n) => {
                dropped.insert(n);
            }
            Op::CreateView { .. } | Op::CreateIndex { .. } => nontable_open = true,
            Op::Reopen => nontable_open = false,
            _ => {}
        }
    }
    if recreate {
        st.class("drop+recreate-same-name");
    }
    if between {
        st.class("non-table-object-between-two-tables");
    }
    st.class(&format!("rowset-size-{}", case.cfg.rowset));
    if run.nontrivial {
        let keyed = run.m.tables.values().any(|t| t.pk().is_some());
        let fp: Vec<&str> = run.classes.iter().copied().collect();
        st.nontrivial((which, fp, keyed, recreate, between, case.cfg.rowset, case.cfg.block.min(1024), run.reopens.min(4), run.compactions.min(4), run.m.tables.len()));
    }
    match r {
        Ok(Ok(())) => Verdict::Pass,
        Ok(Err(Fail(sig, msg))) => fail(sig, msg),
        Err(p) => fail(format!("{}:harness-panic:{}", run.p, panic_sig(&p)), format!("{p}{}", run.ctx_msg())),
    }
}
