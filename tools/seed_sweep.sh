#!/bin/bash
# tools/seed_sweep.sh "<seeds>" [ids...]: run the quick tier under other VERIF_SEED values in a scratch
# VERIF_DIR (the committed evidence is not touched); prints one line per run. Development aid.
SEEDS=$1; shift
cd /verif
IDS=${@:-$(python3 -c "import json;print(' '.join(c['property_id'] for c in json.load(open('MANIFEST.json'))['checks']))")}
S=/tmp/seed_sweep; rm -rf $S; mkdir -p $S
ln -s /verif/known_findings.json $S/; ln -s /verif/findings $S/; ln -s /verif/oracle $S/
(cd harness && cargo build 2>/dev/null >&2)
for seed in $SEEDS; do for p in $IDS; do
  VERIF_DIR=$S VERIF_SEED=$seed harness/target/debug/rlv check $p --tier quick > $S/$p-$seed.out 2>&1; rc=$?
  echo "seed=$seed $p exit=$rc $(grep -E "^$p quick:" $S/$p-$seed.out | cut -c1-200) $(grep -m1 '^VIOLATION' $S/$p-$seed.out) $(grep -m1 '^INCONCLUSIVE' $S/$p-$seed.out)"
done; done
