//! Registry of the property checks.
use crate::engine::*;

pub mod selftest;

pub fn all() -> Vec<PropDef> {
    vec![selftest::def()]
}
