#!/bin/bash
# tools/mk_witness.sh <Cxx> <signature substring> <finding id> [scale]: search for one kind of failure only,
# shrink it, and save the replay file as findings/<finding id>.json  (development aid)
cd /verif
P=$1; SIG=$2; ID=$3; SC=${4:-1}
rm -rf replays/$P
RLV_ONLY_SIG="$SIG" VERIF_SCALE=$SC ./check $P quick > /tmp/mkw.log 2>&1
f=$(ls replays/$P/*.json 2>/dev/null | grep -v timeout | head -1)
if [ -z "$f" ]; then echo "no failure with '$SIG' found"; tail -3 /tmp/mkw.log; exit 1; fi
mkdir -p findings; cp "$f" findings/$ID.json
grep -m1 '"sig"' findings/$ID.json; grep "^violation" /tmp/mkw.log | cut -c1-300
