//! C16 — declared types and constraints hold for every stored and returned value.
//!
//! Part `rettypes` (a): generated queries over tables with columns of all types; every result
//! chunk must have as many columns as the select list, and every array's variant must equal the
//! static type (`TypeSchemaAnalysis` over a harness-side e-graph) of the executed plan *and* the
//! type the binder derived — for the optimised plan and for the bound plan executed as is. A
//! "type mismatch" panic of an output builder (builders are allocated from the static type) is
//! the same violation caught one step earlier.
//!
//! Part `stored` (b): INSERT … VALUES / INSERT … SELECT with column subsets, reordering and
//! implicit casts into tables with declared types, NOT NULL and PRIMARY KEY, on both engines;
//! after every statement `select *` must show: array variants = declared types, no NULL in a
//! NOT NULL / key column, every row the statement acknowledged (matched by an id column) holding
//! the inserted value converted by the reference conversion of `c16_ins` — or the statement
//! failed and the table is unchanged.
use std::collections::BTreeSet;

use proptest::prelude::*;
use risinglight::array::{ArrayImpl, DataChunk};
use risinglight::types::DataType;
use serde::{Deserialize, Serialize};

use super::c16_db::{ExecErr, Mini, Ran};
use super::c16_ins as ins;
use super::c16_q::{self as q, Query, Tab};
use crate::engine::*;
use crate::sqlrun::*;

pub fn def() -> PropDef {
    PropDef {
        id: "C16",
        level: "exploration",
        rule: "rettypes: random schema (2 tables, 13 column types, NULLs, 1-2 INSERTs each) and a random typed query \
               (expressions, CASE, casts, aggregates, GROUP BY, joins, DISTINCT, window functions, VALUES, derived table / CTE); \
               non-trivial = accepted by the binder, executed with at least one result chunk and containing something other than \
               plain column references; distinct by (engine, clause features, per-column expression kind and static type). \
               stored: random target table (1-4 typed columns, NOT NULL / PRIMARY KEY, id column at a random position) and 1-4 \
               INSERT statements (VALUES with mixed literal types, INSERT..SELECT from a typed source table, column lists \
               permuted / partial); non-trivial = some inserted value needs an implicit cast or is NULL / omitted for a \
               constrained column; distinct by (engine, column types+constraints, per statement the set of \
               source-kind -> column-type pairs and the outcome)",
        assumptions: vec![
            "the static type of a plan is what a fresh egg::EGraph<Expr, TypeSchemaAnalysis> derives for its root (the public analysis the executor builder itself uses)",
            "part (a) re-implements Database::run (parse, bind, optimize, build, collect) over a storage owned by the harness, with default statistics",
            "a conversion to DOUBLE from an exact numeric may be off by one ulp from the correctly rounded value; to VARCHAR the stored text only has to convert back to the same value",
            "a statement that fails (error, rejection or panic out of Database::run) only has to leave the table unchanged; whether it should have succeeded is not C16's question",
        ],
        min_nontrivial: 200,
        parts: vec![
            part("rettypes", 26_000, 550_000, |_ctx| a_strategy(), test_a),
            part("stored", 9_000, 180_000, |_ctx| ins::strategy(), ins::test),
        ],
    }
}

// ---------------------------------------------------------------------------------------------
// part (a)

#[derive(Clone, Debug, Serialize, Deserialize)]
pub struct ACase {
    pub disk: bool,
    pub tabs: Vec<Tab>,
    pub q: Query,
}

fn a_strategy() -> impl Strategy<Value = ACase> {
    (prop::bool::weighted(0.2), q::tab_strategy(5), q::tab_strategy(3), q::query_strategy())
        .prop_map(|(disk, t0, t1, q)| ACase { disk, tabs: vec![t0, t1], q })
}

pub fn tkind(t: &DataType) -> &'static str {
    match t {
        DataType::Null => "Null",
        DataType::Bool => "Bool",
        DataType::Int16 => "Int16",
        DataType::Int32 => "Int32",
        DataType::Int64 => "Int64",
        DataType::Float64 => "Float64",
        DataType::Decimal(_, _) => "Decimal",
        DataType::Date => "Date",
        DataType::Timestamp => "Timestamp",
        DataType::TimestampTz => "TimestampTz",
        DataType::Interval => "Interval",
        DataType::String => "String",
        DataType::Blob => "Blob",
        DataType::Struct(_) => "Struct",
        DataType::Vector(_) => "Vector",
    }
}

pub fn akind(a: &ArrayImpl) -> &'static str {
    match a {
        ArrayImpl::Null(_) => "Null",
        ArrayImpl::Bool(_) => "Bool",
        ArrayImpl::Int16(_) => "Int16",
        ArrayImpl::Int32(_) => "Int32",
        ArrayImpl::Int64(_) => "Int64",
        ArrayImpl::Float64(_) => "Float64",
        ArrayImpl::Decimal(_) => "Decimal",
        ArrayImpl::Date(_) => "Date",
        ArrayImpl::Timestamp(_) => "Timestamp",
        ArrayImpl::TimestampTz(_) => "TimestampTz",
        ArrayImpl::Interval(_) => "Interval",
        ArrayImpl::String(_) => "String",
        ArrayImpl::Blob(_) => "Blob",
        ArrayImpl::Vector(_) => "Vector",
    }
}

struct ARun {
    opt: bool,
    ran: Ran,
    panics: Vec<String>,
}

fn struct_kinds(t: &Result<DataType, String>) -> Option<Vec<&'static str>> {
    match t {
        Ok(DataType::Struct(v)) => Some(v.iter().map(tkind).collect()),
        _ => None,
    }
}

/// The builder-side symptom of a static/runtime type difference.
fn push_mismatch(p: &str) -> bool {
    p.starts_with("failed to push value: type mismatch")
}

fn test_a(ctx: &Ctx, case: &ACase, st: &mut Stats) -> Verdict {
    if case.tabs.len() != 2 || case.tabs.iter().any(|t| t.cols.is_empty()) {
        return Verdict::Discard("malformed case");
    }
    let sch = q::schema_of(&case.tabs);
    let rq = q::render(&case.q, &sch, !ctx.off("gen.const_null_operand"), !ctx.off("gen.window_arg"), !ctx.off("gen.arith_identity"), !ctx.off("gen.cte_over_agg_expr"));
    for s in &rq.steered {
        st.excluded(s);
    }
    let setup: Vec<String> =
        case.tabs.iter().enumerate().flat_map(|(i, t)| q::setup_sql(&format!("t{i}"), ["c", "d"][i], t)).collect();
    // statement + schema, for failure messages
    let sqlx = format!("{}\n  [{}] setup: {}", rq.sql, if case.disk { "disk" } else { "mem" }, setup.join("; "));
    if std::env::var("RLV_DEBUG_C16").as_deref() == Ok("sql") {
        eprintln!("[c16 sql] {sqlx}");
    }
    let dir = case.disk.then(|| ctx.case_dir("c16a"));
    let res = block_on(async {
        let db = match &dir {
            Some(d) => Mini::disk(&DiskCfg::small(), d).await?,
            None => Mini::mem(),
        };
        let mut setup_ok = true;
        'setup: {
            for sql in &setup {
                let _ = take_panics();
                let ok = matches!(db.run(sql, true).await, Ran::Bound { exec: Ok(_), .. });
                let p = take_panics();
                if (!ok || !p.is_empty()) && std::env::var("RLV_DEBUG_C16").is_ok() {
                    eprintln!("[c16 setup failed] {sql} panics={p:?}");
                }
                if !ok || !p.is_empty() {
                    setup_ok = false;
                    break 'setup;
                }
            }
        }
        let mut runs = vec![];
        if setup_ok {
            for opt in [true, false] {
                if !opt && !rq.noopt_ok {
                    continue; // Apply nodes / RIGHT and FULL joins are only executable after optimisation
                }
                let _ = take_panics();
                let ran = db.run(&rq.sql, opt).await;
                settle().await;
                let panics = take_panics();
                if !panics.is_empty() && std::env::var("RLV_DEBUG_C16").is_ok() {
                    eprintln!("[c16 panic] opt={opt} {} :: {}", panics[0], rq.sql);
                }
                runs.push(ARun { opt, ran, panics });
            }
        }
        db.shutdown().await;
        Ok::<_, String>((setup_ok, runs))
    });
    let (setup_ok, runs) = match res {
        Ok(Ok(x)) => x,
        Ok(Err(e)) => return fail("rettypes:open", format!("cannot open the database: {e}")),
        Err(p) => return fail("rettypes:harness-panic", format!("panic outside a statement: {p}")),
    };
    if !setup_ok {
        return Verdict::Discard("setup statement failed");
    }
    let mut compared = 0usize;
    let mut fp_cols: Vec<(&'static str, &'static str)> = vec![];
    for run in &runs {
        st.eval();
        let how = if run.opt { "opt" } else { "noopt" };
        let (bound_ty, plan_ty, exec) = match &run.ran {
            Ran::Rejected(_) => {
                return Verdict::Discard("query not accepted (parse/bind)");
            }
            Ran::Bound { bound_ty, plan_ty, exec } => (bound_ty, plan_ty, exec),
        };
        // 1. a builder allocated from the static type was handed a value of another type
        if let Some(p) = run.panics.iter().find(|p| push_mismatch(p)).or(match exec {
            Err(ExecErr::Panic(p)) if push_mismatch(p) => Some(p),
            _ => None,
        }) {
            let feat = if rq.feats.contains("window") {
                "window".to_string()
            } else {
                rq.feats.iter().filter(|f| !matches!(**f, "where" | "order-by" | "limit")).cloned().collect::<Vec<_>>().join("+")
            };
            return fail(
                format!("rettypes:builder-mismatch:{feat}"),
                format!(
                    "[{how}] an operator produced a value whose type differs from the static type its output builder was allocated from: {p}\n  sql: {}\n  static type of the executed plan: {:?}",
                    sqlx,
                    plan_ty.as_ref().map(|t| t.to_string())
                ),
            );
        }
        let chunks: &Vec<DataChunk> = match exec {
            Ok(c) => c,
            Err(ExecErr::Error(_)) => {
                st.class(&format!("a:{how}:exec-error"));
                continue;
            }
            Err(ExecErr::Panic(_)) => {
                st.class(&format!("a:{how}:exec-panic"));
                continue;
            }
        };
        if !run.panics.is_empty() {
            st.class(&format!("a:{how}:task-panic"));
        }
        let (Some(pk), Some(bk)) = (struct_kinds(plan_ty), struct_kinds(bound_ty)) else {
            st.class(&format!("a:{how}:no-static-type"));
            continue;
        };
        // 2. the plan has as many output columns as the select list
        for (which, k) in [("plan", &pk), ("binder", &bk)] {
            if k.len() != rq.ncols {
                return fail(
                    format!("rettypes:colcount:{which}"),
                    format!("[{how}] select list has {} columns, the {which}'s static type has {}: {:?}\n  sql: {}", rq.ncols, k.len(), k, sqlx),
                );
            }
        }
        st.class(&format!("a:{how}:ok"));
        if chunks.is_empty() {
            if run.panics.is_empty() && std::env::var("RLV_DEBUG_C16").is_ok() {
                eprintln!("[c16 nochunk] {how} {}", rq.sql);
            }
            st.class(&format!("a:{how}:ok-no-chunk"));
        }
        for (ci, ch) in chunks.iter().enumerate() {
            let arrs = ch.arrays();
            if arrs.len() != rq.ncols {
                return fail(
                    "rettypes:colcount:chunk",
                    format!("[{how}] chunk #{ci} has {} columns, the select list has {}\n  sql: {}", arrs.len(), rq.ncols, sqlx),
                );
            }
            for (j, a) in arrs.iter().enumerate() {
                compared += 1;
                let rk = akind(a);
                let kind = rq.kinds.get(j).copied().unwrap_or("?");
                if rk != pk[j] {
                    return fail(
                        format!("rettypes:plan:{kind}:{}!={rk}", pk[j]),
                        format!(
                            "[{how}] column {j} ({kind}) of chunk #{ci}: static type of the executed plan is {}, the array is {rk}\n  sql: {}\n  plan type: {:?}",
                            pk[j], sqlx, pk
                        ),
                    );
                }
                if rk != bk[j] {
                    let sig = if pk[j] == "Null" {
                        // the optimiser replaced a typed expression by an untyped NULL
                        "rettypes:binder:optimizer-retyped-to-null".to_string()
                    } else if run.opt {
                        // the executed plan is self-consistent: the optimiser changed the type
                        format!("rettypes:binder:optimizer-retyped:{}->{rk}", bk[j])
                    } else {
                        format!("rettypes:binder:{kind}:{}!={rk}", bk[j])
                    };
                    return fail(
                        sig,
                        format!(
                            "[{how}] column {j} ({kind}) of chunk #{ci}: the binder derived {}, the returned array is {rk} (static type of the executed plan: {})\n  sql: {}",
                            bk[j], pk[j], sqlx
                        ),
                    );
                }
                if a.len() != ch.cardinality() {
                    return fail("rettypes:ragged-chunk", format!("[{how}] column {j} has {} values, the chunk {} rows\n  sql: {}", a.len(), ch.cardinality(), sqlx));
                }
            }
            if ci == 0 && fp_cols.is_empty() {
                fp_cols = rq.kinds.iter().copied().zip(pk.iter().copied()).collect();
            }
        }
    }
    for f in &rq.feats {
        st.class(&format!("a:feat:{f}"));
    }
    st.class(if case.disk { "a:engine:disk" } else { "a:engine:mem" });
    let plain = rq.kinds.iter().all(|k| *k == "col") && !rq.feats.iter().any(|f| f.starts_with("join") || *f == "distinct" || *f == "group-by");
    if compared > 0 && !plain {
        for (k, t) in &fp_cols {
            st.class(&format!("a:col:{k}"));
            st.class(&format!("a:type:{t}"));
        }
        let feats: BTreeSet<&str> = rq.feats.iter().copied().collect();
        st.nontrivial(("a", case.disk, feats, fp_cols));
    }
    Verdict::Pass
}
