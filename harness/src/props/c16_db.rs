//! C16 helper: the few lines of `Database::run` re-implemented over a storage the harness owns, so
//! that the catalog (needed for the static type of a plan) and the executed plan are visible.
use std::panic::AssertUnwindSafe;
use std::path::Path;
use std::sync::Arc;

use futures::{FutureExt, TryStreamExt};
use risinglight::array::DataChunk;
use risinglight::binder::Binder;
use risinglight::catalog::RootCatalogRef;
use risinglight::planner::{Config, Expr, Optimizer, RecExpr, Statistics, TypeSchemaAnalysis};
use risinglight::storage::{InMemoryStorage, SecondaryStorage};
use risinglight::types::DataType;

use crate::sqlrun::{DiskCfg, settle, take_panics};

pub enum Store {
    Mem(Arc<InMemoryStorage>),
    Disk(Arc<SecondaryStorage>),
}

pub struct Mini {
    pub catalog: RootCatalogRef,
    pub store: Store,
}

/// What one statement did.
pub enum Ran {
    /// parse / bind error or a panic while binding: the statement is not accepted
    Rejected(String),
    /// the statement was bound; `exec` is what executing the plan gave
    Bound { bound_ty: Result<DataType, String>, plan_ty: Result<DataType, String>, exec: Result<Vec<DataChunk>, ExecErr> },
}

pub enum ExecErr {
    Error(String),
    /// panic that escaped the executor / optimizer
    Panic(String),
}

fn last_panic() -> String {
    take_panics().pop().unwrap_or_else(|| "panic".into())
}

/// Static type of a plan: `TypeSchemaAnalysis` data of its root in a fresh e-graph.
pub fn static_type(catalog: &RootCatalogRef, plan: &RecExpr) -> Result<DataType, String> {
    let mut eg = egg::EGraph::<Expr, TypeSchemaAnalysis>::new(TypeSchemaAnalysis { catalog: catalog.clone() });
    let root = eg.add_expr(plan);
    eg[root].data.type_.clone().map_err(|e| e.to_string())
}

impl Mini {
    pub fn mem() -> Mini {
        let s = InMemoryStorage::new();
        Mini { catalog: s.catalog().clone(), store: Store::Mem(Arc::new(s)) }
    }

    pub async fn disk(cfg: &DiskCfg, path: &Path) -> Result<Mini, String> {
        let opts = cfg.options(path);
        let r = AssertUnwindSafe(async {
            let s = Arc::new(SecondaryStorage::open(opts).await.map_err(|e| e.to_string())?);
            s.spawn_compactor().await;
            Ok::<_, String>(s)
        })
        .catch_unwind()
        .await;
        match r {
            Ok(Ok(s)) => {
                settle().await;
                Ok(Mini { catalog: s.catalog().clone(), store: Store::Disk(s) })
            }
            Ok(Err(e)) => Err(e),
            Err(_) => Err(last_panic()),
        }
    }

    pub async fn shutdown(&self) {
        if let Store::Disk(s) = &self.store {
            let _ = AssertUnwindSafe(s.shutdown()).catch_unwind().await;
        }
    }

    fn optimizer(&self) -> Optimizer {
        let disk = matches!(self.store, Store::Disk(_));
        Optimizer::new(
            self.catalog.clone(),
            Statistics::default(),
            Config { enable_range_filter_scan: disk, table_is_sorted_by_primary_key: disk },
        )
    }

    /// Run one statement the way `Database::run` does; `optimize == false` executes the bound plan
    /// as `pragma disable_optimizer` would. The static type is that of the executed plan.
    pub async fn run(&self, sql: &str, optimize: bool) -> Ran {
        let stmt = match std::panic::catch_unwind(|| risinglight::parser::parse(sql)) {
            Ok(Ok(mut v)) if v.len() == 1 => v.pop().unwrap(),
            Ok(Ok(_)) => return Ran::Rejected("not exactly one statement".into()),
            Ok(Err(e)) => return Ran::Rejected(format!("parse: {e}")),
            Err(_) => return Ran::Rejected(format!("parse panic: {}", last_panic())),
        };
        let catalog = self.catalog.clone();
        let bound = std::panic::catch_unwind(AssertUnwindSafe(|| Binder::new(catalog).bind(stmt)));
        let plan = match bound {
            Ok(Ok(p)) => p,
            Ok(Err(e)) => return Ran::Rejected(format!("bind: {e}")),
            Err(_) => return Ran::Rejected(format!("bind panic: {}", last_panic())),
        };
        let optimizer = self.optimizer();
        let bound_ty = std::panic::catch_unwind(AssertUnwindSafe(|| static_type(&self.catalog, &plan)))
            .unwrap_or_else(|_| Err(format!("type analysis panic: {}", last_panic())));
        let plan = if optimize {
            let o = optimizer.clone();
            match std::panic::catch_unwind(AssertUnwindSafe(|| o.optimize(plan))) {
                Ok(p) => p,
                Err(_) => {
                    return Ran::Bound { bound_ty, plan_ty: Err("-".into()), exec: Err(ExecErr::Panic(last_panic())) };
                }
            }
        } else {
            plan
        };
        let plan_ty = std::panic::catch_unwind(AssertUnwindSafe(|| static_type(&self.catalog, &plan)))
            .unwrap_or_else(|_| Err(format!("type analysis panic: {}", last_panic())));
        let fut = async {
            let ex = match &self.store {
                Store::Mem(s) => risinglight::executor::build(optimizer.clone(), s.clone(), &plan),
                Store::Disk(s) => risinglight::executor::build(optimizer.clone(), s.clone(), &plan),
            };
            ex.try_collect::<Vec<DataChunk>>().await
        };
        let exec = match AssertUnwindSafe(fut).catch_unwind().await {
            Ok(Ok(c)) => Ok(c),
            Ok(Err(e)) => Err(ExecErr::Error(e.to_string())),
            Err(_) => Err(ExecErr::Panic(last_panic())),
        };
        Ran::Bound { bound_ty, plan_ty, exec }
    }
}
