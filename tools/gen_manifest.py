#!/usr/bin/env python3
"""Regenerates /verif/MANIFEST.json from tools/checks.json (one entry per claimed property)."""
import json, os, subprocess
V = os.path.dirname(os.path.dirname(os.path.abspath(__file__)))
props = [json.loads(l) for l in open(os.path.join(V, 'properties.jsonl'))]
checks = json.load(open(os.path.join(V, 'tools', 'checks.json')))
hooks = subprocess.run(['git', '-C', '/repo', 'log', '--format=%H %s', 'e5b03f1..HEAD'], capture_output=True, text=True).stdout.strip().splitlines()
hook_commits = [l.split()[0] for l in hooks if l.split(' ', 1)[1].startswith('verif:')]
m = {
  "version": 1,
  "setup_cmd": "./check --setup",
  "hooks": {
    "guard": "cargo feature `verif` of the risinglight crate",
    "enable": "the harness crate /verif/harness depends on risinglight with `features = [\"verif\"]` (path dependency on /repo); `./check` runs `cargo build` there, which rebuilds risinglight from /repo's working tree",
    "baseline_off_cmd": "cd /repo && cargo nextest run --workspace --no-fail-fast --test-threads 8 --offline || cargo test --workspace --no-fail-fast --offline",
    "source_commits": hook_commits,
    "add_only": True,
  },
  "engines": [{
    "name": "rlv",
    "path": "harness/",
    "serves_properties": sorted(checks.keys()),
    "kind_free_text": "one Rust binary: per-case seeded proptest generation + shrinking, explicit oracles per property, worker processes with watchdog; entry ./check",
  }],
  "checks": [],
  "not_applicable": [],
  "notes": "Exit codes of every command: 0 held, 1 violation (VIOLATION line), 2 inconclusive (build failure, watchdog, generator health). Known findings: known_findings.json. See DESIGN.md.",
}
for p in props:
    pid = p['id']
    if pid in checks:
        c = checks[pid]
        m['checks'].append({
            "property_id": pid,
            "quick_cmd": f"./check {pid} quick",
            "thorough_cmd": f"./check {pid} thorough",
            "evidence_file": f"evidence/{pid}.json",
            "replay_cmd_template": f"./check {pid} --replay {{path}}",
            "engine": "rlv",
            "level_claimed": {"category": c['level'], "text": c['text'], "design_ref": c['design_ref']},
            "level_note": c['note'],
            "technique": c['technique'],
        })
    else:
        m['not_applicable'].append({"property_id": pid, "reason": "no check registered yet: the generated check for this property is still being built (see DESIGN.md section 10 for the order of work)"})
json.dump(m, open(os.path.join(V, 'MANIFEST.json'), 'w'), indent=1)
print("checks:", len(m['checks']), "not_applicable:", len(m['not_applicable']))
