#!/bin/bash
# tools/run_seeded.sh <seeded/dir> [check ids...]: apply the seeded change to /repo, run the quick tier of
# the named checks (default: the property in meta.json), record the verdicts, undo the change.
set -u
D=$(cd "$1" && pwd); shift
cd /verif
P=$(python3 -c "import json;print(json.load(open('$D/meta.json'))['property'])")
CHECKS=${@:-$P}
if [ -n "$(git -C /repo status --porcelain)" ]; then echo "/repo not clean"; exit 2; fi
git -C /repo apply "$D/patch.diff" || { echo "patch does not apply"; exit 2; }
RES="{"
for c in $CHECKS; do
  out=$(./check $c quick 2>&1); rc=$?
  v=$(echo "$out" | grep -m1 "^violation" | cut -c1-400 | python3 -c "import sys,json; print(json.dumps(sys.stdin.read().strip()))")
  echo "$c: exit=$rc $(echo "$out" | grep -m1 '^VIOLATION')"
  RES="$RES\"$c\": {\"exit\": $rc, \"first_violation\": $v},"
done
git -C /repo checkout -- . ; git -C /repo clean -fdq tests/ 2>/dev/null
RES="${RES%,}}"
python3 - <<PY
import json
r=json.loads('''$RES''')
json.dump({"checks_run_quick_tier": r, "caught_by": [k for k,v in r.items() if v["exit"]==1]}, open("$D/result.json","w"), indent=1)
PY
