//! The owned schedule shared by C08 and C09 (DESIGN §5.8/§5.9).
//!
//! All actors (client statements, harness-driven readers, the real compactor and the real
//! vacuum task) run as tokio tasks of one current-thread runtime with a paused clock. Every
//! actor that reaches `risinglight::verif::gate(name)` parks on a oneshot channel; the scheduler
//! waits for *quiescence* (nothing runnable, no blocking I/O in flight — read from the runtime
//! metrics), then performs exactly one action picked by the next element of the case's choice
//! vector: release one parked actor, start the next statement of a session, step a reader,
//! or advance the clock by 1.1 s (= the compactor wakes up for one pass).
//! A schedule is thus a value (workload + choice vector): serialisable, shrinkable, replayable.
//!
//! This module runs a workload and returns what happened (`Run`); the oracles live in
//! `c08.rs` / `c09.rs`.

use std::collections::BTreeSet;
use std::panic::AssertUnwindSafe;
use std::path::{Path, PathBuf};
use std::sync::{Arc, Mutex, Weak};

use futures::{FutureExt, TryStreamExt};
use risinglight::catalog::{RootCatalogRef, TableRefId};
use risinglight::planner::{Config as PlanConfig, Optimizer, Statistics};
use risinglight::storage::{
    ScanOptions, SecondaryStorage, Storage, StorageColumnRef, Table, Transaction, TxnIterator,
};
use serde::{Deserialize, Serialize};
use tokio::sync::{mpsc, oneshot};

use crate::engine::Ctx;
use crate::gens::tape::Tape;
use crate::sqlrun::*;

// ---------------------------------------------------------------------------------------------
// workload (the serialisable case)

#[derive(Clone, Debug, PartialEq, Eq, Hash, Serialize, Deserialize)]
pub struct TableSpec {
    pub name: String,
    pub pk: bool,
    /// rows loaded before the schedule starts, one INSERT statement (= row-set) per batch
    pub init: Vec<Vec<(i32, i32)>>,
    /// ids deleted (one DELETE statement) after loading: gives the row-sets delete vectors
    pub init_delete: Vec<i32>,
}

#[derive(Clone, Debug, PartialEq, Eq, Hash, Serialize, Deserialize)]
pub enum Stmt {
    Insert { t: usize, rows: Vec<(i32, i32)> },
    /// `form`: 0 = `id in (..)`, 1 = `id = a or id = b ..`, 2 = `id >= lo and id <= hi`
    Delete { t: usize, ids: Vec<i32>, form: u8 },
    Drop { t: usize },
}

impl Stmt {
    pub fn table(&self) -> usize {
        match self {
            Stmt::Insert { t, .. } | Stmt::Delete { t, .. } | Stmt::Drop { t } => *t,
        }
    }
    pub fn is_delete(&self) -> bool {
        matches!(self, Stmt::Delete { .. })
    }
    pub fn kind(&self) -> &'static str {
        match self {
            Stmt::Insert { .. } => "insert",
            Stmt::Delete { .. } => "delete",
            Stmt::Drop { .. } => "drop",
        }
    }
    pub fn sql(&self, tables: &[TableSpec]) -> String {
        let name = &tables[self.table()].name;
        match self {
            Stmt::Insert { rows, .. } => insert_sql(name, rows),
            Stmt::Delete { ids, form, .. } => delete_sql(name, ids, *form),
            Stmt::Drop { .. } => format!("drop table {name}"),
        }
    }
}

pub fn insert_sql(name: &str, rows: &[(i32, i32)]) -> String {
    let vals: Vec<String> = rows.iter().map(|(a, b)| format!("({a}, {b})")).collect();
    format!("insert into {name} values {}", vals.join(", "))
}

pub fn delete_sql(name: &str, ids: &[i32], form: u8) -> String {
    let list = |sep: &str, f: &dyn Fn(&i32) -> String| ids.iter().map(f).collect::<Vec<_>>().join(sep);
    match form {
        1 => format!("delete from {name} where {}", list(" or ", &|i| format!("id = {i}"))),
        2 => {
            let (lo, hi) = (ids.iter().min().unwrap(), ids.iter().max().unwrap());
            format!("delete from {name} where id >= {lo} and id <= {hi}")
        }
        _ => format!("delete from {name} where id in ({})", list(", ", &|i| i.to_string())),
    }
}

#[derive(Clone, Debug, PartialEq, Eq, Hash, Serialize, Deserialize)]
pub struct ReaderSpec {
    pub t: usize,
    /// ask the storage for a key-ordered (merging) scan
    pub sorted: bool,
}

#[derive(Clone, Debug, Serialize, Deserialize)]
pub struct Workload {
    pub disk: DiskCfg,
    pub tables: Vec<TableSpec>,
    /// one free-running compactor pass after loading
    pub tick_after_load: bool,
    /// client sessions; the statements of one session run one after the other
    pub sessions: Vec<Vec<Stmt>>,
    pub readers: Vec<ReaderSpec>,
    /// how many clock advances (compactor passes) the schedule may contain
    pub ticks: u32,
    /// which gates park their actor (bit i = GATES[i]); the others are only logged
    pub gate_mask: u32,
    /// keep every DELETE on a table apart from a compactor pass that has pinned its snapshot
    /// and not yet handled that table (the history pattern of the open finding of C09)
    pub avoid: bool,
    /// the same separation for DROP TABLE (open finding of C08)
    #[serde(default)]
    pub avoid_drop: bool,
    /// shutdown + reopen at the end (real directory only)
    pub reopen: bool,
    pub choices: Vec<u32>,
}

pub const GATES: [&str; 15] = [
    "txn.update.after_pin",
    "txn.commit.start",
    "txn.commit.before_changes",
    "txn.commit.after_changes",
    "vm.commit.after_snapshot",
    "vm.commit.after_append",
    "vm.vacuum.before_unlink",
    "ddl.create.after_persist",
    "ddl.drop.after_apply",
    "compactor.pass.start",
    "compactor.after_pin",
    "compactor.table.before_lock",
    "compactor.table.before_commit",
    "compactor.table.after_commit",
    "compactor.pass.end",
];

pub fn gate_bit(name: &str) -> u32 {
    GATES.iter().position(|g| *g == name).map(|i| 1u32 << i).unwrap_or(0)
}

// ---------------------------------------------------------------------------------------------
// a database over a storage handle we own

pub type DiskTxn = <SecondaryStorage as Storage>::Transaction;
pub type DiskIter = <DiskTxn as Transaction>::TxnIteratorType;

#[derive(Clone)]
pub struct DiskDb {
    pub storage: Arc<SecondaryStorage>,
    pub catalog: RootCatalogRef,
}

/// Panics of the current case (`take_panics` drains the recorder of `sqlrun`; they are kept here).
static SEEN_PANICS: Mutex<Vec<String>> = Mutex::new(Vec::new());

fn collect_panics() {
    let new = take_panics();
    SEEN_PANICS.lock().unwrap().extend(new.iter().map(|p| first_line(p)));
}

fn last_panic() -> String {
    collect_panics();
    SEEN_PANICS.lock().unwrap().last().cloned().unwrap_or_else(|| "panic".into())
}

/// A panic message without the backtrace some error types print into it.
pub fn first_line(p: &str) -> String {
    if !p.contains('\n') {
        return p.to_string();
    }
    let loc = p.rsplit_once(" @ ").map(|x| x.1).unwrap_or("");
    format!("{} @ {loc}", p.lines().next().unwrap_or(""))
}

/// The numeric id of the current tokio task (ids are handed out by one global counter).
fn task_no(id: tokio::task::Id) -> u64 {
    id.to_string().parse().unwrap_or(0)
}

fn task_marker() -> u64 {
    task_no(tokio::spawn(async {}).id())
}

impl DiskDb {
    /// Open the storage, start compactor and vacuum (as `Database::new_on_disk` does) and let
    /// the open-time compactor pass finish.
    pub async fn open(cfg: &DiskCfg, path: &Path) -> Result<DiskDb, String> {
        let opts = cfg.options(path);
        match AssertUnwindSafe(SecondaryStorage::open(opts)).catch_unwind().await {
            Ok(Ok(st)) => {
                let storage = Arc::new(st);
                storage.spawn_compactor().await;
                settle().await;
                Ok(DiskDb { catalog: storage.catalog().clone(), storage })
            }
            Ok(Err(e)) => Err(format!("open failed: {e}")),
            Err(_) => Err(format!("open panicked: {}", last_panic())),
        }
    }

    /// What `Database::run` does for one statement; `built(lo, hi)` is told the range of tokio
    /// task ids in which all operator tasks of the statement lie.
    pub async fn run(&self, sql: &str, built: impl FnOnce(u64, u64)) -> Out {
        let stmt = match risinglight::parser::parse(sql) {
            Ok(mut v) if !v.is_empty() => v.remove(0),
            Ok(_) => return Out::Rejected("empty".into()),
            Err(e) => return Out::Rejected(e.to_string()),
        };
        let catalog = self.catalog.clone();
        let plan = match std::panic::catch_unwind(AssertUnwindSafe(move || {
            risinglight::binder::Binder::new(catalog).bind(stmt)
        })) {
            Ok(Ok(p)) => p,
            Ok(Err(e)) => return Out::Rejected(e.to_string()),
            Err(_) => return Out::Panicked(last_panic()),
        };
        let cfg = PlanConfig { enable_range_filter_scan: true, table_is_sorted_by_primary_key: true };
        let opt = Optimizer::new(self.catalog.clone(), Statistics::default(), cfg);
        let plan = match std::panic::catch_unwind(AssertUnwindSafe(|| opt.optimize(plan))) {
            Ok(p) => p,
            Err(_) => return Out::Panicked(last_panic()),
        };
        let storage = self.storage.clone();
        let fut = async move {
            let lo = task_marker();
            let exec = risinglight::executor::build(opt, storage, &plan);
            built(lo, task_marker());
            exec.try_collect::<Vec<_>>().await
        };
        match AssertUnwindSafe(fut).catch_unwind().await {
            Ok(Ok(chunks)) => {
                let mut rows = vec![];
                for c in &chunks {
                    for r in c.rows() {
                        rows.push(r.values().map(|v| Val::from_dv(&v)).collect());
                    }
                }
                Out::Rows(rows)
            }
            Ok(Err(e)) => Out::Failed(e.to_string()),
            Err(_) => Out::Panicked(last_panic()),
        }
    }

    pub async fn sql(&self, sql: &str) -> Out {
        self.run(sql, |_, _| {}).await
    }

    pub fn table_id(&self, name: &str) -> Option<TableRefId> {
        self.catalog.get_table_id_by_name("postgres", name)
    }

    pub async fn shutdown(&self) -> Result<(), String> {
        match AssertUnwindSafe(self.storage.shutdown()).catch_unwind().await {
            Ok(Ok(())) => Ok(()),
            Ok(Err(e)) => Err(e.to_string()),
            Err(_) => Err(format!("panic in shutdown: {}", last_panic())),
        }
    }

    /// Row-sets of the current version: pin it (any table will do) and read the introspection.
    pub async fn current_rowsets(&self, tables: &[TableRefId]) -> Option<BTreeSet<(u32, u32)>> {
        for t in tables {
            let Ok(table) = self.storage.get_table(*t) else { continue };
            let Ok(txn) = table.read().await else { continue };
            let (epoch, pinned, _) = self.storage.verif_state();
            let r = pinned.into_iter().find(|(e, _)| *e == epoch).map(|(_, rs)| rs.into_iter().collect());
            drop(txn);
            return r;
        }
        None
    }
}

/// Directories `<table>_<rowset>` below the database directory.
pub fn rowset_dirs(path: &Path) -> BTreeSet<(u32, u32)> {
    let mut s = BTreeSet::new();
    if let Ok(rd) = std::fs::read_dir(path) {
        for e in rd.flatten() {
            if !e.path().is_dir() {
                continue;
            }
            let name = e.file_name().to_string_lossy().to_string();
            if let Some((a, b)) = name.split_once('_') {
                if let (Ok(a), Ok(b)) = (a.parse(), b.parse()) {
                    s.insert((a, b));
                }
            }
        }
    }
    s
}

// ---------------------------------------------------------------------------------------------
// trace

#[derive(Clone, Copy, Debug, PartialEq, Eq, PartialOrd, Ord, Hash, Serialize, Deserialize)]
pub enum Actor {
    Compactor,
    Vacuum,
    Stmt(usize),
    Reader(usize),
    Sched,
    Other,
}

#[derive(Clone, Debug, PartialEq, Eq)]
pub enum EvKind {
    /// an actor reached a gate (and parked there, or not)
    Arrive { gate: String, parked: bool },
    Release { gate: String },
    /// observer event of the engine
    Event { kind: String, detail: String },
    Start { stmt: usize },
    Finish { stmt: usize },
    /// reader step: "open" (pin) | "open:no-table" | "scan" | "next" | "end" | "close" | "error"
    Reader { what: &'static str },
    Tick,
}

#[derive(Clone, Debug)]
pub struct Ev {
    pub seq: u64,
    pub actor: Actor,
    pub kind: EvKind,
}

struct Parked {
    actor: Actor,
    gate: String,
    tx: oneshot::Sender<()>,
}

#[derive(Default)]
struct Shared {
    armed: bool,
    mask: u32,
    parked: Vec<Parked>,
    /// (lo, hi, statement): tokio task ids of the operator tasks of a statement
    ranges: Vec<(u64, u64, usize)>,
    compactor_task: Option<u64>,
    trace: Vec<Ev>,
    outs: Vec<Option<Out>>,
    /// violations of the unlink rule seen by the observer: (signature, message)
    unlink_violations: Vec<(String, String)>,
    storage: Option<Weak<SecondaryStorage>>,
}

impl Shared {
    fn log(&mut self, actor: Actor, kind: EvKind) -> u64 {
        let seq = self.trace.len() as u64;
        self.trace.push(Ev { seq, actor, kind });
        seq
    }
    fn classify(&mut self, gate: &str, task: u64) -> Actor {
        if gate.starts_with("compactor.") {
            self.compactor_task = Some(task);
            return Actor::Compactor;
        }
        if gate.starts_with("vm.vacuum.") {
            return Actor::Vacuum;
        }
        if let Some((_, _, k)) = self.ranges.iter().rev().find(|(lo, hi, _)| *lo < task && task < *hi) {
            return Actor::Stmt(*k);
        }
        if self.compactor_task == Some(task) {
            return Actor::Compactor;
        }
        Actor::Other
    }
}

type Sh = Arc<Mutex<Shared>>;

fn install_hooks(sh: &Sh) {
    let s = sh.clone();
    risinglight::verif::set_gate(Some(Arc::new(move |name: &str| {
        let name = name.to_string();
        let s = s.clone();
        Box::pin(async move {
            let task = tokio::task::try_id().map(task_no).unwrap_or(0);
            let rx = {
                let mut g = s.lock().unwrap();
                if !g.armed {
                    return;
                }
                let actor = g.classify(&name, task);
                let parked = g.mask & gate_bit(&name) != 0;
                g.log(actor, EvKind::Arrive { gate: name.clone(), parked });
                if !parked {
                    return;
                }
                let (tx, rx) = oneshot::channel();
                g.parked.push(Parked { actor, gate: name, tx });
                rx
            };
            let _ = rx.await;
        })
    })));
    let s = sh.clone();
    risinglight::verif::set_observer(Some(Arc::new(move |kind: &str, detail: &str| {
        let actor = match kind {
            "vacuum.rowset" => Actor::Vacuum,
            "compaction.commit" | "compactor.table" => Actor::Compactor,
            _ => return,
        };
        let mut g = s.lock().unwrap();
        if kind == "vacuum.rowset" {
            // the rule of the property: a row-set is removed only when no pinned version contains it
            let id = detail.split_once('_').and_then(|(a, b)| Some((a.parse::<u32>().ok()?, b.parse::<u32>().ok()?)));
            if let (Some(id), Some(st)) = (id, g.storage.as_ref().and_then(|w| w.upgrade())) {
                let (epoch, pinned, _) = st.verif_state();
                let mut holders: Vec<u64> = pinned.iter().filter(|(_, rs)| rs.contains(&id)).map(|(e, _)| *e).collect();
                holders.sort();
                if !holders.is_empty() {
                    g.unlink_violations.push((
                        "c08:unlink-while-pinned".into(),
                        format!(
                            "vacuum removes row-set {detail} while the pinned version(s) {holders:?} still contain it (current epoch {epoch})"
                        ),
                    ));
                }
            }
        }
        g.log(actor, EvKind::Event { kind: kind.to_string(), detail: detail.to_string() });
    })));
}

/// Wait until no task is runnable and no blocking operation is in flight.
async fn quiesce() {
    let m = tokio::runtime::Handle::current().metrics();
    let mut calm = 0;
    loop {
        tokio::task::yield_now().await;
        // (blocking pool first: a finishing blocking task queues its wake-up before it turns idle)
        let idle = m.num_blocking_threads() == m.num_idle_blocking_threads() && m.blocking_queue_depth() == 0;
        let empty = m.global_queue_depth() == 0 && m.worker_local_queue_depth(0) == 0;
        if idle && empty {
            calm += 1;
            if calm >= 3 {
                return;
            }
        } else {
            calm = 0;
        }
    }
}

// ---------------------------------------------------------------------------------------------
// readers

enum RCmd {
    Next,
    Close,
}

#[derive(Clone, Debug, Default)]
pub struct ReaderRun {
    /// trace position of the open step (the snapshot is pinned first thing in that step)
    pub open_seq: Option<u64>,
    /// the table did not exist (any more) when the reader wanted to open its scan
    pub no_table: bool,
    pub rows: Vec<Row>,
    pub batches: u32,
    pub exhausted: bool,
    pub closed: bool,
    pub close_seq: Option<u64>,
    /// errors / panics of reader steps
    pub errors: Vec<String>,
}

async fn reader_task(db: DiskDb, tid: TableRefId, sorted: bool, r: usize, sh: Sh, out: Arc<Mutex<ReaderRun>>, mut cmd: mpsc::UnboundedReceiver<RCmd>) {
    let log = |what: &'static str| sh.lock().unwrap().log(Actor::Reader(r), EvKind::Reader { what });
    let body = async {
        let table = match db.storage.get_table(tid) {
            Ok(t) => t,
            Err(_) => {
                out.lock().unwrap().no_table = true;
                log("open:no-table");
                return Ok(());
            }
        };
        out.lock().unwrap().open_seq = Some(log("open"));
        let txn: DiskTxn = table.read().await.map_err(|e| format!("read(): {e}"))?;
        let cols = [StorageColumnRef::Idx(0), StorageColumnRef::Idx(1)];
        // the first step after the open step creates the iterators, the following ones fetch
        let mut it: Option<DiskIter> = None;
        while let Some(c) = cmd.recv().await {
            match c {
                RCmd::Next if it.is_none() => {
                    let opts = ScanOptions::default().with_sorted(sorted);
                    it = Some(txn.scan(&cols, opts).await.map_err(|e| format!("scan(): {e}"))?);
                    log("scan");
                }
                RCmd::Next => match it.as_mut().unwrap().next_batch(None).await.map_err(|e| format!("next_batch(): {e}"))? {
                    Some(chunk) => {
                        let mut o = out.lock().unwrap();
                        o.batches += 1;
                        for row in chunk.rows() {
                            o.rows.push(row.values().map(|v| Val::from_dv(&v)).collect());
                        }
                        drop(o);
                        log("next");
                    }
                    None => {
                        out.lock().unwrap().exhausted = true;
                        log("end");
                    }
                },
                RCmd::Close => break,
            }
        }
        // the order in which the scan executor releases them: iterator first, then the pin
        drop(it);
        txn.abort().await.map_err(|e| format!("abort(): {e}"))?;
        Ok::<(), String>(())
    };
    let res = AssertUnwindSafe(body).catch_unwind().await;
    let mut o = out.lock().unwrap();
    match res {
        Ok(Ok(())) => {}
        Ok(Err(e)) => o.errors.push(e),
        Err(_) => o.errors.push(format!("panic: {}", last_panic())),
    }
    if !o.errors.is_empty() {
        log("error");
    }
    o.closed = true;
    o.close_seq = Some(log("close"));
}

// ---------------------------------------------------------------------------------------------
// the run

#[derive(Clone, Debug)]
pub struct StmtRun {
    pub session: usize,
    pub stmt: Stmt,
    pub sql: String,
    pub start_seq: Option<u64>,
    /// position of the arrival at `txn.commit.after_changes` (the new version is installed
    /// immediately before it, with no await in between); for DROP: the statement's last
    /// arrival at `vm.commit.after_append`
    pub commit_seq: Option<u64>,
    /// DROP only: the table left the catalog
    pub applied_seq: Option<u64>,
    pub finish_seq: Option<u64>,
    pub out: Option<Out>,
}

#[derive(Clone, Debug)]
pub struct Compaction {
    pub table: u32,
    /// position of the pin of the pass (release of / arrival at `compactor.pass.start`)
    pub pin_seq: u64,
    pub commit_seq: u64,
    pub detail: String,
}

/// One compactor pass as seen in the trace.
#[derive(Clone, Debug, Default)]
pub struct Pass {
    pub pin_seq: u64,
    /// (table id, position of the `compactor.table` event)
    pub tables: Vec<(u32, u64)>,
    pub end_seq: Option<u64>,
}

impl Pass {
    /// Did this pass (pinned snapshot in hand) still have table `tid` before it at some point of
    /// the interval [from, to]?
    pub fn overlaps(&self, tid: u32, from: u64, to: u64) -> bool {
        let Some(i) = self.tables.iter().position(|(t, _)| *t == tid) else { return false };
        let done = self.tables.get(i + 1).map(|x| x.1).or(self.end_seq).unwrap_or(u64::MAX);
        self.pin_seq < to && done > from
    }
}

#[derive(Clone, Debug, Default)]
pub struct EndState {
    /// deletions that vacuum has not applied although nothing is pinned
    pub pending: Vec<(u64, Vec<(u32, u32)>)>,
    /// real directory only: (row-set directories on disk, row-sets of the current version)
    pub dirs: Option<(BTreeSet<(u32, u32)>, BTreeSet<(u32, u32)>)>,
}

#[derive(Debug, Default)]
pub struct Run {
    pub setup_error: Option<String>,
    pub table_ids: Vec<u32>,
    pub stmts: Vec<StmtRun>,
    pub readers: Vec<ReaderRun>,
    pub compactions: Vec<Compaction>,
    pub passes: Vec<Pass>,
    pub trace: Vec<Ev>,
    pub unlink_violations: Vec<(String, String)>,
    /// proved: nothing runnable, nothing parked, no timer an actor waits for, actors unfinished
    pub deadlock: Option<String>,
    /// the compactor stopped inside a pass without being parked or runnable, after a panic
    pub compactor_died: Option<String>,
    pub panics: Vec<String>,
    /// contents of every table (None: the table does not exist / the read failed with the
    /// message) right after the schedule, after two more free-running passes, after reopen
    pub final_rows: Vec<Vec<Result<Vec<Row>, String>>>,
    pub end: EndState,
    pub shutdown_error: Option<String>,
    pub reopen_error: Option<String>,
    pub decisions: u32,
    pub drained: u32,
}

#[derive(Clone, Copy, Debug, PartialEq)]
enum Act {
    Release(usize),
    Start(usize),
    ROpen(usize),
    RNext(usize),
    RClose(usize),
    Tick,
}

#[derive(PartialEq, Clone, Copy, Debug)]
enum CState {
    Idle,
    AtStart,
    InPass,
}

struct ReaderH {
    spec: ReaderSpec,
    out: Arc<Mutex<ReaderRun>>,
    cmd: Option<mpsc::UnboundedSender<RCmd>>,
    started: bool,
}

pub fn stmt_list(w: &Workload) -> Vec<(usize, Stmt)> {
    w.sessions.iter().enumerate().flat_map(|(s, v)| v.iter().map(move |x| (s, x.clone()))).collect()
}

async fn read_tables(db: &DiskDb, w: &Workload) -> Vec<Result<Vec<Row>, String>> {
    let mut v = vec![];
    for t in &w.tables {
        v.push(match db.sql(&format!("select id, v from {}", t.name)).await {
            Out::Rows(r) => Ok(r),
            o => Err(o.brief()),
        });
    }
    v
}

pub fn run_workload(ctx: &Ctx, w: &Workload, tag: &str) -> Run {
    risinglight::verif::reset();
    let _ = take_panics();
    SEEN_PANICS.lock().unwrap().clear();
    let dir = ctx.case_dir(tag);
    let r = block_on(run_async(w, dir.join("db")));
    risinglight::verif::reset();
    let mut run = match r {
        Ok(run) => run,
        Err(p) => Run { setup_error: Some(format!("harness future panicked: {p}")), ..Default::default() },
    };
    collect_panics();
    run.panics = std::mem::take(&mut *SEEN_PANICS.lock().unwrap());
    let _ = std::fs::remove_dir_all(&dir);
    run
}

async fn run_async(w: &Workload, path: PathBuf) -> Run {
    let mut run = Run::default();
    let sh: Sh = Arc::new(Mutex::new(Shared::default()));
    let db = match DiskDb::open(&w.disk, &path).await {
        Ok(db) => db,
        Err(e) => {
            run.setup_error = Some(e);
            return run;
        }
    };
    // ---- setup (free running) ----
    let mut tids: Vec<TableRefId> = vec![];
    for t in &w.tables {
        let mut sqls = vec![format!(
            "create table {} (id int {}, v int)",
            t.name,
            if t.pk { "primary key" } else { "not null" }
        )];
        sqls.extend(t.init.iter().filter(|b| !b.is_empty()).map(|b| insert_sql(&t.name, b)));
        if !t.init_delete.is_empty() {
            sqls.push(delete_sql(&t.name, &t.init_delete, 0));
        }
        for s in sqls {
            match db.sql(&s).await {
                Out::Rows(_) => {}
                o => {
                    run.setup_error = Some(format!("setup `{s}` -> {}", o.brief()));
                    let _ = db.shutdown().await;
                    return run;
                }
            }
        }
        tids.push(db.table_id(&t.name).expect("table just created"));
    }
    run.table_ids = tids.iter().map(|t| t.table_id).collect();
    if w.tick_after_load {
        tick().await;
    }
    settle().await;
    quiesce().await;

    // ---- the schedule ----
    let stmts = stmt_list(w);
    run.stmts = (stmts.iter())
        .map(|(s, st)| StmtRun {
            session: *s,
            stmt: st.clone(),
            sql: st.sql(&w.tables),
            start_seq: None,
            commit_seq: None,
            applied_seq: None,
            finish_seq: None,
            out: None,
        })
        .collect();
    {
        let mut g = sh.lock().unwrap();
        g.armed = true;
        g.mask = w.gate_mask | if w.avoid || w.avoid_drop { gate_bit("compactor.pass.start") } else { 0 };
        g.outs = vec![None; stmts.len()];
        g.storage = Some(Arc::downgrade(&db.storage));
    }
    install_hooks(&sh);
    let mut readers: Vec<ReaderH> = (w.readers.iter())
        .map(|spec| ReaderH { spec: spec.clone(), out: Default::default(), cmd: None, started: false })
        .collect();
    // per session: index (into stmts) of the next statement, and of the one in flight
    let mut next: Vec<usize> = vec![];
    {
        let mut k = 0;
        for s in &w.sessions {
            next.push(k);
            k += s.len();
        }
    }
    let session_end: Vec<usize> = (0..w.sessions.len()).map(|s| next[s] + w.sessions[s].len()).collect();
    let mut inflight: Vec<Option<usize>> = vec![None; w.sessions.len()];
    let mut tape = Tape::new(&w.choices);
    let mut ticks_left = w.ticks;
    let mut cstate = CState::Idle;
    let mut pass_pin_seq = 0u64;
    let mut cur_table: Option<u32> = None;
    let mut done_tables: BTreeSet<u32> = BTreeSet::new();
    let mut seen = 0usize;
    let mut handles = vec![];

    loop {
        quiesce().await;
        collect_panics();
        run.panics = SEEN_PANICS.lock().unwrap().clone();
        // -- digest what happened since the last decision
        {
            let g = sh.lock().unwrap();
            for ev in &g.trace[seen..] {
                match (&ev.actor, &ev.kind) {
                    (Actor::Compactor, EvKind::Arrive { gate, parked }) => match gate.as_str() {
                        "compactor.pass.start" => {
                            cstate = CState::AtStart;
                            cur_table = None;
                            done_tables.clear();
                            pass_pin_seq = ev.seq;
                        }
                        "compactor.after_pin" => {
                            cstate = CState::InPass;
                            run.passes.push(Pass { pin_seq: pass_pin_seq, ..Default::default() });
                        }
                        "compactor.pass.end" => {
                            if let Some(p) = run.passes.last_mut() {
                                p.end_seq = Some(ev.seq);
                            }
                            done_tables.extend(cur_table.take());
                            if !*parked {
                                cstate = CState::Idle;
                            }
                        }
                        _ => {}
                    },
                    (Actor::Compactor, EvKind::Release { gate }) => match gate.as_str() {
                        "compactor.pass.start" => {
                            pass_pin_seq = ev.seq;
                            cstate = CState::InPass;
                        }
                        "compactor.pass.end" => cstate = CState::Idle,
                        _ => {}
                    },
                    (Actor::Compactor, EvKind::Event { kind, detail }) => match kind.as_str() {
                        "compactor.table" => {
                            done_tables.extend(cur_table.take());
                            cur_table = detail.parse().ok();
                            if let (Some(p), Some(t)) = (run.passes.last_mut(), cur_table) {
                                p.tables.push((t, ev.seq));
                            }
                        }
                        "compaction.commit" => {
                            let table = detail.split(':').next().and_then(|t| t.parse().ok()).unwrap_or(u32::MAX);
                            run.compactions.push(Compaction {
                                table,
                                pin_seq: pass_pin_seq,
                                commit_seq: ev.seq,
                                detail: detail.clone(),
                            });
                        }
                        _ => {}
                    },
                    (Actor::Stmt(k), EvKind::Arrive { gate, .. }) => match gate.as_str() {
                        "txn.commit.after_changes" => run.stmts[*k].commit_seq = Some(ev.seq),
                        "vm.commit.after_append" if matches!(run.stmts[*k].stmt, Stmt::Drop { .. }) => {
                            run.stmts[*k].commit_seq = Some(ev.seq)
                        }
                        "ddl.drop.after_apply" => run.stmts[*k].applied_seq = Some(ev.seq),
                        _ => {}
                    },
                    (_, EvKind::Finish { stmt }) => {
                        run.stmts[*stmt].finish_seq = Some(ev.seq);
                        run.stmts[*stmt].out = g.outs[*stmt].clone();
                        let s = run.stmts[*stmt].session;
                        if inflight[s] == Some(*stmt) {
                            inflight[s] = None;
                        }
                    }
                    _ => {}
                }
            }
            seen = g.trace.len();
        }
        // -- enabled actions, in a stable order
        let mut acts: Vec<(Act, u32)> = vec![];
        // statements in flight that must stay apart from a compactor pass
        let apart = |st: &Stmt| (w.avoid && st.is_delete()) || (w.avoid_drop && matches!(st, Stmt::Drop { .. }));
        let apart_inflight = inflight.iter().flatten().any(|k| apart(&run.stmts[*k].stmt));
        {
            let mut g = sh.lock().unwrap();
            g.parked.sort_by_key(|p| p.actor);
            for (i, p) in g.parked.iter().enumerate() {
                if p.gate == "compactor.pass.start" && apart_inflight {
                    continue;
                }
                acts.push((Act::Release(i), 4));
            }
        }
        for s in 0..w.sessions.len() {
            if inflight[s].is_some() || next[s] >= session_end[s] {
                continue;
            }
            let st = &run.stmts[next[s]].stmt;
            let busy = |t: usize| inflight.iter().flatten().any(|k| run.stmts[*k].stmt.table() == t);
            let clear_of_pass = cstate != CState::InPass || done_tables.contains(&run.table_ids[st.table()]);
            // (a DROP racing a writer of the same table is the business of C10)
            let dropping = |t: usize| inflight.iter().flatten().any(|k| matches!(run.stmts[*k].stmt, Stmt::Drop { t: tt } if tt == t));
            let ok = match st {
                Stmt::Drop { t } => !busy(*t) && (!apart(st) || clear_of_pass),
                _ => !dropping(st.table()) && (!apart(st) || clear_of_pass),
            };
            if ok {
                acts.push((Act::Start(s), 3));
            }
        }
        for (i, r) in readers.iter().enumerate() {
            let o = r.out.lock().unwrap();
            if !r.started {
                acts.push((Act::ROpen(i), 3));
            } else if !o.closed && !o.no_table {
                if !o.exhausted {
                    acts.push((Act::RNext(i), 3));
                }
                acts.push((Act::RClose(i), if o.exhausted { 3 } else { 1 }));
            }
        }
        let work_left = !acts.is_empty();
        if ticks_left > 0 && cstate == CState::Idle {
            acts.push((Act::Tick, 2));
        }
        if !work_left {
            let unfinished: Vec<usize> = inflight.iter().flatten().copied().collect();
            let pending_start = (0..w.sessions.len()).any(|s| next[s] < session_end[s]);
            if unfinished.is_empty() && !pending_start && cstate == CState::Idle {
                break; // everything is done
            }
            if cstate == CState::Idle && (!unfinished.is_empty() || pending_start) {
                // Nothing runnable, nothing parked, the compactor sleeps (it holds no lock
                // then), readers hold no locks: the unfinished statements can never proceed.
                run.deadlock = Some(format!(
                    "no task is runnable, none is parked at a gate, the compactor is asleep, but statements {:?} have not finished / sessions cannot start their next statement",
                    unfinished.iter().map(|k| run.stmts[*k].sql.clone()).collect::<Vec<_>>()
                ));
                break;
            }
            if cstate != CState::Idle && !run.panics.is_empty() {
                run.compactor_died = Some(run.panics.last().cloned().unwrap_or_default());
                break;
            }
            if cstate != CState::Idle {
                // the compactor is inside a pass but neither parked nor runnable
                run.deadlock = Some(format!(
                    "the compactor is inside a pass, not parked at a gate and not runnable; unfinished statements {:?}",
                    unfinished.iter().map(|k| run.stmts[*k].sql.clone()).collect::<Vec<_>>()
                ));
                break;
            }
        }
        // -- pick
        let act = if !tape.exhausted() {
            let ws: Vec<u32> = acts.iter().map(|a| a.1).collect();
            run.decisions += 1;
            acts[tape.weighted(&ws)].0
        } else {
            // drain: finish what is in flight in a fixed order
            run.drained += 1;
            let prio = |a: &Act| match a {
                Act::Release(_) => 0,
                Act::Start(_) => 1,
                Act::RNext(_) => 2,
                Act::RClose(_) => 3,
                Act::Tick => 4,
                Act::ROpen(_) => 5,
            };
            let a = acts.iter().map(|a| a.0).min_by_key(prio).unwrap();
            if matches!(a, Act::Tick | Act::ROpen(_)) {
                break;
            }
            a
        };
        // -- perform
        match act {
            Act::Release(i) => {
                let mut g = sh.lock().unwrap();
                let p = g.parked.remove(i);
                g.log(p.actor, EvKind::Release { gate: p.gate });
                let _ = p.tx.send(());
            }
            Act::Start(s) => {
                let k = next[s];
                next[s] += 1;
                inflight[s] = Some(k);
                run.stmts[k].start_seq = Some(sh.lock().unwrap().log(Actor::Stmt(k), EvKind::Start { stmt: k }));
                let (db, sh, sql) = (db.clone(), sh.clone(), run.stmts[k].sql.clone());
                handles.push(tokio::spawn(async move {
                    let sh2 = sh.clone();
                    let out = db.run(&sql, move |lo, hi| sh2.lock().unwrap().ranges.push((lo, hi, k))).await;
                    let mut g = sh.lock().unwrap();
                    g.outs[k] = Some(out);
                    g.log(Actor::Stmt(k), EvKind::Finish { stmt: k });
                }));
            }
            Act::ROpen(i) => {
                let (tx, rx) = mpsc::unbounded_channel();
                readers[i].cmd = Some(tx);
                readers[i].started = true;
                let spec = &readers[i].spec;
                handles.push(tokio::spawn(reader_task(
                    db.clone(),
                    tids[spec.t],
                    spec.sorted,
                    i,
                    sh.clone(),
                    readers[i].out.clone(),
                    rx,
                )));
            }
            Act::RNext(i) => {
                let _ = readers[i].cmd.as_ref().unwrap().send(RCmd::Next);
            }
            Act::RClose(i) => {
                let _ = readers[i].cmd.as_ref().unwrap().send(RCmd::Close);
            }
            Act::Tick => {
                ticks_left -= 1;
                sh.lock().unwrap().log(Actor::Sched, EvKind::Tick);
                tick().await;
            }
        }
    }

    // ---- after the schedule: let everything run free ----
    {
        let mut g = sh.lock().unwrap();
        g.armed = false;
        g.parked.clear();
    }
    for r in &readers {
        if let Some(c) = &r.cmd {
            let _ = c.send(RCmd::Close);
        }
    }
    if run.deadlock.is_some() || run.compactor_died.is_some() {
        // no orderly shutdown is possible; the runtime is torn down by the caller
        finish(&mut run, &sh, &readers);
        return run;
    }
    settle().await;
    quiesce().await;
    for h in handles {
        let _ = h.await;
    }
    finish(&mut run, &sh, &readers);
    run.final_rows.push(read_tables(&db, w).await);
    tick().await;
    tick().await;
    settle().await;
    quiesce().await;
    run.final_rows.push(read_tables(&db, w).await);
    // end state: nothing is pinned now
    let (_, _, pending) = db.storage.verif_state();
    run.end.pending = pending.into_iter().filter(|(_, v)| !v.is_empty()).collect();
    run.end.pending.sort();
    if !w.disk.inmem {
        let live = db.current_rowsets(&tids).await.unwrap_or_default();
        run.end.dirs = Some((rowset_dirs(&path), live));
    }
    {
        let g = sh.lock().unwrap();
        run.unlink_violations = g.unlink_violations.clone();
    }
    risinglight::verif::reset();
    if let Err(e) = db.shutdown().await {
        run.shutdown_error = Some(e);
        return run;
    }
    drop(db);
    if w.reopen && !w.disk.inmem {
        match DiskDb::open(&w.disk, &path).await {
            Ok(db2) => {
                run.final_rows.push(read_tables(&db2, w).await);
                if let Err(e) = db2.shutdown().await {
                    run.shutdown_error = Some(e);
                }
            }
            Err(e) => run.reopen_error = Some(e),
        }
    }
    run
}

fn finish(run: &mut Run, sh: &Sh, readers: &[ReaderH]) {
    let g = sh.lock().unwrap();
    run.trace = g.trace.clone();
    run.unlink_violations = g.unlink_violations.clone();
    for (k, s) in run.stmts.iter_mut().enumerate() {
        if s.out.is_none() {
            s.out = g.outs[k].clone();
        }
    }
    run.readers = readers.iter().map(|r| r.out.lock().unwrap().clone()).collect();
}

/// Signature of a panic: source file (no line number, so that unrelated edits do not rename a
/// listed signature) + the start of the message with digits masked.
pub fn psig(p: &str) -> String {
    let s = panic_sig(p);
    let (loc, msg) = s.split_once('|').unwrap_or((&s, ""));
    format!("{}|{msg}", loc.split(':').next().unwrap_or(loc))
}

/// A compact rendering of the trace for failure messages.
pub fn fmt_trace(run: &Run, max: usize) -> String {
    let mut v: Vec<String> = vec![];
    for ev in &run.trace {
        let a = match ev.actor {
            Actor::Compactor => "C".to_string(),
            Actor::Vacuum => "V".to_string(),
            Actor::Stmt(k) => format!("S{k}"),
            Actor::Reader(r) => format!("R{r}"),
            Actor::Sched => "*".to_string(),
            Actor::Other => "?".to_string(),
        };
        v.push(match &ev.kind {
            EvKind::Arrive { gate, parked } => {
                if *parked {
                    continue;
                }
                format!("{a}:pass({gate})")
            }
            EvKind::Release { gate } => format!("{a}:go({gate})"),
            EvKind::Event { kind, detail } => format!("{a}!{kind}({detail})"),
            EvKind::Start { stmt } => format!("{a}:start[{}]", run.stmts[*stmt].sql),
            EvKind::Finish { .. } => format!("{a}:done"),
            EvKind::Reader { what } => format!("{a}:{what}"),
            EvKind::Tick => "tick".to_string(),
        });
    }
    if v.len() > max {
        let n = v.len();
        v.truncate(max);
        v.push(format!("… {n} steps"));
    }
    v.join(" ")
}

// ---------------------------------------------------------------------------------------------
// workload generator (tape driven; smaller tape values give simpler workloads)

pub struct GenParams {
    pub tables: (usize, usize),
    pub sessions: (usize, usize),
    pub stmts: (usize, usize),
    pub readers: (usize, usize),
    pub ticks: (usize, usize),
    pub allow_drop: bool,
    pub avoid: bool,
    pub avoid_drop: bool,
    pub allow_reopen: bool,
    /// a DELETE may name the initial ids another session's DELETE names too (both run
    /// concurrently: two delete vectors with the same row ids)
    pub overlap_deletes: bool,
}

/// Ids: initial rows of a table are 0.., rows inserted by session `s` are `1000 * (s + 1)`..;
/// a DELETE names ids of initial rows (each id is claimed by at most one DELETE of the whole
/// workload) or ids inserted earlier by its own session, so that the rows a committed
/// statement adds or removes do not depend on the schedule.
pub fn gen_workload(t: &mut Tape, p: &GenParams, disk: DiskCfg, choices: Vec<u32>) -> Workload {
    let nt = t.range(p.tables.0, p.tables.1);
    let mut tables = vec![];
    let mut pool: Vec<Vec<i32>> = vec![]; // unclaimed live initial ids per table
    for i in 0..nt {
        let pk = t.chance(1, 2);
        let nb = 1 + t.weighted(&[1, 3, 3, 2]);
        let mut init = vec![];
        let mut id = 0;
        for _ in 0..nb {
            let n = if t.chance(1, 8) { 20 + t.pick(40) } else { 1 + t.pick(4) };
            init.push((0..n).map(|_| (post_inc(&mut id), t.pick(5) as i32)).collect::<Vec<_>>());
        }
        let mut live: Vec<i32> = (0..id).collect();
        let mut init_delete = vec![];
        if t.chance(1, 3) {
            for _ in 0..1 + t.pick(2) {
                if live.len() > 1 {
                    init_delete.push(live.remove(t.pick(live.len())));
                }
            }
        }
        tables.push(TableSpec { name: format!("t{i}"), pk, init, init_delete });
        pool.push(live);
    }
    let ns = t.range(p.sessions.0, p.sessions.1);
    let mut sessions = vec![];
    // initial ids named by a DELETE so far: (table, session, ids)
    let mut claimed: Vec<(usize, usize, Vec<i32>)> = vec![];
    for s in 0..ns {
        let n = t.range(p.stmts.0, p.stmts.1);
        let mut own: Vec<Vec<i32>> = vec![vec![]; nt];
        let mut fresh: Vec<i32> = vec![1000 * (s as i32 + 1); nt];
        let mut v = vec![];
        for _ in 0..n {
            let tb = t.pick(nt);
            let want_delete = t.chance(1, 2);
            let others: Vec<usize> = (0..claimed.len()).filter(|i| claimed[*i].0 == tb && claimed[*i].1 != s).collect();
            if want_delete && p.overlap_deletes && !others.is_empty() && t.chance(1, 3) {
                // the same initial rows as a DELETE of another session (whole set or a part)
                let mut ids = claimed[others[t.pick(others.len())]].2.clone();
                if ids.len() > 1 && t.chance(1, 3) {
                    ids.truncate(1 + t.pick(ids.len() - 1));
                }
                v.push(Stmt::Delete { t: tb, ids, form: t.weighted(&[2, 1]) as u8 });
            } else if want_delete && (!own[tb].is_empty() || !pool[tb].is_empty()) {
                let from_own = !own[tb].is_empty() && (pool[tb].is_empty() || t.chance(1, 2));
                let src = if from_own { &mut own[tb] } else { &mut pool[tb] };
                let k = (1 + t.pick(3)).min(src.len());
                let at = t.pick(src.len() - k + 1);
                let ids: Vec<i32> = src.drain(at..at + k).collect();
                // a key range only where it cannot cover rows of anybody else
                let form = if from_own { t.weighted(&[2, 1, 1]) as u8 } else { t.weighted(&[2, 1]) as u8 };
                let ids = if form == 2 {
                    // everything of this session inside [lo, hi] goes (ids are kept sorted)
                    let (lo, hi) = (*ids.iter().min().unwrap(), *ids.iter().max().unwrap());
                    own[tb].retain(|i| *i < lo || *i > hi);
                    ids
                } else {
                    ids
                };
                if !from_own {
                    claimed.push((tb, s, ids.clone()));
                }
                v.push(Stmt::Delete { t: tb, ids, form });
            } else {
                let n = if t.chance(1, 10) { 20 + t.pick(20) } else { 1 + t.pick(3) };
                let rows: Vec<(i32, i32)> = (0..n).map(|_| (post_inc(&mut fresh[tb]), t.pick(5) as i32)).collect();
                own[tb].extend(rows.iter().map(|r| r.0));
                v.push(Stmt::Insert { t: tb, rows });
            }
        }
        sessions.push(v);
    }
    if p.allow_drop && t.chance(1, 4) {
        let d = t.pick(nt);
        let s = t.pick(ns);
        sessions[s].push(Stmt::Drop { t: d });
    }
    let nr = t.range(p.readers.0, p.readers.1);
    let readers = (0..nr).map(|_| ReaderSpec { t: t.pick(nt), sorted: t.chance(1, 2) }).collect();
    let ticks = t.range(p.ticks.0, p.ticks.1) as u32;
    let mut gate_mask = t.raw() & 0x7fff;
    if t.chance(1, 3) {
        gate_mask = 0x7fff;
    }
    let tick_after_load = t.chance(1, 5);
    let reopen = p.allow_reopen && !disk.inmem;
    Workload { disk, tables, tick_after_load, sessions, readers, ticks, gate_mask, avoid: p.avoid, avoid_drop: p.avoid_drop, reopen, choices }
}

fn post_inc(x: &mut i32) -> i32 {
    *x += 1;
    *x - 1
}

/// Disk options for schedule checks: in-memory I/O (deterministic) in 3 of 4, a real directory else.
pub fn sched_disk_strategy() -> impl proptest::strategy::Strategy<Value = DiskCfg> {
    use proptest::prelude::*;
    (
        prop::sample::select(vec![64usize, 128, 1024, 16384]),
        prop::sample::select(vec![512usize, 4096, 1 << 20, 1 << 20]),
        any::<bool>(),
        prop::sample::select(vec![1usize, 1024]),
        0u8..4,
    )
        .prop_map(|(block, rowset, checksum, cache, im)| DiskCfg { block, rowset, checksum, first_key: true, cache, inmem: im != 0 })
}

/// Rows (id, v) of a table after the given statements committed, in commit order.
pub fn model_rows(w: &Workload, t: usize, committed: &[&Stmt]) -> Vec<Row> {
    let spec = &w.tables[t];
    let mut rows: Vec<(i32, i32)> = spec.init.iter().flatten().copied().filter(|r| !spec.init_delete.contains(&r.0)).collect();
    for s in committed {
        match s {
            Stmt::Insert { t: tt, rows: r } if *tt == t => rows.extend(r.iter().copied()),
            Stmt::Delete { t: tt, ids, form } if *tt == t => {
                if *form == 2 {
                    let (lo, hi) = (*ids.iter().min().unwrap(), *ids.iter().max().unwrap());
                    rows.retain(|r| r.0 < lo || r.0 > hi);
                } else {
                    rows.retain(|r| !ids.contains(&r.0));
                }
            }
            _ => {}
        }
    }
    sorted(rows.into_iter().map(|(a, b)| vec![Val::Int(a as i64), Val::Int(b as i64)]).collect())
}
