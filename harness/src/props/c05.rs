//! C05 — the in-memory and on-disk engines are observationally equivalent.

use proptest::prelude::*;
use serde::{Deserialize, Serialize};

use super::sqlcase::*;
use crate::engine::*;
use crate::gens::sql::*;
use crate::gens::tape::{Tape, tape_strategy};
use crate::sqlrun::*;

#[derive(Clone, Debug, Serialize, Deserialize)]
pub enum Stmt {
    Sql(String),
    /// a query with its AST (for ordered / limited comparison) and its un-limited form
    Query(Query, String, String),
    Tick,
}

#[derive(Clone, Debug, Serialize, Deserialize)]
pub struct HistCase {
    pub schema: Vec<TableDef>,
    pub disk: DiskCfg,
    pub stmts: Vec<Stmt>,
}

fn decode(ctx: &Ctx, tape: &[u32], disk: DiskCfg) -> HistCase {
    let mut cfg = cfg_for(ctx, true);
    cfg.max_rows = 40;
    let mut t = Tape::new(tape);
    let schema = gen_schema(&mut t, &cfg);
    let mut stmts: Vec<Stmt> = schema.iter().map(|td| Stmt::Sql(td.create_sql())).collect();
    let mut next_pk = vec![0i64; schema.len()];
    // keep tables small: multi-way joins over low-cardinality keys multiply quickly
    let mut total = vec![0usize; schema.len()];
    let n = t.range(4, 16);
    for _ in 0..n {
        match t.weighted(&[5, 2, 5, 1]) {
            0 => {
                let ti = t.pick(schema.len());
                let td = &schema[ti];
                let nr = [1usize, 2, 3, 5, 9][t.pick(5)].min(16usize.saturating_sub(total[ti]));
                if nr == 0 {
                    continue;
                }
                total[ti] += nr;
                let rows: Vec<Vec<Val>> = (0..nr)
                    .map(|_| {
                        td.cols
                            .iter()
                            .map(|c| {
                                if c.pk {
                                    // unique keys, inserted in non-monotone order across statements
                                    next_pk[ti] += 1;
                                    let k = next_pk[ti];
                                    Val::Int(if k % 2 == 0 { k } else { 1000 - k })
                                } else {
                                    gen_val(&mut t, c.ty, c.nullable)
                                }
                            })
                            .collect()
                    })
                    .collect();
                stmts.push(Stmt::Sql(insert_sql(&td.name, &rows)));
            }
            1 => {
                let ti = t.pick(schema.len());
                let td = &schema[ti];
                let scope: Vec<ScopeCol> = td.cols.iter().map(|c| ScopeCol { alias: td.name.clone(), name: c.name.clone(), ty: c.ty }).collect();
                let mut c2 = cfg.clone();
                c2.subqueries = false;
                let mut g = Gen { t: &mut t, cfg: c2, schema: &schema, alias_no: 0 };
                let p = g.expr(&scope, &[], Ty::Bool, 1, false);
                stmts.push(Stmt::Sql(format!("delete from {} where {}", td.name, p.print(Dialect::Rl))));
            }
            2 => {
                // one in four: a key-range scan (optionally ordered by the key, limited)
                let keyed: Vec<&TableDef> = schema.iter().filter(|td| td.cols.iter().any(|c| c.pk && c.ty == Ty::Int)).collect();
                let q = if !keyed.is_empty() && t.chance(1, 4) {
                    let td = keyed[t.pick(keyed.len())];
                    key_range_query(&mut t, td).unwrap()
                } else {
                    let mut g = Gen { t: &mut t, cfg: cfg.clone(), schema: &schema, alias_no: 0 };
                    g.query(0)
                };
                let sql = q.print(Dialect::Rl);
                let unl = q.print_unlimited(Dialect::Rl);
                stmts.push(Stmt::Query(q, sql, unl));
            }
            _ => stmts.push(Stmt::Tick),
        }
    }
    HistCase { schema, disk, stmts }
}

fn strat(ctx: &Ctx) -> impl Strategy<Value = HistCase> + use<> {
    let (off, strict, prop) = (ctx.off_switches(), ctx.strict, ctx.prop.clone());
    (tape_strategy(700), disk_cfg_strategy(true)).prop_map(move |(tape, disk)| {
        let c = Ctx::switches_only(&prop, off.clone(), strict);
        decode(&c, &tape, disk)
    })
}

fn test(ctx: &Ctx, case: &HistCase, st: &mut Stats) -> Verdict {
    risinglight::verif::reset();
    let r = block_on(async {
        let mem = risinglight::Database::new_in_memory();
        let dir = ctx.case_dir("c05");
        let disk = match open_disk(&case.disk, &dir.join("db")).await {
            Ok(d) => d,
            Err(e) => return fail("setup:open", e),
        };
        let mut inserts_per_table: std::collections::HashMap<String, usize> = Default::default();
        let mut multi = false;
        let mut verdict = Verdict::Pass;
        for (i, s) in case.stmts.iter().enumerate() {
            match s {
                Stmt::Tick => tick().await,
                Stmt::Sql(sql) => {
                    let a = exec(&mem, sql).await;
                    let _ = take_panics();
                    let b = exec(&disk, sql).await;
                    let pb = take_panics();
                    st.evals(2);
                    if sql.starts_with("insert") && a.is_ok() {
                        let t = sql.split_whitespace().nth(2).unwrap_or("").to_string();
                        let e = inserts_per_table.entry(t).or_default();
                        *e += 1;
                        if *e >= 2 {
                            multi = true;
                        }
                    }
                    if sql.starts_with("delete") {
                        st.class("delete");
                    }
                    if a != b {
                        let kind = sql.split_whitespace().next().unwrap_or("stmt");
                        verdict = fail(
                            format!("{kind}:{}-vs-{}", a.class(), b.class()),
                            format!("statement #{i} `{sql}`: memory {} vs disk {} {:?}", a.brief(), b.brief(), pb),
                        );
                        break;
                    }
                }
                Stmt::Query(q, sql, unl) => {
                    let a = exec(&mem, sql).await;
                    let pa = take_panics();
                    let b = exec(&disk, sql).await;
                    let pb = take_panics();
                    st.evals(2);
                    match (&a, &b) {
                        (Out::Rows(ra), Out::Rows(rb)) => {
                            for f in q.features() {
                                st.class(f);
                            }
                            if multi && !ra.is_empty() {
                                st.nontrivial((q.features(), case.disk.block, case.disk.rowset, ra.len().min(3)));
                                st.class("query-after-multi-rowset-load");
                            }
                            let limited = q.limit.is_some() || q.offset.is_some();
                            let ua = if limited { exec(&mem, unl).await } else { Out::Rows(vec![]) };
                            let _ = take_panics();
                            let unl_rows = match &ua {
                                Out::Rows(u) if limited => Some(u.as_slice()),
                                _ => None,
                            };
                            if let Err(e) = compare_results(q, ra, rb, unl_rows) {
                                verdict = fail("query:rows", format!("statement #{i}: {e}\n  sql: {sql}\n  disk options: {:?}", case.disk));
                                break;
                            }
                        }
                        (x, y) if x.class() == y.class() => {
                            st.class(&format!("query-both-{}", x.class()));
                        }
                        (x, y) if matches!(x, Out::Failed(_) | Out::Panicked(_)) || matches!(y, Out::Failed(_) | Out::Panicked(_)) => {
                            // One engine got a plan it cannot execute (the engines plan differently:
                            // statistics, key order). Whether every accepted statement gets an
                            // executable plan is C17's question; nothing to compare here.
                            st.class(&format!("query-no-answer-on-one-engine:{}-vs-{}", x.class(), y.class()));
                            // ... unless the failure does not come from planning at all
                            let (bad, pp, which) = if matches!(x, Out::Rows(_)) { (y, &pb, "disk") } else { (x, &pa, "memory") };
                            if matches!(x, Out::Rows(_)) || matches!(y, Out::Rows(_)) {
                                if let Err(sig) = no_answer(bad, pp) {
                                    verdict = fail(
                                        format!("query:{which}:{sig}"),
                                        format!("statement #{i} `{sql}`: memory {} vs disk {} — the {which} engine fails outside planning: {:?}\n  disk options: {:?}", x.brief(), y.brief(), pp, case.disk),
                                    );
                                    break;
                                }
                            }
                        }
                        (x, y) => {
                            verdict = fail(
                                format!("query:{}-vs-{}", x.class(), y.class()),
                                format!("statement #{i} `{sql}`: memory {} vs disk {} {:?}", x.brief(), y.brief(), pb),
                            );
                            break;
                        }
                    }
                }
            }
        }
        let _ = shutdown(&disk).await;
        verdict
    });
    match r {
        Ok(v) => v,
        Err(p) => fail(format!("harness-panic:{}", panic_sig(&p)), p),
    }
}

pub fn def() -> PropDef {
    PropDef {
        id: "C05",
        level: "exploration",
        rule: "tape-generated histories: CREATE TABLE (int/bool/varchar, optional primary key at any position), 4-16 further statements drawn from INSERT (1-9 rows, at most 16 per table, keys in non-monotone order), DELETE WHERE <generated predicate>, generated queries (joins, subqueries, aggregates, ORDER BY, LIMIT), compaction ticks; executed statement by statement on the in-memory engine and on the disk engine with generated block/row-set/checksum/cache options; every statement must have the same outcome class and every query the same result; non-trivial = a query returning rows after some table received >= 2 inserts; distinct by (query features, block size, row-set size, size class)",
        assumptions: vec!["neither engine is the reference: any difference is a failure", "results compared as multisets, ORDER BY keys as sequences, LIMIT by count + containment in the un-limited memory result"],
        min_nontrivial: 20,
        parts: vec![part("history", 8000, 160_000, strat, test)],
    }
}
