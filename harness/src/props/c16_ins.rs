//! C16 part (b): INSERT into typed / constrained tables, checked against a reference conversion
//! that is written here from the SQL meaning of the values (exact decimal arithmetic, calendar
//! arithmetic, Rust's correctly rounded float parsing) — not from `array/ops.rs`.
use std::collections::{BTreeMap, BTreeSet};
use std::str::FromStr;

use proptest::prelude::*;
use risinglight::Database;
use risinglight::types::{BlobRef, DataValue};
use rust_decimal::Decimal;
use rust_decimal::prelude::ToPrimitive;
use serde::{Deserialize, Serialize};

use super::c16::akind;
use super::c16_q::pick;
use crate::engine::*;
use crate::sqlrun::*;

// ---------------------------------------------------------------------------------------------
// types and values

#[derive(Clone, Copy, Debug, PartialEq, Eq, Hash, PartialOrd, Ord)]
pub enum BT {
    Bool,
    I16,
    I32,
    I64,
    F64,
    Dec(Option<(u32, u32)>),
    Date,
    Ts,
    Intv,
    Str,
    Blob,
}

pub const B_TYPES: &[(&str, BT)] = &[
    ("int", BT::I32),
    ("varchar", BT::Str),
    ("bigint", BT::I64),
    ("smallint", BT::I16),
    ("boolean", BT::Bool),
    ("double", BT::F64),
    ("decimal", BT::Dec(None)),
    ("decimal(5,2)", BT::Dec(Some((5, 2)))),
    ("decimal(10)", BT::Dec(Some((10, 0)))),
    ("date", BT::Date),
    ("timestamp", BT::Ts),
    ("interval", BT::Intv),
    ("blob", BT::Blob),
];

impl BT {
    /// variant name of the array that must hold the column
    pub fn kind(self) -> &'static str {
        match self {
            BT::Bool => "Bool",
            BT::I16 => "Int16",
            BT::I32 => "Int32",
            BT::I64 => "Int64",
            BT::F64 => "Float64",
            BT::Dec(_) => "Decimal",
            BT::Date => "Date",
            BT::Ts => "Timestamp",
            BT::Intv => "Interval",
            BT::Str => "String",
            BT::Blob => "Blob",
        }
    }
    pub fn name(self) -> &'static str {
        match self {
            BT::Bool => "boolean",
            BT::I16 => "smallint",
            BT::I32 => "int",
            BT::I64 => "bigint",
            BT::F64 => "double",
            BT::Dec(None) => "decimal",
            BT::Dec(Some(_)) => "decimal(p,s)",
            BT::Date => "date",
            BT::Ts => "timestamp",
            BT::Intv => "interval",
            BT::Str => "varchar",
            BT::Blob => "blob",
        }
    }
}

/// A value an INSERT supplies (the "inserted value").
#[derive(Clone, Debug, PartialEq)]
pub enum SV {
    Null,
    Bool(bool),
    /// exact numeric (integer or decimal literal / column) and the name of its SQL type
    Exact(Decimal, &'static str),
    F64(f64),
    Str(String),
    /// days since 1970-01-01, ISO text
    Date(i32, String),
    /// microseconds since 1970-01-01 00:00:00, text
    Ts(i64, String),
    /// months, days, seconds
    Intv(i32, i32, i32),
    Blob(Vec<u8>),
}

impl SV {
    pub fn kind(&self) -> &'static str {
        match self {
            SV::Null => "null",
            SV::Bool(_) => "boolean",
            SV::Exact(_, k) => k,
            SV::F64(_) => "double",
            SV::Str(_) => "varchar",
            SV::Date(..) => "date",
            SV::Ts(..) => "timestamp",
            SV::Intv(..) => "interval",
            SV::Blob(_) => "blob",
        }
    }
}

/// A value read back from a table.
#[derive(Clone, Debug, PartialEq)]
pub enum TV {
    Null,
    Bool(bool),
    Int(i64),
    F64(f64),
    Dec(Decimal),
    Str(String),
    Date(i32),
    Ts(i64),
    Intv(i32, i32, i32),
    Blob(Vec<u8>),
    Other(String),
}

/// `Timestamp` stores unix microseconds plus this constant (types/timestamp.rs).
const TS_OFFSET: i64 = 946_684_800_000_000;

pub fn tv_of(v: &DataValue) -> TV {
    match v {
        DataValue::Null => TV::Null,
        DataValue::Bool(b) => TV::Bool(*b),
        DataValue::Int16(i) => TV::Int(*i as i64),
        DataValue::Int32(i) => TV::Int(*i as i64),
        DataValue::Int64(i) => TV::Int(*i),
        DataValue::Float64(f) => TV::F64(f.0),
        DataValue::Decimal(d) => TV::Dec(*d),
        DataValue::String(s) => TV::Str(s.to_string()),
        DataValue::Date(d) => TV::Date(d.get_inner()),
        DataValue::Timestamp(t) => TV::Ts(t.get_inner() - TS_OFFSET),
        DataValue::Interval(i) => TV::Intv(i.num_months(), i.days(), i.hours() * 3600 + i.minutes() * 60 + i.seconds()),
        DataValue::Blob(b) => {
            let r: &BlobRef = b.as_ref();
            let bytes: &[u8] = r.as_ref();
            TV::Blob(bytes.to_vec())
        }
        other => TV::Other(format!("{other:?}")),
    }
}

fn same_tv(a: &TV, b: &TV) -> bool {
    match (a, b) {
        (TV::F64(x), TV::F64(y)) => x.to_bits() == y.to_bits() || (x.is_nan() && y.is_nan()),
        _ => a == b,
    }
}

fn show(v: &TV) -> String {
    match v {
        TV::Null => "NULL".into(),
        TV::Str(s) => format!("'{s}'"),
        TV::Dec(d) => format!("{d}"),
        TV::F64(f) => format!("{f:?}"),
        TV::Int(i) => format!("{i}"),
        TV::Bool(b) => format!("{b}"),
        TV::Date(d) => format!("date {}", iso_date(*d)),
        TV::Ts(t) => format!("timestamp {}", ts_text(*t)),
        other => format!("{other:?}"),
    }
}

/// The source value a stored value is when it is read by INSERT … SELECT.
fn sv_of(v: &TV, bt: BT) -> SV {
    match v {
        TV::Null => SV::Null,
        TV::Bool(b) => SV::Bool(*b),
        TV::Int(i) => SV::Exact(Decimal::from(*i), bt.name()),
        TV::F64(f) => SV::F64(*f),
        TV::Dec(d) => SV::Exact(*d, "decimal"),
        TV::Str(s) => SV::Str(s.clone()),
        TV::Date(d) => SV::Date(*d, iso_date(*d)),
        TV::Ts(t) => SV::Ts(*t, ts_text(*t)),
        TV::Intv(m, d, s) => SV::Intv(*m, *d, *s),
        TV::Blob(b) => SV::Blob(b.clone()),
        TV::Other(s) => SV::Str(s.clone()),
    }
}

// calendar arithmetic (proleptic Gregorian; days since 1970-01-01)
fn days_from_civil(y: i64, m: i64, d: i64) -> i64 {
    let y = if m <= 2 { y - 1 } else { y };
    let era = if y >= 0 { y } else { y - 399 } / 400;
    let yoe = y - era * 400;
    let doy = (153 * (if m > 2 { m - 3 } else { m + 9 }) + 2) / 5 + d - 1;
    let doe = yoe * 365 + yoe / 4 - yoe / 100 + doy;
    era * 146097 + doe - 719468
}

fn civil_from_days(z: i64) -> (i64, i64, i64) {
    let z = z + 719468;
    let era = if z >= 0 { z } else { z - 146096 } / 146097;
    let doe = z - era * 146097;
    let yoe = (doe - doe / 1460 + doe / 36524 - doe / 146096) / 365;
    let y = yoe + era * 400;
    let doy = doe - (365 * yoe + yoe / 4 - yoe / 100);
    let mp = (5 * doy + 2) / 153;
    let d = doy - (153 * mp + 2) / 5 + 1;
    let m = if mp < 10 { mp + 3 } else { mp - 9 };
    (if m <= 2 { y + 1 } else { y }, m, d)
}

fn iso_date(days: i32) -> String {
    let (y, m, d) = civil_from_days(days as i64);
    format!("{y:04}-{m:02}-{d:02}")
}

fn ts_text(us: i64) -> String {
    let days = us.div_euclid(86_400_000_000);
    let rem = us.rem_euclid(86_400_000_000) / 1_000_000;
    format!("{} {:02}:{:02}:{:02}", iso_date(days as i32), rem / 3600, rem / 60 % 60, rem % 60)
}

fn digits(s: &str, n: usize) -> Option<i64> {
    (s.len() == n && s.bytes().all(|b| b.is_ascii_digit())).then(|| s.parse().unwrap())
}

/// Strict `YYYY-MM-DD` of an existing day (year 1..=9999).
fn parse_date(s: &str) -> Option<i32> {
    let p: Vec<&str> = s.split('-').collect();
    if p.len() != 3 {
        return None;
    }
    let (y, m, d) = (digits(p[0], 4)?, digits(p[1], 2)?, digits(p[2], 2)?);
    if y < 1 || !(1..=12).contains(&m) || d < 1 {
        return None;
    }
    let leap = y % 4 == 0 && (y % 100 != 0 || y % 400 == 0);
    let dim = [31, if leap { 29 } else { 28 }, 31, 30, 31, 30, 31, 31, 30, 31, 30, 31][(m - 1) as usize];
    (d <= dim).then(|| days_from_civil(y, m, d) as i32)
}

/// Strict `YYYY-MM-DD HH:MM:SS`.
fn parse_ts(s: &str) -> Option<i64> {
    let (d, t) = s.split_once(' ')?;
    let days = parse_date(d)? as i64;
    let p: Vec<&str> = t.split(':').collect();
    if p.len() != 3 {
        return None;
    }
    let (h, mi, se) = (digits(p[0], 2)?, digits(p[1], 2)?, digits(p[2], 2)?);
    (h < 24 && mi < 60 && se < 60).then(|| (days * 86400 + h * 3600 + mi * 60 + se) * 1_000_000)
}

fn strict_int(s: &str) -> bool {
    let t = s.strip_prefix('-').unwrap_or(s);
    !t.is_empty() && t.len() <= 30 && t.bytes().all(|b| b.is_ascii_digit())
}

fn strict_decimal(s: &str) -> bool {
    let t = s.strip_prefix('-').unwrap_or(s);
    match t.split_once('.') {
        None => strict_int(t),
        Some((a, b)) => !a.is_empty() && !b.is_empty() && a.len() + b.len() <= 28 && a.bytes().chain(b.bytes()).all(|c| c.is_ascii_digit()),
    }
}

/// The double nearest to an exact decimal (Rust's float parser is correctly rounded).
fn nearest_f64(d: &Decimal) -> f64 {
    d.to_string().parse::<f64>().unwrap()
}

/// Does the exact value fit DECIMAL(p, s)?
fn fits(d: &Decimal, ps: Option<(u32, u32)>) -> bool {
    let Some((p, s)) = ps else { return true };
    let n = d.normalize();
    let total = n.mantissa().unsigned_abs().to_string().len() as u32;
    let int_digits = if n.is_zero() { 0 } else { total.saturating_sub(n.scale()) };
    n.scale() <= s && int_digits <= p - s
}

// ---------------------------------------------------------------------------------------------
// the reference conversion

#[derive(Clone, Debug)]
pub enum Acc {
    Is(TV),
    /// a double within one ulp of the given one (zeros of either sign are the same)
    F64Near(f64),
    /// a decimal that converts back to exactly this double, fitting DECIMAL(p,s)
    DecOfF64(f64, Option<(u32, u32)>),
    /// text that reads back as this boolean / exact number / double
    StrBool(bool),
    StrDec(Decimal),
    StrF64(f64),
    /// text starting with this one (timestamps may print a fraction)
    StrPrefix(String),
    /// any non-NULL value of the column type
    Any,
}

#[derive(Clone, Debug)]
pub struct Exp {
    /// the INSERT must fail, and why
    pub must_fail: Option<&'static str>,
    /// failing is as good as storing an accepted value (conversion exists but is optional)
    pub may_fail: bool,
    pub acc: Acc,
}

fn is(v: TV) -> Exp {
    Exp { must_fail: None, may_fail: false, acc: Acc::Is(v) }
}
fn acc(a: Acc) -> Exp {
    Exp { must_fail: None, may_fail: false, acc: a }
}
fn either(a: Acc) -> Exp {
    Exp { must_fail: None, may_fail: true, acc: a }
}
fn no(why: &'static str) -> Exp {
    Exp { must_fail: Some(why), may_fail: false, acc: Acc::Any }
}

fn int_range(bt: BT) -> (i128, i128) {
    match bt {
        BT::I16 => (i16::MIN as i128, i16::MAX as i128),
        BT::I32 => (i32::MIN as i128, i32::MAX as i128),
        _ => (i64::MIN as i128, i64::MAX as i128),
    }
}

/// What must hold for column type `bt` after inserting `sv` (nullability is the caller's job).
pub fn expect(sv: &SV, bt: BT) -> Exp {
    if matches!(sv, SV::Null) {
        return is(TV::Null);
    }
    match bt {
        BT::Bool => match sv {
            SV::Bool(b) => is(TV::Bool(*b)),
            SV::Exact(d, _) if d.is_zero() => is(TV::Bool(false)),
            SV::Exact(d, _) if *d == Decimal::ONE => is(TV::Bool(true)),
            SV::F64(f) if *f == 0.0 || *f == 1.0 => is(TV::Bool(*f == 1.0)),
            SV::Exact(..) | SV::F64(_) => no("lossy:num->bool"),
            SV::Str(s) => match s.as_str() {
                "true" => is(TV::Bool(true)),
                "false" => is(TV::Bool(false)),
                _ => match s.trim().to_ascii_lowercase().as_str() {
                    "true" | "t" | "yes" | "y" | "on" | "1" => either(Acc::Is(TV::Bool(true))),
                    "false" | "f" | "no" | "n" | "off" | "0" => either(Acc::Is(TV::Bool(false))),
                    _ => no("str-not-bool"),
                },
            },
            _ => no("no-conversion"),
        },
        BT::I16 | BT::I32 | BT::I64 => {
            let (lo, hi) = int_range(bt);
            let of_int = |v: i128| if v < lo || v > hi { no("overflow") } else { is(TV::Int(v as i64)) };
            match sv {
                SV::Bool(b) => is(TV::Int(*b as i64)),
                SV::Exact(d, _) => {
                    if !d.fract().is_zero() {
                        no("lossy:frac->int")
                    } else {
                        match d.trunc().to_i128() {
                            Some(v) => of_int(v),
                            None => no("overflow"),
                        }
                    }
                }
                SV::F64(f) => {
                    if !f.is_finite() || f.abs() >= 9.3e18 {
                        no("overflow")
                    } else if f.fract() != 0.0 {
                        no("lossy:frac->int")
                    } else {
                        of_int(*f as i128)
                    }
                }
                SV::Str(s) => {
                    if strict_int(s) {
                        of_int(s.parse::<i128>().unwrap())
                    } else {
                        let t = s.trim();
                        let t = t.strip_prefix('+').unwrap_or(t);
                        if strict_int(t) && !t.starts_with('-') || strict_int(s.trim()) {
                            let v = t.parse::<i128>().unwrap();
                            if v < lo || v > hi { no("overflow") } else { either(Acc::Is(TV::Int(v as i64))) }
                        } else if strict_decimal(t) && Decimal::from_str(t).map(|d| d.fract().is_zero()).unwrap_or(false) {
                            either(Acc::Any)
                        } else {
                            no("str-not-int")
                        }
                    }
                }
                _ => no("no-conversion"),
            }
        }
        BT::F64 => match sv {
            SV::Bool(b) => is(TV::F64(*b as u8 as f64)),
            SV::Exact(d, _) => acc(Acc::F64Near(nearest_f64(d))),
            SV::F64(f) => is(TV::F64(*f)),
            SV::Str(s) => {
                if strict_decimal(s) {
                    acc(Acc::F64Near(s.parse::<f64>().unwrap()))
                } else if let Ok(v) = s.trim().parse::<f64>() {
                    either(if v.is_nan() { Acc::Any } else { Acc::F64Near(v) })
                } else {
                    no("str-not-number")
                }
            }
            _ => no("no-conversion"),
        },
        BT::Dec(ps) => {
            let of_dec = |d: Decimal| if fits(&d, ps) { is(TV::Dec(d)) } else { no("lossy:decimal-ps") };
            match sv {
                SV::Bool(b) => of_dec(Decimal::from(*b as i64)),
                SV::Exact(d, _) => of_dec(*d),
                SV::F64(f) => {
                    if !f.is_finite() {
                        no("nonfinite->decimal")
                    } else if f.abs() >= 8e28 {
                        no("overflow")
                    } else if f.abs() >= 7.9e28 {
                        // around Decimal::MAX: representable or not depending on the last digits
                        either(Acc::DecOfF64(*f, ps))
                    } else if let Some((_, s)) = ps {
                        let c = Decimal::from_str(&format!("{:.*}", s as usize, f)).ok();
                        match c {
                            Some(c) if nearest_f64(&c) == *f && fits(&c, ps) => acc(Acc::DecOfF64(*f, ps)),
                            _ => no("lossy:decimal-ps"),
                        }
                    } else {
                        acc(Acc::DecOfF64(*f, None))
                    }
                }
                SV::Str(s) => {
                    if strict_decimal(s) {
                        of_dec(Decimal::from_str(s).unwrap())
                    } else if let Ok(d) = Decimal::from_str(s.trim()) {
                        if fits(&d, ps) { either(Acc::Is(TV::Dec(d))) } else { no("lossy:decimal-ps") }
                    } else if s.trim().parse::<f64>().map(|v| v.is_finite()).unwrap_or(false) {
                        either(Acc::Any)
                    } else {
                        no("str-not-number")
                    }
                }
                _ => no("no-conversion"),
            }
        }
        BT::Str => match sv {
            SV::Str(s) => is(TV::Str(s.clone())),
            SV::Bool(b) => acc(Acc::StrBool(*b)),
            SV::Exact(d, _) => acc(Acc::StrDec(*d)),
            SV::F64(f) => acc(Acc::StrF64(*f)),
            SV::Date(_, t) => is(TV::Str(t.clone())),
            SV::Ts(_, t) => acc(Acc::StrPrefix(t.clone())),
            SV::Intv(..) => acc(Acc::Any),
            SV::Blob(_) => either(Acc::Any),
            SV::Null => unreachable!(),
        },
        BT::Date => match sv {
            SV::Date(d, _) => is(TV::Date(*d)),
            SV::Str(s) => match parse_date(s) {
                Some(d) => is(TV::Date(d)),
                None if parse_date(s.trim()).is_some() || parse_ts(s.trim()).is_some() => either(Acc::Any),
                None => no("str-not-date"),
            },
            SV::Ts(..) => either(Acc::Any),
            _ => no("no-conversion"),
        },
        BT::Ts => match sv {
            SV::Ts(t, _) => is(TV::Ts(*t)),
            SV::Str(s) => match parse_ts(s) {
                Some(t) => is(TV::Ts(t)),
                None => match parse_date(s.trim()) {
                    Some(d) => either(Acc::Is(TV::Ts(d as i64 * 86_400_000_000))),
                    None if parse_ts(s.trim()).is_some() => either(Acc::Any),
                    None => no("str-not-timestamp"),
                },
            },
            SV::Date(d, _) => either(Acc::Is(TV::Ts(*d as i64 * 86_400_000_000))),
            _ => no("no-conversion"),
        },
        BT::Intv => match sv {
            SV::Intv(m, d, s) => is(TV::Intv(*m, *d, *s)),
            SV::Str(s) => {
                let w: Vec<&str> = s.split_whitespace().collect();
                match w.as_slice() {
                    [n, u] if n.parse::<i32>().is_ok() => {
                        let n = n.parse::<i32>().unwrap();
                        match u.trim_end_matches('s') {
                            "day" => either(Acc::Is(TV::Intv(0, n, 0))),
                            "month" => either(Acc::Is(TV::Intv(n, 0, 0))),
                            "year" => either(Acc::Is(TV::Intv(n * 12, 0, 0))),
                            "second" => either(Acc::Is(TV::Intv(0, 0, n))),
                            _ => either(Acc::Any),
                        }
                    }
                    [] => either(Acc::Any),
                    _ if s.bytes().any(|b| b.is_ascii_digit()) => either(Acc::Any),
                    _ => no("str-not-interval"),
                }
            }
            _ => no("no-conversion"),
        },
        BT::Blob => match sv {
            SV::Blob(b) => is(TV::Blob(b.clone())),
            SV::Str(s) if s.is_ascii() && !s.contains('\\') => is(TV::Blob(s.as_bytes().to_vec())),
            SV::Str(_) => either(Acc::Any),
            _ => no("no-conversion"),
        },
    }
}

/// Common type of the rows of one VALUES column (the SQL kinds of `SV::kind`): NULL < BOOLEAN < INT <
/// BIGINT < DECIMAL < VARCHAR; DATE and INTERVAL only unify with themselves and VARCHAR.
pub fn union_kind(kinds: &[&'static str]) -> Option<&'static str> {
    let rank = |k: &str| ["null", "boolean", "int", "bigint", "decimal", "varchar"].iter().position(|x| *x == k);
    let mut u = "null";
    for k in kinds {
        u = match (rank(u), rank(k)) {
            (Some(a), Some(b)) => if a >= b { u } else { k },
            _ if u == "null" || u == *k => k,
            _ if *k == "null" => u,
            _ if (u == "varchar" && matches!(*k, "date" | "interval")) || (*k == "varchar" && matches!(u, "date" | "interval")) => "varchar",
            _ => return None,
        };
    }
    Some(u)
}

/// `expect` for a value that reaches the column through a VALUES column of type `via`.
pub fn expect_via(sv: &SV, via: Option<&'static str>, bt: BT) -> Exp {
    let Some(u) = via else { return expect(sv, bt) };
    if matches!(sv, SV::Null) || sv.kind() == u {
        return expect(sv, bt);
    }
    match (u, sv) {
        ("int" | "bigint" | "decimal", SV::Bool(b)) => expect(&SV::Exact(Decimal::from(*b as i64), u), bt),
        ("int" | "bigint" | "decimal", SV::Exact(d, _)) => expect(&SV::Exact(*d, u), bt),
        ("varchar", _) => match bt {
            BT::Str => expect(sv, bt),
            BT::Blob => acc(Acc::Any),
            _ => match sv {
                SV::Bool(b) => expect(&SV::Str(b.to_string()), bt),
                SV::Exact(d, _) => expect(&SV::Str(d.to_string()), bt),
                SV::Date(_, t) => expect(&SV::Str(t.clone()), bt),
                _ => either(Acc::Any),
            },
        },
        _ => expect(sv, bt),
    }
}

fn ulp_close(a: f64, b: f64) -> bool {
    if a == b || (a.is_nan() && b.is_nan()) {
        return true;
    }
    if !a.is_finite() || !b.is_finite() || (a < 0.0) != (b < 0.0) {
        return false;
    }
    a.to_bits().abs_diff(b.to_bits()) <= 1
}

pub fn accepts(a: &Acc, v: &TV) -> bool {
    if matches!(v, TV::Null) {
        return matches!(a, Acc::Is(TV::Null));
    }
    match (a, v) {
        (Acc::Is(TV::Dec(x)), TV::Dec(y)) => x == y,
        (Acc::Is(x), y) => same_tv(x, y),
        (Acc::F64Near(x), TV::F64(y)) => ulp_close(*x, *y),
        (Acc::DecOfF64(f, ps), TV::Dec(d)) => nearest_f64(d) == *f && fits(d, *ps),
        (Acc::StrBool(b), TV::Str(s)) => match s.to_ascii_lowercase().as_str() {
            "true" | "t" | "1" => *b,
            "false" | "f" | "0" => !*b,
            _ => false,
        },
        (Acc::StrDec(d), TV::Str(s)) => strict_decimal(s) && Decimal::from_str(s).map(|x| x == *d).unwrap_or(false),
        (Acc::StrF64(f), TV::Str(s)) => s.parse::<f64>().map(|x| x.to_bits() == f.to_bits() || (x.is_nan() && f.is_nan())).unwrap_or(false),
        (Acc::StrPrefix(p), TV::Str(s)) => s.starts_with(p.as_str()) && s[p.len()..].chars().all(|c| c == '.' || c == '0'),
        (Acc::Any, _) => true,
        _ => false,
    }
}

fn describe(a: &Acc) -> String {
    match a {
        Acc::Is(v) => show(v),
        Acc::F64Near(f) => format!("{f:?} (±1 ulp)"),
        Acc::DecOfF64(f, _) => format!("a decimal that converts back to the double {f:?}"),
        Acc::StrBool(b) => format!("text of the boolean {b}"),
        Acc::StrDec(d) => format!("text of the number {d}"),
        Acc::StrF64(f) => format!("text of the double {f:?}"),
        Acc::StrPrefix(p) => format!("'{p}'"),
        Acc::Any => "any non-NULL value".into(),
    }
}

// ---------------------------------------------------------------------------------------------
// literals

const INT_LITS: &[&str] = &[
    "1", "0", "-1", "2", "7", "127", "128", "-128", "-129", "255", "32767", "32768", "-32768", "-32769", "65536",
    "2147483647", "2147483648", "-2147483648", "-2147483649", "12345678901", "9007199254740993",
    "9223372036854775807", "-9223372036854775808", "9223372036854775808",
];
const DEC_LITS: &[&str] = &[
    "1.5", "0.0", "1.0", "-1.5", "3.0", "0.1", "0.5", "2.50", "-4.00", "1.7", "-0.0", "100.0", "1.234", "99999.99", "999.99", "999.995",
    "123456.789", "32767.0", "2147483648.0", "0.000001", "1234567890.5", "79228162514264337593543950335",
];
const STR_LITS: &[&str] = &[
    "a", "", "abc", "12", "-3", "0", "1", "é", "1.5", "1.0", "2.50", " 7", "+4", "true", "false", "TRUE", "t",
    "2024-02-29", "2023-02-29", "2024-02-29 01:02:03", "1 day", "NaN", "inf", "1e3", "99999999999999999999",
    "a'b", "\\x41", "123456.789", "-0",
];
const DATE_LITS: &[&str] = &["2024-02-29", "1970-01-01", "1999-12-31", "0001-01-01", "9999-12-31"];
const TS_LITS: &[&str] = &["2024-02-29 01:02:03", "1970-01-01 00:00:00", "1999-12-31 23:59:59"];
const INTV_LITS: &[(&str, (i32, i32, i32))] = &[
    ("interval '1' day", (0, 1, 0)),
    ("interval '2' month", (2, 0, 0)),
    ("interval '1' year", (12, 0, 0)),
    ("interval '-3' day", (0, -3, 0)),
    ("interval '0' day", (0, 0, 0)),
];

#[derive(Clone, Copy, Debug, PartialEq, Eq)]
enum LK {
    Null,
    Bool,
    Int,
    Dec,
    Str,
    Date,
    Ts,
    Intv,
    /// a DOUBLE value, written as a cast of its text (also the non-finite ones and 1e30)
    F64,
}

fn int_lit(t: &str) -> (String, SV) {
    let d = Decimal::from_str(t).unwrap();
    let mag: i128 = t.trim_start_matches('-').parse().unwrap();
    let k = if mag <= i32::MAX as i128 { "int" } else if mag <= i64::MAX as i128 { "bigint" } else { "decimal" };
    (t.to_string(), SV::Exact(d, k))
}

fn lit(k: LK, v: u16) -> (String, SV) {
    match k {
        LK::Null => ("null".into(), SV::Null),
        LK::Bool => (if v < 0x8000 { "true" } else { "false" }.into(), SV::Bool(v < 0x8000)),
        LK::Int => int_lit(INT_LITS[pick(v, INT_LITS.len())]),
        LK::Dec => {
            let t = DEC_LITS[pick(v, DEC_LITS.len())];
            (t.to_string(), SV::Exact(Decimal::from_str(t).unwrap(), "decimal"))
        }
        LK::Str => {
            let t = STR_LITS[pick(v, STR_LITS.len())];
            (format!("'{}'", t.replace('\'', "''")), SV::Str(t.to_string()))
        }
        LK::F64 => {
            let t = ["inf", "-inf", "NaN", "1e30", "1.5", "2", "0.25", "-3"][pick(v, 8)];
            (format!("cast('{t}' as double)"), SV::F64(t.parse::<f64>().unwrap()))
        }
        LK::Date => {
            let t = DATE_LITS[pick(v, DATE_LITS.len())];
            (format!("date '{t}'"), SV::Date(parse_date(t).unwrap(), t.to_string()))
        }
        LK::Ts => {
            let t = TS_LITS[pick(v, TS_LITS.len())];
            (format!("timestamp '{t}'"), SV::Ts(parse_ts(t).unwrap(), t.to_string()))
        }
        LK::Intv => {
            let (t, (m, d, s)) = INTV_LITS[pick(v, INTV_LITS.len())];
            (t.to_string(), SV::Intv(m, d, s))
        }
    }
}

/// A literal that converts to the column type exactly ("native").
fn native(bt: BT, v: u16) -> (String, SV) {
    let ok = |c: &(String, SV)| {
        let e = expect(&c.1, bt);
        e.must_fail.is_none() && !e.may_fail
    };
    let pool: Vec<(String, SV)> = match bt {
        BT::Bool => vec![lit(LK::Bool, 0), lit(LK::Bool, 0xffff)],
        BT::I16 | BT::I32 | BT::I64 => INT_LITS.iter().map(|t| int_lit(t)).filter(ok).collect(),
        BT::F64 | BT::Dec(_) => (0..DEC_LITS.len())
            .map(|i| lit(LK::Dec, ((i << 16) / DEC_LITS.len() + 1) as u16))
            .chain(INT_LITS.iter().take(6).map(|t| int_lit(t)))
            .filter(ok)
            .collect(),
        BT::Date => (0..DATE_LITS.len()).map(|i| lit(LK::Date, ((i << 16) / DATE_LITS.len() + 1) as u16)).collect(),
        // as strings: two TIMESTAMP literals in one VALUES column have no common type in this dialect
        BT::Ts => TS_LITS.iter().map(|t| (format!("'{t}'"), SV::Str(t.to_string()))).collect(),
        BT::Intv => (0..INTV_LITS.len()).map(|i| lit(LK::Intv, ((i << 16) / INTV_LITS.len() + 1) as u16)).collect(),
        BT::Str | BT::Blob => (0..STR_LITS.len()).map(|i| lit(LK::Str, ((i << 16) / STR_LITS.len() + 1) as u16)).filter(ok).collect(),
    };
    pool[pick(v, pool.len())].clone()
}

// ---------------------------------------------------------------------------------------------
// cases

#[derive(Clone, Debug, Serialize, Deserialize)]
pub struct Cell {
    pub mode: u16,
    pub kind: u16,
    pub v: u16,
}

#[derive(Clone, Debug, Serialize, Deserialize)]
pub enum SItem {
    Col(u16),
    Lit(Cell),
}

#[derive(Clone, Debug, Serialize, Deserialize)]
pub struct ColList {
    pub keys: Vec<u16>,
    pub drop: u16,
}

#[derive(Clone, Debug, Serialize, Deserialize)]
pub enum Stmt {
    Values { list: Option<ColList>, rows: Vec<Vec<Cell>>, rep: u8 },
    Select { list: Option<ColList>, items: Vec<SItem> },
}

#[derive(Clone, Debug, Serialize, Deserialize)]
pub struct BCase {
    pub disk: bool,
    /// (index into B_TYPES, constraint: 0 none, 1 NOT NULL, 2 PRIMARY KEY)
    pub cols: Vec<(u16, u8)>,
    pub id_pos: u16,
    pub src: Vec<u16>,
    pub src_rows: Vec<Vec<u16>>,
    pub stmts: Vec<Stmt>,
}

const MAXC: usize = 4;

pub fn strategy() -> impl Strategy<Value = BCase> {
    let cell = || (any::<u16>(), any::<u16>(), any::<u16>()).prop_map(|(mode, kind, v)| Cell { mode, kind, v });
    let list = || prop::option::weighted(0.5, (prop::collection::vec(any::<u16>(), MAXC + 1), any::<u16>()).prop_map(|(keys, drop)| ColList { keys, drop }));
    let item = prop_oneof![3 => any::<u16>().prop_map(SItem::Col), 2 => cell().prop_map(SItem::Lit)];
    let stmt = prop_oneof![
        3 => (list(), prop::collection::vec(prop::collection::vec(cell(), MAXC), 1..=4), prop_oneof![12 => Just(1u8), 1 => Just(30u8), 1 => Just(70u8)])
            .prop_map(|(list, rows, rep)| Stmt::Values { list, rows, rep }),
        2 => (list(), prop::collection::vec(item, MAXC)).prop_map(|(list, items)| Stmt::Select { list, items }),
    ];
    (
        prop::bool::weighted(0.4),
        prop::collection::vec((any::<u16>(), prop_oneof![5 => Just(0u8), 3 => Just(1u8), 2 => Just(2u8)]), 1..=MAXC),
        any::<u16>(),
        prop::collection::vec(any::<u16>(), 1..=3),
        prop::collection::vec(prop::collection::vec(any::<u16>(), 3), 1..=4),
        prop::collection::vec(stmt, 1..=4),
    )
        .prop_map(|(disk, cols, id_pos, src, src_rows, stmts)| BCase { disk, cols, id_pos, src, src_rows, stmts })
}

#[derive(Clone, Debug)]
struct ColDef {
    name: String,
    sql_ty: &'static str,
    bt: BT,
    notnull: bool,
    pk: bool,
    is_id: bool,
}

struct TabDef {
    name: &'static str,
    cols: Vec<ColDef>,
}

impl TabDef {
    fn ddl(&self) -> String {
        // the primary key is declared inline (`k int primary key`) or, when it sits at an odd
        // column position, by the table-level constraint `primary key(k)`
        let table_level = self.cols.iter().position(|c| c.pk).is_some_and(|i| i % 2 == 1);
        let mut defs: Vec<String> = self
            .cols
            .iter()
            .map(|c| format!("{} {}{}", c.name, c.sql_ty, if c.pk && !table_level { " primary key" } else if c.notnull && !c.pk { " not null" } else { "" }))
            .collect();
        if table_level {
            defs.push(format!("primary key({})", self.cols.iter().find(|c| c.pk).unwrap().name));
        }
        format!("create table {} ({})", self.name, defs.join(", "))
    }
    fn id_idx(&self) -> usize {
        self.cols.iter().position(|c| c.is_id).unwrap()
    }
}

/// One row an INSERT statement supplies: id and, per table column, the inserted value
/// (`None`: the column is not in the column list).
struct RowPlan {
    id: i64,
    cells: Vec<Option<SV>>,
}

struct Gen<'a> {
    st: &'a mut Stats,
    allow_null_nn: bool,
    allow_lossy: bool,
    /// DOUBLE literals may be used: the statement has a single VALUES row or is INSERT .. SELECT
    /// (in a multi-row VALUES list a double would change the common type of the whole column)
    f64_lits: bool,
}

impl Gen<'_> {
    /// Would inserting `sv` into `c` trip over an open finding's exclusion?
    fn excluded(&mut self, sv: &SV, c: &ColDef) -> bool {
        if matches!(sv, SV::Null) {
            if c.notnull && !self.allow_null_nn {
                self.st.excluded("gen.null_into_not_null");
                return true;
            }
            return false;
        }
        if !self.allow_lossy {
            // a double is stored in DECIMAL(p,s) with all its binary digits (scale never applied)
            if matches!((sv, c.bt), (SV::F64(_), BT::Dec(Some(_)))) {
                self.st.excluded("gen.lossy_numeric_insert");
                return true;
            }
            if let Some(why) = expect(sv, c.bt).must_fail {
                if why.starts_with("lossy:") {
                    self.st.excluded("gen.lossy_numeric_insert");
                    return true;
                }
            }
        }
        false
    }

    fn cell(&mut self, c: &Cell, col: &ColDef) -> (String, SV) {
        let m = pick(c.mode, 100);
        let compat: &[LK] = match col.bt {
            BT::Date => &[LK::Str, LK::Date],
            BT::Ts => &[LK::Str, LK::Ts],
            BT::Intv => &[LK::Str, LK::Intv],
            BT::Blob => &[LK::Str],
            _ => &[LK::Int, LK::Dec, LK::Str, LK::Bool],
        };
        let foreign: &[LK] = &[LK::Int, LK::Date, LK::Intv, LK::Ts, LK::Bool, LK::Dec];
        let out = if m < 50 {
            native(col.bt, c.v)
        } else if m < 60 {
            lit(LK::Null, 0)
        } else if m < 66 && self.f64_lits && matches!(col.bt, BT::Dec(_)) {
            // a DOUBLE into a DECIMAL column (non-finite and out-of-range ones must be refused)
            lit(LK::F64, c.v)
        } else if m < 95 {
            lit(compat[pick(c.kind, compat.len())], c.v)
        } else {
            lit(foreign[pick(c.kind, foreign.len())], c.v)
        };
        if self.excluded(&out.1, col) { native(col.bt, c.v) } else { out }
    }
}

struct Table {
    /// array variant names per chunk
    kinds: Vec<Vec<&'static str>>,
    rows: Vec<Vec<TV>>,
}

async fn read_table(db: &Database, name: &str) -> Result<Table, String> {
    let _ = take_panics();
    match run_raw(db, &format!("select * from {name}")).await {
        Ok(Ok(chunks)) => {
            let p = take_panics();
            if !p.is_empty() {
                return Err(format!("panic in an operator task: {}", p[0]));
            }
            let mut t = Table { kinds: vec![], rows: vec![] };
            if let Some(c) = chunks.last() {
                for dc in c.data_chunks() {
                    t.kinds.push(dc.arrays().iter().map(akind).collect());
                    for r in dc.rows() {
                        t.rows.push(r.values().map(|v| tv_of(&v)).collect());
                    }
                }
            }
            Ok(t)
        }
        Ok(Err(e)) => Err(format!("error: {e}")),
        Err(p) => Err(format!("panic: {p}")),
    }
}

fn engine(disk: bool) -> &'static str {
    if disk { "disk" } else { "mem" }
}

/// Run one INSERT and compare the table with the model. `snap`: id -> row before the statement.
async fn apply(
    db: &Database,
    disk: bool,
    tab: &TabDef,
    sql: &str,
    plan: &[RowPlan],
    via: &[Option<&'static str>],
    snap: &mut BTreeMap<i64, Vec<TV>>,
    st: &mut Stats,
    fp: &mut BTreeSet<(&'static str, &'static str, &'static str)>,
) -> Result<(), Failure> {
    let bad = |sig: String, msg: String| Failure { sig, msg: format!("{msg}\n  [{}] table: {}\n  statement: {}", engine(disk), tab.ddl(), sql) };
    let _ = take_panics();
    st.eval();
    let raw = run_raw(db, sql).await;
    let panics = take_panics();
    // outcome: acknowledged, or failed in one of four ways
    let out = match &raw {
        Ok(Ok(chunks)) => {
            let acked = chunks.last().map(|c| !c.data_chunks().is_empty()).unwrap_or(false);
            if !acked && !panics.is_empty() { "task-panic" } else { "ok" }
        }
        Ok(Err(risinglight::Error::Parse(_) | risinglight::Error::Bind(_))) => "rejected",
        Ok(Err(_)) => "failed",
        Err(_) => "panicked",
    };
    st.class(&format!("b:out:{out}"));
    let table = match read_table(db, tab.name).await {
        Ok(t) => t,
        Err(e) => return Err(bad("stored:select-failed".into(), format!("`select *` after the INSERT ({out}) failed: {e}"))),
    };
    // declared types
    for (ci, kinds) in table.kinds.iter().enumerate() {
        if kinds.len() != tab.cols.len() {
            return Err(bad("stored:colcount".into(), format!("chunk #{ci} of `select *` has {} columns, the table {}", kinds.len(), tab.cols.len())));
        }
        for (k, c) in kinds.iter().zip(&tab.cols) {
            if *k != c.bt.kind() {
                return Err(bad(
                    format!("stored:array-type:{}!={k}", c.bt.kind()),
                    format!("column {} is declared {} but `select *` returns a {k} array", c.name, c.sql_ty),
                ));
            }
        }
    }
    // rows by id
    let idx = tab.id_idx();
    let mut now: BTreeMap<i64, Vec<TV>> = BTreeMap::new();
    for r in &table.rows {
        let TV::Int(id) = r[idx] else {
            return Err(bad("stored:id-corrupt".into(), format!("a row has id {} (ids are inserted as plain non-NULL integers): {:?}", show(&r[idx]), r)));
        };
        if now.insert(id, r.clone()).is_some() {
            return Err(bad("stored:row-duplicated".into(), format!("id {id} occurs twice after the statement ({out})")));
        }
    }
    let acked = out == "ok";
    // expectations per cell
    let mut must_fail: Option<(usize, usize, &'static str)> = None;
    let mut may_fail = false;
    let mut exps: Vec<Vec<Exp>> = vec![];
    for (ri, row) in plan.iter().enumerate() {
        let mut es = vec![];
        for (ci, c) in tab.cols.iter().enumerate() {
            let sv = row.cells[ci].clone().unwrap_or(SV::Null);
            let mut e = expect_via(&sv, via.get(ci).copied().flatten(), c.bt);
            if matches!(sv, SV::Null) && c.notnull {
                e = no("null-into-notnull");
            }
            if sv.kind() != c.bt.name() || e.must_fail.is_some() {
                let cls = if e.must_fail.is_some() { "must-fail" } else if e.may_fail { "may-fail" } else { "convert" };
                fp.insert((sv.kind(), c.bt.name(), cls));
            }
            if let Some(w) = e.must_fail {
                // report NOT NULL first: it is the more specific finding
                if must_fail.is_none() || (w == "null-into-notnull" && must_fail.unwrap().2 != "null-into-notnull") {
                    must_fail = Some((ri, ci, w));
                }
            }
            may_fail |= e.may_fail;
            es.push(e);
        }
        exps.push(es);
    }
    if !acked {
        if now != *snap && !(now.len() == snap.len() && now.iter().zip(snap.iter()).all(|(a, b)| a.0 == b.0 && a.1.iter().zip(b.1).all(|(x, y)| same_tv(x, y)))) {
            let extra: Vec<&i64> = now.keys().filter(|k| !snap.contains_key(k)).collect();
            return Err(bad(
                format!("insert:failed-but-changed:{out}"),
                format!("the INSERT did not succeed ({out}: {}) but the table changed; new ids: {extra:?}", match &raw { Ok(Err(e)) => e.to_string(), Err(p) => p.clone(), _ => panics.join("; ") }),
            ));
        }
        if must_fail.is_none() && !may_fail {
            if std::env::var("RLV_DEBUG_C16").is_ok() {
                eprintln!("[c16 unexpected-{out}] {} :: {sql} :: {}", tab.ddl(), match &raw { Ok(Err(e)) => e.to_string().lines().next().unwrap_or("").to_string(), Err(p) => p.clone(), _ => panics.join("; ") });
            }
            st.class(&format!("b:unexpected-{out}"));
        }
        return Ok(());
    }
    if let Some((ri, ci, why)) = must_fail {
        let c = &tab.cols[ci];
        let sv = plan[ri].cells[ci].clone().unwrap_or(SV::Null);
        let stored = now.get(&plan[ri].id).map(|r| r[ci].clone());
        let stored_s = stored.as_ref().map(show).unwrap_or("(row missing)".into());
        if why == "null-into-notnull" {
            let cls = match &stored {
                None => "row-missing",
                Some(TV::Null) => "stored-null",
                Some(_) => "stored-value",
            };
            return Err(bad(
                format!("notnull:null-accepted:{}:{cls}", engine(disk)),
                format!(
                    "NULL {} column {} ({}{}) was accepted; the column now holds {stored_s}",
                    if plan[ri].cells[ci].is_none() { "by omission for" } else { "inserted into" },
                    c.name,
                    c.sql_ty,
                    if c.pk { " primary key" } else { " not null" }
                ),
            ));
        }
        return Err(bad(
            format!("insert:accepted:{why}:{}->{}", sv.kind(), c.bt.name()),
            format!("{:?} has no lossless conversion to {} ({why}), yet the INSERT succeeded; column {} now holds {stored_s}", sv, c.sql_ty, c.name),
        ));
    }
    // every acknowledged row is there, holding the converted values
    for (row, es) in plan.iter().zip(&exps) {
        let Some(actual) = now.get(&row.id) else {
            let why = panics.first().map(|p| panic_sig(p)).unwrap_or("no-panic".into());
            return Err(bad(format!("insert:ack-but-missing:{why}"), format!("the INSERT succeeded but row id {} is not in the table", row.id)));
        };
        for (ci, c) in tab.cols.iter().enumerate() {
            if c.is_id {
                continue;
            }
            let sv = row.cells[ci].clone().unwrap_or(SV::Null);
            if !accepts(&es[ci].acc, &actual[ci]) {
                let sig = if matches!(sv, SV::Null) {
                    format!("stored:null-replaced:{}", c.bt.name())
                } else if matches!(actual[ci], TV::Null) {
                    format!("stored:value-became-null:{}->{}", sv.kind(), c.bt.name())
                } else {
                    format!("stored:value:{}->{}", sv.kind(), c.bt.name())
                };
                return Err(bad(
                    sig,
                    format!("row id {}: inserted {:?} into {} {}; expected {}, the table holds {}", row.id, sv, c.name, c.sql_ty, describe(&es[ci].acc), show(&actual[ci])),
                ));
            }
        }
    }
    let planned: BTreeSet<i64> = plan.iter().map(|r| r.id).collect();
    for (id, r) in &now {
        match snap.get(id) {
            Some(old) => {
                if !old.iter().zip(r).all(|(x, y)| same_tv(x, y)) {
                    return Err(bad("stored:old-row-changed".into(), format!("row id {id} changed from {old:?} to {r:?}")));
                }
            }
            None if planned.contains(id) => {}
            None => return Err(bad("stored:row-unexpected".into(), format!("row id {id} appeared but was not inserted: {r:?}"))),
        }
    }
    if let Some(id) = snap.keys().find(|k| !now.contains_key(k)) {
        return Err(bad("stored:old-row-lost".into(), format!("row id {id} disappeared")));
    }
    *snap = now;
    Ok(())
}

fn col_order(list: &Option<ColList>, tab: &TabDef, keep_notnull: bool) -> (Vec<usize>, bool) {
    let n = tab.cols.len();
    let Some(l) = list else { return ((0..n).collect(), false) };
    let mut order: Vec<usize> = (0..n).collect();
    order.sort_by_key(|i| (l.keys.get(*i).copied().unwrap_or(0), *i));
    let drop = pick(l.drop, n);
    let mut kept: Vec<usize> = order[..n - drop].to_vec();
    for &i in &order[n - drop..] {
        // the id column always stays; NOT NULL columns stay while the finding is excluded
        if tab.cols[i].is_id || (keep_notnull && tab.cols[i].notnull) {
            kept.push(i);
        }
    }
    (kept, true)
}

pub fn test(ctx: &Ctx, case: &BCase, st: &mut Stats) -> Verdict {
    if case.cols.is_empty() || case.cols.len() > MAXC || case.src.is_empty() || case.src.len() > 3 {
        return Verdict::Discard("malformed case");
    }
    // tables
    let mut pk_seen = false;
    let mut cols: Vec<ColDef> = case
        .cols
        .iter()
        .enumerate()
        .map(|(i, (t, cons))| {
            let (sql_ty, bt) = B_TYPES[pick(*t, B_TYPES.len())];
            let pk = *cons == 2 && !pk_seen;
            pk_seen |= pk;
            ColDef { name: format!("c{i}"), sql_ty, bt, notnull: *cons != 0, pk, is_id: false }
        })
        .collect();
    let idp = pick(case.id_pos, cols.len() + 1);
    cols.insert(idp, ColDef { name: "id".into(), sql_ty: "int", bt: BT::I32, notnull: false, pk: false, is_id: true });
    let tab = TabDef { name: "t", cols };
    let mut scols = vec![ColDef { name: "id".into(), sql_ty: "int", bt: BT::I32, notnull: false, pk: false, is_id: true }];
    for (i, t) in case.src.iter().enumerate() {
        let (sql_ty, bt) = B_TYPES[pick(*t, B_TYPES.len())];
        scols.push(ColDef { name: format!("s{i}"), sql_ty, bt, notnull: false, pk: false, is_id: false });
    }
    let src = TabDef { name: "s", cols: scols };
    let allow_null_nn = !ctx.off("gen.null_into_not_null");
    let allow_lossy = !ctx.off("gen.lossy_numeric_insert");
    let dir = case.disk.then(|| ctx.case_dir("c16b"));
    let mut fp: BTreeSet<(&'static str, &'static str, &'static str)> = BTreeSet::new();
    let mut shape: Vec<&'static str> = vec![];
    let res = block_on(async {
        let db = match &dir {
            Some(d) => open_disk(&DiskCfg::small(), d).await.map_err(|e| Failure { sig: "stored:open".into(), msg: e })?,
            None => Database::new_in_memory(),
        };
        let r = body(case, &db, &tab, &src, allow_null_nn, allow_lossy, st, &mut fp, &mut shape).await;
        if case.disk {
            let _ = shutdown(&db).await;
        }
        r
    });
    match res {
        Ok(Ok(())) => {}
        Ok(Err(f)) => return Verdict::Fail(f),
        Err(p) => return fail("stored:harness-panic", format!("panic outside a statement: {p}")),
    }
    st.class(if case.disk { "b:engine:disk" } else { "b:engine:mem" });
    for (s, d, c) in &fp {
        st.class(&format!("b:conv:{c}"));
        st.class(&format!("b:pair:{s}->{d}"));
    }
    if !fp.is_empty() {
        let decl: Vec<(&str, bool, bool)> = tab.cols.iter().map(|c| (c.bt.name(), c.notnull, c.pk)).collect();
        st.nontrivial(("b", case.disk, decl, shape, fp));
    }
    Verdict::Pass
}

#[allow(clippy::too_many_arguments)]
async fn body(
    case: &BCase,
    db: &Database,
    tab: &TabDef,
    src: &TabDef,
    allow_null_nn: bool,
    allow_lossy: bool,
    st: &mut Stats,
    fp: &mut BTreeSet<(&'static str, &'static str, &'static str)>,
    shape: &mut Vec<&'static str>,
) -> Result<(), Failure> {
    for t in [src, tab] {
        if !exec(db, &t.ddl()).await.is_ok() {
            return Err(Failure { sig: "stored:create-table".into(), msg: format!("cannot create: {}", t.ddl()) });
        }
    }
    // source table: exact ("native") literals, checked like any other INSERT
    let mut ssnap = BTreeMap::new();
    {
        let mut plan = vec![];
        let mut rows = vec![];
        for (ri, r) in case.src_rows.iter().enumerate() {
            let mut cells = vec![Some(SV::Exact(Decimal::from(ri as i64), "int"))];
            let mut sql = vec![ri.to_string()];
            for (ci, c) in src.cols.iter().enumerate().skip(1) {
                let v = r.get(ci - 1).copied().unwrap_or(0);
                let (s, sv) = if v >= 0xd000 { lit(LK::Null, 0) } else { native(c.bt, ((v as u32 * 0x10000) / 0xd000) as u16) };
                sql.push(s);
                cells.push(Some(sv));
            }
            rows.push(format!("({})", sql.join(", ")));
            plan.push(RowPlan { id: ri as i64, cells });
        }
        let sql = format!("insert into s values {}", rows.join(", "));
        let mut sfp = BTreeSet::new();
        apply(db, case.disk, src, &sql, &plan, &[], &mut ssnap, st, &mut sfp).await?;
    }
    let mut snap = BTreeMap::new();
    for (k, stmt) in case.stmts.iter().enumerate() {
        let base = (k as i64 + 1) * 1000;
        let f64_lits = match stmt {
            Stmt::Values { rows, rep, .. } => rows.len() == 1 && *rep <= 1,
            _ => true,
        };
        let mut g = Gen { st, allow_null_nn, allow_lossy, f64_lits };
        let (sql, plan, via) = match stmt {
            Stmt::Values { list, rows, rep } => {
                let (order, explicit) = col_order(list, tab, !allow_null_nn);
                let mut tuples = vec![];
                let mut plan = vec![];
                let mut n = 0i64;
                for _ in 0..(*rep).max(1) {
                    for r in rows {
                        let mut cells: Vec<Option<SV>> = vec![None; tab.cols.len()];
                        let mut sql = vec![];
                        let mut j = 0;
                        for &ci in &order {
                            let c = &tab.cols[ci];
                            if c.is_id {
                                sql.push((base + n).to_string());
                                cells[ci] = Some(SV::Exact(Decimal::from(base + n), "int"));
                            } else {
                                let cell = r.get(j).cloned().unwrap_or(Cell { mode: 0, kind: 0, v: 0 });
                                j += 1;
                                let (s, sv) = g.cell(&cell, c);
                                sql.push(s);
                                cells[ci] = Some(sv);
                            }
                        }
                        tuples.push(format!("({})", sql.join(", ")));
                        plan.push(RowPlan { id: base + n, cells });
                        n += 1;
                    }
                }
                shape.push(if *rep > 1 { "values-bulk" } else if explicit { "values-list" } else { "values" });
                let names: Vec<&str> = order.iter().map(|&i| tab.cols[i].name.as_str()).collect();
                let l = if explicit { format!("({})", names.join(", ")) } else { String::new() };
                // the VALUES column type is the common type of its rows
                let via: Vec<Option<&'static str>> = (0..tab.cols.len())
                    .map(|ci| {
                        let ks: Vec<&'static str> = plan.iter().filter_map(|r| r.cells[ci].as_ref().map(|v| v.kind())).collect();
                        if ks.is_empty() { None } else { union_kind(&ks) }
                    })
                    .collect();
                (format!("insert into t{l} values {}", tuples.join(", ")), plan, via)
            }
            Stmt::Select { list, items } => {
                let (order, explicit) = col_order(list, tab, !allow_null_nn);
                let mut sel = vec![];
                // per target column: how to compute the inserted value from a source row
                let mut makers: Vec<(usize, Result<usize, SV>)> = vec![];
                let mut j = 0;
                for &ci in &order {
                    let c = &tab.cols[ci];
                    if c.is_id {
                        sel.push(format!("id + {base}"));
                        continue;
                    }
                    let item = items.get(j).cloned().unwrap_or(SItem::Col(0));
                    j += 1;
                    match item {
                        SItem::Col(x) => {
                            let sc = 1 + pick(x, src.cols.len() - 1);
                            let trips = ssnap.values().any(|r: &Vec<TV>| g.excluded(&sv_of(&r[sc], src.cols[sc].bt), c));
                            if trips {
                                let (s, sv) = native(c.bt, x);
                                sel.push(s);
                                makers.push((ci, Err(sv)));
                            } else {
                                sel.push(src.cols[sc].name.clone());
                                makers.push((ci, Ok(sc)));
                            }
                        }
                        SItem::Lit(cell) => {
                            let (s, sv) = g.cell(&cell, c);
                            sel.push(s);
                            makers.push((ci, Err(sv)));
                        }
                    }
                }
                let mut plan = vec![];
                for (sid, r) in &ssnap {
                    let mut cells: Vec<Option<SV>> = vec![None; tab.cols.len()];
                    cells[tab.id_idx()] = Some(SV::Exact(Decimal::from(sid + base), "int"));
                    for (ci, m) in &makers {
                        cells[*ci] = Some(match m {
                            Ok(sc) => sv_of(&r[*sc], src.cols[*sc].bt),
                            Err(sv) => sv.clone(),
                        });
                    }
                    plan.push(RowPlan { id: sid + base, cells });
                }
                shape.push(if explicit { "select-list" } else { "select" });
                let names: Vec<&str> = order.iter().map(|&i| tab.cols[i].name.as_str()).collect();
                let l = if explicit { format!("({})", names.join(", ")) } else { String::new() };
                (format!("insert into t{l} select {} from s", sel.join(", ")), plan, vec![])
            }
        };
        apply(db, case.disk, tab, &sql, &plan, &via, &mut snap, st, fp).await?;
    }
    Ok(())
}
