//! C11 — all physical implementations of an operator agree.
//!
//! Three parts, each a differential between hand-built physical plans run with
//! `executor::build` over generated in-memory tables (explicit chunking, NULL / duplicate /
//! all-equal keys, int-width mixes, empty sides, optional filter producing empty chunks):
//!  * `join`: nested loop vs hash vs merge (over `order`) for inner/left/right/full/semi/anti;
//!  * `agg` : hashagg vs sortagg (over `order`), and simple agg vs hashagg([]) on non-empty input;
//!  * `topn`: limit(order) vs topn, compared on the order keys.
//! The verdict is purely differential (multisets); a row-at-a-time reference model is used
//! only to *attribute* a disagreement (narrow signature) and for the non-triviality rule.
use std::collections::{BTreeMap, HashMap};

use egg::Id;
use proptest::prelude::*;
use risinglight::catalog::TableRefId;
use risinglight::planner::{Expr, RecExpr};
use risinglight::types::DataValue;
use serde::{Deserialize, Serialize};

use super::c11_data::*;
use crate::engine::*;
use crate::sqlrun::{Row, Val, block_on, fmt_rows, panic_sig, sorted};

pub fn def() -> PropDef {
    PropDef {
        id: "C11",
        level: "exploration",
        rule: "join: both inputs non-empty, >=1 pair of rows with equal non-NULL keys, and a key column holds a NULL or a duplicate or an input spans >1 chunk; agg: input non-empty and (a group with >=2 rows or a NULL group key or >1 chunk); topn: input non-empty and limit>0. Distinct = distinct (operator shape, key types, size/NULL/duplicate/chunk class) fingerprints",
        assumptions: vec![
            "plans are built as RecExpr and run through executor::build exactly as Database::run does; the scan of an in-memory table emits the appended chunks unchanged",
            "the reference model only names the deviating implementation in the failure signature; pass/fail is decided by comparing the implementations with each other",
            "merge join / sort aggregation inputs are sorted by the `order` executor on the same key list (ascending), as the optimizer's merge-join / sort-agg rules require",
        ],
        min_nontrivial: 60,
        parts: vec![
            part("join", 24_000, 400_000, |_| join_strategy(), join_test),
            part("agg", 14_000, 240_000, |_| agg_strategy(), agg_test),
            part("topn", 10_000, 160_000, |_| top_strategy(), top_test),
        ],
    }
}

// ---------------------------------------------------------------------------------------------
// shared helpers

fn size_class(n: usize) -> &'static str {
    match n {
        0 => "0",
        1..=8 => "1-8",
        9..=64 => "9-64",
        65..=1024 => "65-1024",
        _ => ">1024",
    }
}

fn describe(name: &str, m: &Mat, t: &TabData) -> String {
    let tys: Vec<String> = (0..NCOL).map(|j| format!("{} {}", COLN[j], m.tys[j].sql())).collect();
    format!(
        "{name}({}) {} rows in {} chunks{}, live {} = {}",
        tys.join(","),
        m.rows.len(),
        m.chunks.len(),
        if t.flt { " under filter w>0" } else { "" },
        m.live.len(),
        fmt_rows(&m.live[..m.live.len().min(12)])
    )
}

/// rows only in a / only in b (both sorted), a few of each
fn diff(a: &[Row], b: &[Row]) -> String {
    let (mut i, mut j) = (0, 0);
    let (mut oa, mut ob) = (vec![], vec![]);
    while i < a.len() || j < b.len() {
        match (a.get(i), b.get(j)) {
            (Some(x), Some(y)) if x == y => {
                i += 1;
                j += 1;
            }
            (Some(x), Some(y)) if x < y => {
                oa.push(x.clone());
                i += 1;
            }
            (Some(_), Some(y)) => {
                ob.push(y.clone());
                j += 1;
            }
            (Some(x), None) => {
                oa.push(x.clone());
                i += 1;
            }
            (None, Some(y)) => {
                ob.push(y.clone());
                j += 1;
            }
            (None, None) => break,
        }
    }
    format!(
        "{} rows vs {} rows; only in first ({}): {}; only in second ({}): {}",
        a.len(),
        b.len(),
        oa.len(),
        fmt_rows(&oa[..oa.len().min(6)]),
        ob.len(),
        fmt_rows(&ob[..ob.len().min(6)])
    )
}

fn outc_cause(o: &Outc) -> Option<String> {
    match o {
        Outc::Rows(_) => None,
        Outc::Failed(_) => Some("error".into()),
        Outc::Panicked(p) if p.contains("not yet implemented") || p.contains("invalid join type") => {
            Some("unimplemented".into())
        }
        Outc::Panicked(p) if p.contains("capacity overflow") => Some("panic:capacity-overflow".into()),
        Outc::Panicked(p) => Some(format!("panic:{}", panic_sig(p))),
    }
}

fn outc_text(o: &Outc) -> String {
    match o {
        Outc::Rows(r) => format!("{} rows", r.len()),
        Outc::Failed(e) => format!("error: {}", e.lines().next().unwrap_or("")),
        Outc::Panicked(p) => format!("panic: {p}"),
    }
}

/// Pick the failure to report: the first one that is not attributed to an open finding.
fn pick(ctx: &Ctx, fails: Vec<(String, String)>) -> Verdict {
    let i = fails.iter().position(|(s, _)| ctx.known_sig(s).is_none()).unwrap_or(0);
    let (s, m) = fails.into_iter().nth(i).unwrap();
    fail(s, m)
}

// ---------------------------------------------------------------------------------------------
// part 1: joins

const JT: [&str; 6] = ["inner", "left_outer", "right_outer", "full_outer", "semi", "anti"];
/// key column type pairs (left, right)
const PAIRS: [(Ty, Ty); 10] = [
    (Ty::Int, Ty::Int),
    (Ty::Big, Ty::Big),
    (Ty::Str, Ty::Str),
    (Ty::Bool, Ty::Bool),
    (Ty::Small, Ty::Small),
    (Ty::Int, Ty::Big),
    (Ty::Big, Ty::Int),
    (Ty::Small, Ty::Int),
    (Ty::Int, Ty::Small),
    (Ty::Small, Ty::Big),
];

#[derive(Clone, Debug, Serialize, Deserialize)]
struct JoinCase {
    /// index into PAIRS per key column
    tp: [u8; 3],
    /// number of equi-key columns (k0..)
    nk: u8,
    /// index into JT
    jt: u8,
    /// residual condition (semi/anti: inside the join; inner: as filter over hash/merge join); 0 = none
    resid: u8,
    l: TabData,
    r: TabData,
}

fn join_strategy() -> impl Strategy<Value = JoinCase> {
    let pair = || prop::sample::select(vec![0u8, 0, 0, 0, 0, 1, 1, 2, 2, 2, 3, 4, 5, 5, 6, 7, 8, 9]);
    (
        prop::array::uniform3(pair()),
        prop::sample::select(vec![1u8, 1, 1, 1, 1, 1, 2, 2, 2, 3]),
        prop::sample::select(vec![0u8, 0, 1, 1, 2, 3, 4, 4, 5, 5]),
        prop::sample::select(vec![0u8, 0, 0, 1, 2, 3, 4]),
        tab_strategy(),
        tab_strategy(),
    )
        .prop_map(|(tp, nk, jt, resid, l, r)| JoinCase { tp, nk, jt, resid, l, r })
}

fn jt_node(jt: usize) -> Expr {
    [Expr::Inner, Expr::LeftOuter, Expr::RightOuter, Expr::FullOuter, Expr::Semi, Expr::Anti][jt].clone()
}

fn resid_expr(p: &mut Pb, resid: u8, lt: TableRefId, rt: TableRefId) -> Id {
    match resid {
        1 => {
            let (a, b) = (p.col(lt, V), p.col(rt, V));
            p.add(Expr::Lt([a, b]))
        }
        2 => {
            let (a, b) = (p.col(lt, V), p.col(rt, V));
            p.add(Expr::NotEq([a, b]))
        }
        3 => {
            let (a, b) = (p.col(lt, V), p.col(rt, V));
            let (s, c) = (p.add(Expr::Add([a, b])), p.int(2));
            p.add(Expr::Gt([s, c]))
        }
        _ => {
            let (a, b) = (p.col(lt, U), p.col(rt, U));
            p.add(Expr::Eq([a, b]))
        }
    }
}

/// three-valued: only a definitely-true residual lets the pair through
fn resid_model(resid: u8, l: &Row, r: &Row) -> bool {
    let i = |v: &Val| if let Val::Int(i) = v { Some(*i) } else { None };
    match resid {
        0 => true,
        1 => matches!((i(&l[V]), i(&r[V])), (Some(a), Some(b)) if a < b),
        2 => matches!((i(&l[V]), i(&r[V])), (Some(a), Some(b)) if a != b),
        3 => matches!((i(&l[V]), i(&r[V])), (Some(a), Some(b)) if a + b > 2),
        _ => matches!((i(&l[U]), i(&r[U])), (Some(a), Some(b)) if a == b),
    }
}

/// Row-at-a-time reference join. `null_eq`: NULL keys match each other; `strict`: key columns of
/// different integer widths never match (the semantics of a hash table keyed by DataValue).
fn ref_join(jt: usize, l: &[Row], r: &[Row], nk: usize, mixed: [bool; 3], null_eq: bool, strict: bool, resid: u8) -> Vec<Row> {
    let key = |row: &Row, side: u8| -> Option<Vec<(u8, Val)>> {
        let mut k = Vec::with_capacity(nk);
        for j in 0..nk {
            match &row[j] {
                Val::Null if !null_eq => return None,
                Val::Null => k.push((0, Val::Null)),
                v => k.push((if strict && mixed[j] { side } else { 0 }, v.clone())),
            }
        }
        Some(k)
    };
    let mut idx: HashMap<Vec<(u8, Val)>, Vec<usize>> = HashMap::new();
    for (i, row) in r.iter().enumerate() {
        if let Some(k) = key(row, 2) {
            idx.entry(k).or_default().push(i);
        }
    }
    let mut rmatched = vec![false; r.len()];
    let mut out = vec![];
    let nulls = |n: usize| std::iter::repeat_n(Val::Null, n);
    for lrow in l {
        let mut any = false;
        if let Some(c) = key(lrow, 1).and_then(|k| idx.get(&k)) {
            for &i in c {
                if resid_model(resid, lrow, &r[i]) {
                    any = true;
                    rmatched[i] = true;
                    if jt < 4 {
                        out.push(lrow.iter().cloned().chain(r[i].iter().cloned()).collect());
                    }
                }
            }
        }
        match jt {
            1 | 3 if !any => out.push(lrow.iter().cloned().chain(nulls(NCOL)).collect()),
            4 if any => out.push(lrow.clone()),
            5 if !any => out.push(lrow.clone()),
            _ => {}
        }
    }
    if jt == 2 || jt == 3 {
        for (i, rrow) in r.iter().enumerate() {
            if !rmatched[i] {
                out.push(nulls(NCOL).chain(rrow.iter().cloned()).collect());
            }
        }
    }
    sorted(out)
}

struct JoinPlans {
    plans: Vec<(&'static str, RecExpr)>,
}

fn join_plans(c: &JoinCase, jt: usize, nk: usize, resid: u8, lt: TableRefId, rt: TableRefId, want: [bool; 3]) -> JoinPlans {
    let mut plans = vec![];
    let keys = |p: &mut Pb, t: TableRefId| -> Vec<Id> { (0..nk).map(|j| p.col(t, j)).collect() };
    if want[0] {
        // (join J (and (= l.k0 r.k0) .. [c]) L R)
        let mut p = Pb::default();
        let (l, r) = (p.input(lt, c.l.flt), p.input(rt, c.r.flt));
        let mut cond: Option<Id> = None;
        for j in 0..nk {
            let (a, b) = (p.col(lt, j), p.col(rt, j));
            let e = p.add(Expr::Eq([a, b]));
            cond = Some(match cond {
                None => e,
                Some(x) => p.add(Expr::And([x, e])),
            });
        }
        let mut cond = cond.unwrap();
        if resid != 0 {
            let e = resid_expr(&mut p, resid, lt, rt);
            cond = p.add(Expr::And([cond, e]));
        }
        let t = p.add(jt_node(jt));
        p.add(Expr::Join([t, cond, l, r]));
        plans.push(("nl", p.finish()));
    }
    for (which, name) in [(1, "hash"), (2, "merge")] {
        if !want[which] {
            continue;
        }
        let mut p = Pb::default();
        let (mut l, mut r) = (p.input(lt, c.l.flt), p.input(rt, c.r.flt));
        if which == 2 {
            let (lk, rk) = (keys(&mut p, lt), keys(&mut p, rt));
            l = p.order(lk, l);
            r = p.order(rk, r);
        }
        let (lk, rk) = (keys(&mut p, lt), keys(&mut p, rt));
        let (lk, rk) = (p.list(lk), p.list(rk));
        let t = p.add(jt_node(jt));
        // semi/anti carry the residual inside the join; inner gets it as a filter on top
        let cond = if resid != 0 && jt >= 4 { resid_expr(&mut p, resid, lt, rt) } else { p.tru() };
        let j = if which == 1 {
            p.add(Expr::HashJoin([t, cond, lk, rk, l, r]))
        } else {
            p.add(Expr::MergeJoin([t, cond, lk, rk, l, r]))
        };
        if resid != 0 && jt == 0 {
            let e = resid_expr(&mut p, resid, lt, rt);
            p.add(Expr::Filter([e, j]));
        }
        plans.push((name, p.finish()));
    }
    JoinPlans { plans }
}

fn join_test(ctx: &Ctx, c: &JoinCase, st: &mut Stats) -> Verdict {
    let jt = (c.jt as usize).min(5);
    let nk = (c.nk as usize).clamp(1, 3);
    // the executor requires condition `true` for hash/merge outer joins
    let resid = if matches!(jt, 0 | 4 | 5) { c.resid.min(4) } else { 0 };
    let mut pairs = c.tp.map(|i| PAIRS[(i as usize).min(PAIRS.len() - 1)]);
    let (mut lt, mut rt) = (c.l.clone(), c.r.clone());
    // keep the output of large x large joins bounded: many distinct k0 values, few NULLs
    let live = |t: &TabData| if t.flt { t.rows.iter().filter(|r| r[W] >= 0x4000).count() } else { t.rows.len() };
    let big = live(&lt) * live(&rt) > 250_000;
    if big {
        if pairs[0].0 == Ty::Bool {
            pairs[0] = (Ty::Int, Ty::Int);
        }
        for t in [&mut lt, &mut rt] {
            t.card[0] = t.card[0].max(64);
            t.nullp[0] = t.nullp[0].min(10);
        }
    }
    // optional generator switches (an integrator may list them under `excludes` instead of
    // relying on the attributed signatures of the NULL-key / int-width findings)
    if ctx.off("gen.join_mixed_int_width") && pairs[..nk].iter().any(|p| p.0 != p.1) {
        st.excluded("gen.join_mixed_int_width");
        pairs = pairs.map(|p| (p.0, p.0));
    }
    if ctx.off("gen.join_null_keys_both_sides") {
        for j in 0..nk {
            if lt.nullp[j] > 0 && rt.nullp[j] > 0 {
                st.excluded("gen.join_null_keys_both_sides");
                rt.nullp[j] = 0;
            }
        }
    }
    let ml = materialise(&lt, pairs.map(|p| p.0));
    let mr = materialise(&rt, pairs.map(|p| p.1));
    let mixed = [0, 1, 2].map(|j| pairs[j].0 != pairs[j].1);

    // key statistics (harness side)
    let keyof = |r: &Row| r[..nk].to_vec();
    let has_null = |m: &Mat| m.live.iter().any(|r| r[..nk].iter().any(Val::is_null));
    let mut lc: HashMap<Vec<Val>, usize> = HashMap::new();
    let mut rc: HashMap<Vec<Val>, usize> = HashMap::new();
    ml.live.iter().for_each(|r| *lc.entry(keyof(r)).or_default() += 1);
    mr.live.iter().for_each(|r| *rc.entry(keyof(r)).or_default() += 1);
    let pairs_all: usize = lc.iter().map(|(k, n)| n * rc.get(k).copied().unwrap_or(0)).sum();
    let pairs_sql: usize =
        lc.iter().filter(|(k, _)| !k.iter().any(Val::is_null)).map(|(k, n)| n * rc.get(k).copied().unwrap_or(0)).sum();
    if pairs_all > 300_000 {
        return Verdict::Discard("join-output-too-large");
    }
    let null_both = lc.keys().any(|k| k.iter().any(Val::is_null) && rc.contains_key(k));
    let dup = lc.values().chain(rc.values()).any(|n| *n > 1);
    let multi = ml.live_chunks > 1 || mr.live_chunks > 1;
    let mixed_used = mixed[..nk].iter().any(|b| *b);

    // which implementations exist for this join type
    let mut want = [true, true, jt < 4];
    if big && jt < 4 {
        want[0] = false;
        st.class("join.nl-skipped-large");
    }
    if jt == 2 || jt == 3 {
        if ctx.off("gen.nl_right_full") {
            want[0] = false;
            st.excluded("gen.nl_right_full");
        }
    }
    // semi/anti joins have two implementations only (nested loop, hash): since fix e60522a the
    // planner never emits `mergejoin semi|anti` (C17 checks that), so none is built here

    let res = block_on(async {
        let env = Env::new();
        let tl = env.create("l", &ml).await?;
        let tr = env.create("r", &mr).await?;
        let jp = join_plans(c, jt, nk, resid, tl, tr, want);
        let mut outs = vec![];
        for (name, plan) in jp.plans {
            let o = env.run(&plan).await;
            outs.push((name, plan, o));
        }
        Ok::<_, String>(outs)
    });
    let outs = match res {
        Ok(Ok(o)) => o,
        Ok(Err(e)) => return fail("join:setup-error", format!("cannot create the input tables: {e}")),
        Err(p) => return fail(format!("join:setup-panic:{}", panic_sig(&p)), format!("panic while loading the input tables: {p}")),
    };
    st.evals(outs.len() as u64);

    // classes
    st.class(&format!("join.type.{}", JT[jt]));
    st.class(&format!("join.nk.{nk}"));
    st.class(&format!("join.size.{}x{}", size_class(ml.live.len()), size_class(mr.live.len())));
    for (b, n) in [
        (null_both, "join.null-keys-both-sides"),
        (has_null(&ml) || has_null(&mr), "join.null-keys"),
        (dup, "join.duplicate-keys"),
        (multi, "join.multi-chunk"),
        (mixed_used, "join.mixed-int-width"),
        (resid != 0, "join.residual"),
        (ml.live.is_empty() || mr.live.is_empty(), "join.empty-side"),
        (ml.empty_chunks + mr.empty_chunks > 0, "join.empty-chunks"),
        (pairs_sql > 0, "join.has-matches"),
        (pairs_sql > 1024, "join.output>1024"),
        (pairs_sql > 0 && pairs_sql % 1024 == 0, "join.matches=k*1024"),
        (c.l.seq && c.r.seq, "join.unique-k0-both"),
        (lc.len() == 1 && rc.len() == 1 && ml.live.len() > 1, "join.all-equal-keys"),
    ] {
        if b {
            st.class(n);
        }
    }
    let kt: Vec<(Ty, Ty)> = pairs[..nk].to_vec();
    if !ml.live.is_empty() && !mr.live.is_empty() && pairs_sql > 0 && (has_null(&ml) || has_null(&mr) || dup || multi) {
        st.nontrivial((
            "join",
            jt,
            kt.clone(),
            resid,
            size_class(ml.live.len()),
            size_class(mr.live.len()),
            (has_null(&ml), has_null(&mr), dup, multi, c.l.flt, c.r.flt),
        ));
    }

    // differential verdict: every implementation returned rows and all multisets are equal
    let rows: Vec<Option<Vec<Row>>> = outs
        .iter()
        .map(|(_, _, o)| if let Outc::Rows(r) = o { Some(sorted(r.clone())) } else { None })
        .collect();
    if rows.iter().all(|r| r.is_some() && r == &rows[0]) {
        return Verdict::Pass;
    }

    // attribution with the reference model
    let rj = |null_eq, strict| ref_join(jt, &ml.live, &mr.live, nk, mixed, null_eq, strict, resid);
    let sql = rj(false, false);
    let mut fails = vec![];
    let ctxt = format!(
        "{}\n{}\nimplementations: {}",
        describe("l", &ml, &lt),
        describe("r", &mr, &rt),
        outs.iter().map(|(n, _, o)| format!("{n}: {}", outc_text(o))).collect::<Vec<_>>().join("; ")
    );
    for (i, (name, plan, o)) in outs.iter().enumerate() {
        let cause = match (&rows[i], outc_cause(o)) {
            (_, Some(c)) => c,
            (Some(r), _) if *r == sql => continue,
            (Some(r), _) => {
                if null_both && *r == rj(true, false) {
                    "null-keys-match".to_string()
                } else if mixed_used && *r == rj(false, true) {
                    "int-width-never-match".to_string()
                } else if mixed_used && null_both && *r == rj(true, true) {
                    "null-keys-match+int-width-never-match".to_string()
                } else {
                    "wrong-rows".to_string()
                }
            }
            (None, None) => unreachable!(),
        };
        let other = rows.iter().enumerate().find(|(j, r)| *j != i && r.is_some() && **r != rows[i]).map(|(j, _)| j);
        let detail = match (&rows[i], other) {
            (Some(a), Some(j)) => format!("{name} vs {}: {}", outs[j].0, diff(a, rows[j].as_ref().unwrap())),
            (Some(a), None) => format!("{name} vs row-at-a-time model: {}", diff(a, &sql)),
            _ => String::new(),
        };
        fails.push((
            format!("join:{}:{name}:{cause}", JT[jt]),
            format!(
                "{} join on {nk} key(s) {:?}{}: the implementations disagree; `{name}` deviates ({cause}). {detail}\nplan: {plan}\n{ctxt}",
                JT[jt],
                kt,
                if resid != 0 { format!(" with residual #{resid}") } else { String::new() },
            ),
        ));
    }
    if fails.is_empty() {
        // all deviate from each other but each equals the model?? impossible; be loud
        return fail(format!("join:{}:inconsistent", JT[jt]), format!("implementations disagree but attribution found nothing\n{ctxt}"));
    }
    pick(ctx, fails)
}

// ---------------------------------------------------------------------------------------------
// part 2: aggregation

const FN: [&str; 8] = ["count", "rowcount", "sum", "min", "max", "count-distinct", "first", "last"];

#[derive(Clone, Copy, Debug, PartialEq, Eq, Hash, PartialOrd, Ord)]
enum Arg {
    Col(usize),
    VPlus1,
    NegV,
    UPlusU,
    VPlusV,
    Const7,
    None,
}

#[derive(Clone, Debug, Serialize, Deserialize)]
struct AggCase {
    ty: [Ty; 3],
    /// number of group keys (k0..); 0 = simple aggregation
    ng: u8,
    /// (function index into FN, argument selector)
    aggs: Vec<(u8, u8)>,
    /// sort by the group keys plus `v` in front of sortagg (the sort-agg rule allows a longer order)
    extra: bool,
    t: TabData,
}

fn agg_strategy() -> impl Strategy<Value = AggCase> {
    (
        prop::array::uniform3(ty_strategy()),
        prop::sample::select(vec![0u8, 0, 0, 1, 1, 1, 1, 1, 2, 2, 3]),
        prop::collection::vec((prop::sample::select(vec![0u8, 1, 2, 2, 2, 3, 3, 4, 4, 5, 5, 6, 7]), 0u8..8), 1..=4),
        any::<bool>(),
        tab_strategy(),
    )
        .prop_map(|(ty, ng, aggs, extra, t)| AggCase { ty, ng, aggs, extra, t })
}

fn agg_arg(f: usize, sel: u8, ng: usize) -> Arg {
    match f {
        1 => Arg::None,
        // sums only over the small-valued payload columns (no overflow)
        2 => [Arg::Col(V), Arg::Col(U), Arg::VPlus1, Arg::NegV, Arg::UPlusU, Arg::VPlusV, Arg::Col(V), Arg::Col(U)][sel as usize & 7],
        // first/last depend on the input order unless the argument is constant within the group
        6 | 7 if ng > 0 => Arg::Col(sel as usize % ng),
        6 | 7 => Arg::Const7,
        _ => [Arg::Col(0), Arg::Col(1), Arg::Col(2), Arg::Col(V), Arg::Col(U), Arg::VPlus1, Arg::NegV, Arg::UPlusU][sel as usize & 7],
    }
}

fn arg_expr(p: &mut Pb, a: Arg, t: TableRefId) -> Id {
    match a {
        Arg::Col(c) => p.col(t, c),
        Arg::VPlus1 => {
            let (v, o) = (p.col(t, V), p.int(1));
            p.add(Expr::Add([v, o]))
        }
        Arg::NegV => {
            let v = p.col(t, V);
            p.add(Expr::Neg(v))
        }
        Arg::UPlusU => {
            let (a, b) = (p.col(t, U), p.col(t, U));
            p.add(Expr::Add([a, b]))
        }
        Arg::VPlusV => {
            let (a, b) = (p.col(t, V), p.col(t, V));
            p.add(Expr::Add([a, b]))
        }
        Arg::Const7 => p.add(Expr::Constant(DataValue::Int32(7))),
        Arg::None => unreachable!(),
    }
}

fn arg_model(a: Arg, r: &Row) -> Val {
    let i = |v: &Val| if let Val::Int(i) = v { Some(*i) } else { None };
    let f = |x: Option<i64>| x.map(Val::Int).unwrap_or(Val::Null);
    match a {
        Arg::Col(c) => r[c].clone(),
        Arg::VPlus1 => f(i(&r[V]).map(|v| v + 1)),
        Arg::NegV => f(i(&r[V]).map(|v| -v)),
        Arg::UPlusU => f(i(&r[U]).map(|v| v + v)),
        Arg::VPlusV => f(i(&r[V]).map(|v| v + v)),
        Arg::Const7 => Val::Int(7),
        Arg::None => Val::Null,
    }
}

fn agg_node(p: &mut Pb, f: usize, a: Arg, t: TableRefId) -> Id {
    if f == 1 {
        return p.add(Expr::RowCount);
    }
    let x = arg_expr(p, a, t);
    p.add(match f {
        0 => Expr::Count(x),
        2 => Expr::Sum(x),
        3 => Expr::Min(x),
        4 => Expr::Max(x),
        5 => Expr::CountDistinct(x),
        6 => Expr::First(x),
        _ => Expr::Last(x),
    })
}

/// SQL semantics per group (count-distinct counts NULL as a value, as every implementation does;
/// the model is used for attribution only).
fn agg_model(f: usize, vals: &[Val]) -> Val {
    let nn: Vec<&Val> = vals.iter().filter(|v| !v.is_null()).collect();
    match f {
        0 => Val::Int(nn.len() as i64),
        1 => Val::Int(vals.len() as i64),
        2 if nn.is_empty() => Val::Null,
        2 => Val::Int(nn.iter().map(|v| if let Val::Int(i) = v { *i } else { 0 }).sum()),
        3 => nn.iter().min().map(|v| (*v).clone()).unwrap_or(Val::Null),
        4 => nn.iter().max().map(|v| (*v).clone()).unwrap_or(Val::Null),
        5 => Val::Int(vals.iter().collect::<std::collections::BTreeSet<_>>().len() as i64),
        _ => vals.first().cloned().unwrap_or(Val::Null),
    }
}

fn agg_test(ctx: &Ctx, c: &AggCase, st: &mut Stats) -> Verdict {
    let ng = (c.ng as usize).min(3);
    let m = materialise(&c.t, c.ty);
    let mut specs: Vec<(usize, Arg)> = vec![];
    for (f, s) in &c.aggs {
        let f = (*f as usize).min(7);
        let spec = (f, agg_arg(f, *s, ng));
        if !specs.contains(&spec) {
            specs.push(spec);
        }
    }
    let build = |which: &str, tid: TableRefId| -> RecExpr {
        let mut p = Pb::default();
        let mut x = p.input(tid, c.t.flt);
        if which == "sort" && (ng > 0 || c.extra) {
            let mut k: Vec<Id> = (0..ng).map(|j| p.col(tid, j)).collect();
            if c.extra {
                k.push(p.col(tid, V));
            }
            x = p.order(k, x);
        }
        let keys: Vec<Id> = (0..ng).map(|j| p.col(tid, j)).collect();
        let keys = p.list(keys);
        let aggs: Vec<Id> = specs.iter().map(|(f, a)| agg_node(&mut p, *f, *a, tid)).collect();
        let aggs = p.list(aggs);
        p.add(match which {
            "simple" => Expr::Agg([aggs, x]),
            "hash" => Expr::HashAgg([keys, aggs, x]),
            _ => Expr::SortAgg([keys, aggs, x]),
        });
        p.finish()
    };
    let mut which = vec!["hash", "sort"];
    if ng == 0 && !m.live.is_empty() {
        which.push("simple");
    }
    let res = block_on(async {
        let env = Env::new();
        let tid = env.create("l", &m).await?;
        let mut outs = vec![];
        for w in &which {
            let plan = build(w, tid);
            let o = env.run(&plan).await;
            outs.push((*w, plan, o));
        }
        Ok::<_, String>(outs)
    });
    let outs = match res {
        Ok(Ok(o)) => o,
        Ok(Err(e)) => return fail("agg:setup-error", format!("cannot create the input table: {e}")),
        Err(p) => return fail(format!("agg:setup-panic:{}", panic_sig(&p)), format!("panic while loading the input table: {p}")),
    };
    st.evals(outs.len() as u64);

    // groups (harness side)
    let mut groups: BTreeMap<Vec<Val>, Vec<&Row>> = BTreeMap::new();
    for r in &m.live {
        groups.entry(r[..ng].to_vec()).or_default().push(r);
    }
    let null_key = groups.keys().any(|k| k.iter().any(Val::is_null));
    let big_group = groups.values().any(|g| g.len() > 1);
    let multi = m.live_chunks > 1;
    st.class(&format!("agg.ng.{ng}"));
    st.class(&format!("agg.size.{}", size_class(m.live.len())));
    for (f, _) in &specs {
        st.class(&format!("agg.fn.{}", FN[*f]));
    }
    for (b, n) in [
        (null_key, "agg.null-group-key"),
        (big_group, "agg.group>1row"),
        (multi, "agg.multi-chunk"),
        (groups.len() > 1024, "agg.groups>1024"),
        (!groups.is_empty() && groups.len() % 1024 == 0, "agg.groups=k*1024"),
        (c.t.seq, "agg.unique-k0"),
        (m.empty_chunks > 0, "agg.empty-chunks"),
        (m.live.is_empty(), "agg.empty-input"),
        (which.len() == 3, "agg.simple-vs-hash"),
        (specs.iter().any(|(_, a)| m.live.iter().any(|r| arg_model(*a, r).is_null())), "agg.null-arguments"),
    ] {
        if b {
            st.class(n);
        }
    }
    if !m.live.is_empty() && (big_group || null_key || multi) {
        st.nontrivial((
            "agg",
            ng,
            c.ty[..ng].to_vec(),
            specs.iter().map(|(f, _)| *f).collect::<Vec<_>>(),
            size_class(m.live.len()),
            (null_key, big_group, multi, c.t.flt, c.extra),
        ));
    }

    let rows: Vec<Option<Vec<Row>>> = outs
        .iter()
        .map(|(_, _, o)| if let Outc::Rows(r) = o { Some(sorted(r.clone())) } else { None })
        .collect();
    if rows.iter().all(|r| r.is_some() && r == &rows[0]) {
        return Verdict::Pass;
    }

    // attribution: per implementation, the first group/aggregate deviating from the model
    let model: BTreeMap<Vec<Val>, Vec<Val>> = groups
        .iter()
        .map(|(k, g)| {
            let vals = specs.iter().map(|(f, a)| agg_model(*f, &g.iter().map(|r| arg_model(*a, r)).collect::<Vec<_>>())).collect();
            (k.clone(), vals)
        })
        .collect();
    let ctxt = format!(
        "aggregates {:?} grouped by {:?}\n{}\nimplementations: {}",
        specs.iter().map(|(f, a)| format!("{}({a:?})", FN[*f])).collect::<Vec<_>>(),
        &COLN[..ng],
        describe("l", &m, &c.t),
        outs.iter().map(|(n, _, o)| format!("{n}: {}", outc_text(o))).collect::<Vec<_>>().join("; ")
    );
    let mut fails = vec![];
    for (i, (name, plan, o)) in outs.iter().enumerate() {
        let other = rows.iter().enumerate().find(|(j, r)| *j != i && r.is_some() && **r != rows[i]).map(|(j, _)| j);
        let detail = match (&rows[i], other) {
            (Some(a), Some(j)) => format!("{name} vs {}: {}", outs[j].0, diff(a, rows[j].as_ref().unwrap())),
            _ => String::new(),
        };
        let cause = if let Some(cz) = outc_cause(o) {
            cz
        } else {
            let got = rows[i].as_ref().unwrap();
            let mut cause = None;
            let mut seen: BTreeMap<Vec<Val>, usize> = BTreeMap::new();
            for r in got {
                let (k, a) = (r[..ng].to_vec(), &r[ng..]);
                *seen.entry(k.clone()).or_default() += 1;
                match model.get(&k) {
                    None => cause = cause.or(Some("groups:invented".to_string())),
                    Some(mv) => {
                        if let Some(j) = (0..specs.len()).find(|j| a.get(*j) != Some(&mv[*j])) {
                            let (f, arg) = specs[j];
                            let nulls = groups[&k].iter().any(|r| arg_model(arg, r).is_null());
                            cause = cause.or(Some(format!("{}:{}", FN[f], if nulls { "null-args" } else { "no-null-args" })));
                        }
                    }
                }
            }
            // simple aggregation of a non-empty input always has its single group
            let expect_groups = if *name == "simple" { 1 } else { model.len() };
            if seen.values().any(|n| *n > 1) {
                cause = Some("groups:split".into());
            } else if seen.len() < expect_groups {
                cause = cause.or(Some("groups:missing".into()));
            }
            match cause {
                Some(cz) => cz,
                None => continue,
            }
        };
        fails.push((
            format!("agg:{name}:{cause}"),
            format!("the aggregation implementations disagree; `{name}` deviates ({cause}). {detail}\nplan: {plan}\n{ctxt}"),
        ));
    }
    if fails.is_empty() {
        return fail("agg:inconsistent", format!("implementations disagree but attribution found nothing\n{ctxt}"));
    }
    pick(ctx, fails)
}

// ---------------------------------------------------------------------------------------------
// part 3: sort-then-limit vs top-N

#[derive(Clone, Debug, Serialize, Deserialize)]
struct TopCase {
    ty: [Ty; 3],
    /// (column 0..5 = k0 k1 k2 v u, descending)
    keys: Vec<(u8, bool)>,
    /// limit / offset selectors, relative to the number of input rows N
    n: u8,
    o: u8,
    t: TabData,
}

fn top_strategy() -> impl Strategy<Value = TopCase> {
    (
        prop::array::uniform3(ty_strategy()),
        prop::collection::vec((0u8..5, any::<bool>()), 1..=3),
        0u8..12,
        prop::sample::select(vec![0u8, 0, 0, 0, 1, 2, 3, 4, 5, 6, 7]),
        tab_strategy(),
    )
        .prop_map(|(ty, keys, n, o, t)| TopCase { ty, keys, n, o, t })
}

fn top_test(ctx: &Ctx, c: &TopCase, st: &mut Stats) -> Verdict {
    let m = materialise(&c.t, c.ty);
    let nrows = m.live.len();
    let mut keys: Vec<(usize, bool)> = vec![];
    for (k, d) in &c.keys {
        let k = (*k as usize).min(4);
        if !keys.iter().any(|(x, _)| *x == k) {
            keys.push((k, *d));
        }
    }
    let offset = [0, 1, 2, nrows.saturating_sub(1), nrows, nrows + 1, 1024, 3][(c.o as usize).min(7)];
    let mut limit: Option<usize> =
        [Some(0), Some(1), Some(2), Some(5), Some(nrows.saturating_sub(1)), Some(nrows), Some(nrows + 1), Some(1024), Some(1025), Some(2 * nrows + 3), Some(3), None]
            [(c.n as usize).min(11)];
    // ORDER BY .. OFFSET m without LIMIT (offset 0 never reaches top-N: the limit is removed)
    if limit.is_none() && (offset == 0 || ctx.off("gen.topn_no_limit")) {
        if offset != 0 {
            st.excluded("gen.topn_no_limit");
        }
        limit = Some(4);
    }
    let build = |topn: bool, tid: TableRefId| -> RecExpr {
        let mut p = Pb::default();
        let x = p.input(tid, c.t.flt);
        let k: Vec<Id> = keys
            .iter()
            .map(|(k, d)| {
                let e = p.col(tid, *k);
                if *d { p.add(Expr::Desc(e)) } else { e }
            })
            .collect();
        let lim = match limit {
            Some(n) => p.int(n as i32),
            None => p.add(Expr::null()),
        };
        let off = p.int(offset as i32);
        if topn {
            let k = p.list(k);
            p.add(Expr::TopN([lim, off, k, x]));
        } else {
            let o = p.order(k, x);
            p.add(Expr::Limit([lim, off, o]));
        }
        p.finish()
    };
    let res = block_on(async {
        let env = Env::new();
        let tid = env.create("l", &m).await?;
        let mut outs = vec![];
        for (name, topn) in [("order-limit", false), ("topn", true)] {
            let plan = build(topn, tid);
            let o = env.run(&plan).await;
            outs.push((name, plan, o));
        }
        Ok::<_, String>(outs)
    });
    let outs = match res {
        Ok(Ok(o)) => o,
        Ok(Err(e)) => return fail("topn:setup-error", format!("cannot create the input table: {e}")),
        Err(p) => return fail(format!("topn:setup-panic:{}", panic_sig(&p)), format!("panic while loading the input table: {p}")),
    };
    st.evals(2);

    // model: the unique key sequence
    let proj = |r: &Row| -> Vec<Val> { keys.iter().map(|(k, _)| r[*k].clone()).collect() };
    let cmp = |a: &Vec<Val>, b: &Vec<Val>| {
        for (i, (_, d)) in keys.iter().enumerate() {
            let o = a[i].cmp(&b[i]);
            if o != std::cmp::Ordering::Equal {
                return if *d { o.reverse() } else { o };
            }
        }
        std::cmp::Ordering::Equal
    };
    let mut mk: Vec<Vec<Val>> = m.live.iter().map(proj).collect();
    mk.sort_by(cmp);
    let ties = mk.windows(2).any(|w| w[0] == w[1]);
    let mk: Vec<Vec<Val>> = mk.into_iter().skip(offset).take(limit.unwrap_or(usize::MAX)).collect();

    st.class(&format!("topn.size.{}", size_class(nrows)));
    st.class(&format!("topn.nkeys.{}", keys.len()));
    for (b, n) in [
        (limit == Some(0), "topn.limit-0"),
        (limit.is_none(), "topn.no-limit"),
        (offset > 0, "topn.offset>0"),
        (offset >= nrows && nrows > 0, "topn.offset-beyond-end"),
        (limit.is_some_and(|l| offset + l > nrows), "topn.window-beyond-end"),
        (ties, "topn.ties"),
        (keys.iter().any(|(_, d)| *d), "topn.desc"),
        (m.live.iter().any(|r| proj(r).iter().any(Val::is_null)), "topn.null-keys"),
        (m.live_chunks > 1, "topn.multi-chunk"),
        (mk.len() > 1024, "topn.output>1024"),
        (m.empty_chunks > 0, "topn.empty-chunks"),
    ] {
        if b {
            st.class(n);
        }
    }
    if nrows > 0 && limit != Some(0) {
        st.nontrivial((
            "topn",
            keys.iter().map(|(k, d)| (m.tys[*k], *d)).collect::<Vec<_>>(),
            size_class(nrows),
            size_class(offset),
            limit.map(size_class),
            (ties, m.live_chunks > 1, c.t.flt),
        ));
    }

    // differential verdict: same key sequence, and the same rows apart from ties at the cut
    let got: Vec<Option<&Vec<Row>>> = outs.iter().map(|(_, _, o)| if let Outc::Rows(r) = o { Some(r) } else { None }).collect();
    let ctxt = || {
        format!(
            "order by {:?} limit {limit:?} offset {offset}\n{}\nplans: {} / {}\nimplementations: {}",
            keys.iter().map(|(k, d)| format!("{}{}", COLN[*k], if *d { " desc" } else { "" })).collect::<Vec<_>>(),
            describe("l", &m, &c.t),
            outs[0].1,
            outs[1].1,
            outs.iter().map(|(n, _, o)| format!("{n}: {}", outc_text(o))).collect::<Vec<_>>().join("; ")
        )
    };
    let no_limit = if limit.is_none() { ":no-limit" } else { "" };
    if let (Some(a), Some(b)) = (got[0], got[1]) {
        let (ka, kb): (Vec<_>, Vec<_>) = (a.iter().map(proj).collect(), b.iter().map(proj).collect());
        if ka != kb {
            let blame = match (ka == mk, kb == mk) {
                (true, false) => "topn",
                (false, true) => "order-limit",
                _ => "both",
            };
            return fail(
                format!("topn:{blame}:keys{no_limit}"),
                format!(
                    "key sequences differ: order+limit gives {} keys {}, topn gives {} keys {}, sorted input gives {}\n{}",
                    ka.len(),
                    fmt_rows(&ka[..ka.len().min(12)]),
                    kb.len(),
                    fmt_rows(&kb[..kb.len().min(12)]),
                    fmt_rows(&mk[..mk.len().min(12)]),
                    ctxt()
                ),
            );
        }
        // rows whose key is not the key at either cut cannot be affected by tie-breaking
        if let (Some(first), Some(last)) = (ka.first(), ka.last()) {
            let inner = |rows: &Vec<Row>| sorted(rows.iter().filter(|r| &proj(r) != first && &proj(r) != last).cloned().collect());
            let (ia, ib) = (inner(a), inner(b));
            if ia != ib {
                return fail(format!("topn:rows{no_limit}"), format!("same keys but different rows away from the cut: {}\n{}", diff(&ia, &ib), ctxt()));
            }
        }
        return Verdict::Pass;
    }
    let fails = outs
        .iter()
        .filter_map(|(name, _, o)| outc_cause(o).map(|cz| (format!("topn:{name}:{cz}{no_limit}"), format!("`{name}` did not produce rows ({cz})\n{}", ctxt()))))
        .collect();
    pick(ctx, fails)
}
