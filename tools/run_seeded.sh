#!/bin/bash
# tools/run_seeded.sh <seeded/dir> [check ids...]: apply the seeded change to /repo, run the quick tier of
# the named checks (default: the property in meta.json), record the verdicts in <dir>/result.json, undo the change.
set -u
D=$(cd "$1" && pwd); shift
cd /verif
P=$(python3 -c "import json;print(json.load(open('$D/meta.json'))['property'])")
CHECKS=${@:-$P}
if [ -n "$(git -C /repo status --porcelain)" ]; then echo "/repo not clean"; exit 2; fi
git -C /repo apply "$D/patch.diff" || { echo "patch does not apply"; exit 2; }
T=$(mktemp -d)
cp -r evidence $T/evidence.saved   # runs against a seeded change must not replace the committed evidence
for c in $CHECKS; do
  ./check $c quick > $T/$c.out 2>&1; echo $? > $T/$c.rc
  echo "$c: exit=$(cat $T/$c.rc) $(grep -m1 '^VIOLATION' $T/$c.out)"
done
git -C /repo checkout -- . ; git -C /repo clean -fdq tests/ 2>/dev/null
rm -rf evidence; cp -r $T/evidence.saved evidence
python3 - "$D" "$T" $CHECKS <<'PY'
import json,sys,os
D,T=sys.argv[1],sys.argv[2]; checks=sys.argv[3:]
old={}
try: old=json.load(open(D+'/result.json'))
except Exception: pass
r=old.get('checks_run_quick_tier',{})
for c in checks:
    out=open(f'{T}/{c}.out').read().splitlines()
    v=next((l for l in out if l.startswith('violation')),'')[:400]
    r[c]={'exit':int(open(f'{T}/{c}.rc').read()),'first_violation':v}
res={'checks_run_quick_tier':r,'caught_by':[k for k,v in r.items() if v['exit']==1]}
if 'note' in old: res['note']=old['note']
json.dump(res,open(D+'/result.json','w'),indent=1)
PY
rm -rf $T
