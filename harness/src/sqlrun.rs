//! Running SQL against risinglight: runtimes with a paused clock, panic capture, canonical
//! values, database handles for both engines.

use std::future::Future;
use std::panic::AssertUnwindSafe;
use std::path::{Path, PathBuf};
use std::sync::Mutex;

use futures::FutureExt;
use risinglight::Database;
use risinglight::array::{ArrayImpl, Chunk};
use risinglight::storage::SecondaryStorageOptions;
use risinglight::types::DataValue;
use serde::{Deserialize, Serialize};

static PANICS: Mutex<Vec<String>> = Mutex::new(Vec::new());

pub fn install_panic_hook() {
    let verbose = std::env::var("RLV_VERBOSE").is_ok();
    std::panic::set_hook(Box::new(move |info| {
        let msg = if let Some(s) = info.payload().downcast_ref::<&str>() {
            s.to_string()
        } else if let Some(s) = info.payload().downcast_ref::<String>() {
            s.clone()
        } else {
            "<non-string panic>".to_string()
        };
        let loc = info
            .location()
            .map(|l| format!("{}:{}", l.file(), l.line()))
            .unwrap_or_default();
        if verbose {
            eprintln!("[panic] {msg} @ {loc}");
        }
        if let Ok(mut p) = PANICS.lock() {
            if p.len() < 64 {
                p.push(format!("{msg} @ {loc}"));
            }
        }
    }));
}

/// Panics recorded since the last call (including those inside spawned operator tasks).
pub fn take_panics() -> Vec<String> {
    std::mem::take(&mut *PANICS.lock().unwrap())
}

/// Strip volatile parts (ids, numbers) of a panic message to make a signature.
pub fn panic_sig(p: &str) -> String {
    // keep location, drop the message's variable parts
    let (msg, loc) = p.rsplit_once(" @ ").unwrap_or((p, ""));
    let loc = loc.rsplit_once("/src/").map(|x| x.1).unwrap_or(loc);
    let short: String = msg
        .chars()
        .take(40)
        .map(|c| if c.is_ascii_digit() { '#' } else { c })
        .collect();
    format!("{loc}|{short}")
}

/// Run a future on a fresh current-thread runtime with a paused clock.
/// Returns Err(panic message) if the future (not a spawned task) panicked.
pub fn block_on<F: Future>(f: F) -> Result<F::Output, String> {
    let rt = tokio::runtime::Builder::new_current_thread()
        .enable_all()
        .start_paused(true)
        .build()
        .unwrap();
    let r = std::panic::catch_unwind(AssertUnwindSafe(|| rt.block_on(f)));
    // make sure blocking file I/O of dropped tasks is finished before the next case
    rt.shutdown_timeout(std::time::Duration::from_secs(5));
    r.map_err(|_| {
        PANICS
            .lock()
            .unwrap()
            .last()
            .cloned()
            .unwrap_or_else(|| "panic".into())
    })
}

/// Run on a real multi-thread runtime (C10 mode ii).
pub fn block_on_mt<F: Future>(threads: usize, f: F) -> Result<F::Output, String> {
    let rt = tokio::runtime::Builder::new_multi_thread()
        .worker_threads(threads)
        .enable_all()
        .build()
        .unwrap();
    let r = std::panic::catch_unwind(AssertUnwindSafe(|| rt.block_on(f)));
    rt.shutdown_timeout(std::time::Duration::from_secs(5));
    r.map_err(|_| "panic".to_string())
}

// ---------------------------------------------------------------------------------------------

/// Canonical value for comparisons and replay files.
#[derive(Clone, Debug, PartialEq, Eq, PartialOrd, Ord, Hash, Serialize, Deserialize)]
pub enum Val {
    Null,
    Bool(bool),
    Int(i64),
    /// f64 by bits (NaN canonicalised), ordered numerically via `cmp_val`
    F64(u64),
    Str(String),
    /// any other type: "<type>:<display>"
    Other(String),
}

impl Val {
    pub fn from_dv(v: &DataValue) -> Val {
        match v {
            DataValue::Null => Val::Null,
            DataValue::Bool(b) => Val::Bool(*b),
            DataValue::Int16(i) => Val::Int(*i as i64),
            DataValue::Int32(i) => Val::Int(*i as i64),
            DataValue::Int64(i) => Val::Int(*i),
            DataValue::Float64(f) => {
                let x = f.0;
                Val::F64(if x.is_nan() { f64::NAN.to_bits() } else { x.to_bits() })
            }
            DataValue::String(s) => Val::Str(s.to_string()),
            DataValue::Decimal(d) => Val::Other(format!("dec:{}", d.normalize())),
            DataValue::Blob(b) => Val::Other(format!("blob:{b}")),
            DataValue::Date(d) => Val::Other(format!("date:{d}")),
            DataValue::Timestamp(d) => Val::Other(format!("ts:{d}")),
            DataValue::TimestampTz(d) => Val::Other(format!("tstz:{d}")),
            DataValue::Interval(d) => Val::Other(format!("interval:{d}")),
            DataValue::Vector(d) => Val::Other(format!("vec:{d}")),
        }
    }
    pub fn is_null(&self) -> bool {
        matches!(self, Val::Null)
    }
    pub fn f(x: f64) -> Val {
        Val::F64(if x.is_nan() { f64::NAN.to_bits() } else { x.to_bits() })
    }
}

impl std::fmt::Display for Val {
    fn fmt(&self, f: &mut std::fmt::Formatter<'_>) -> std::fmt::Result {
        match self {
            Val::Null => write!(f, "NULL"),
            Val::Bool(b) => write!(f, "{b}"),
            Val::Int(i) => write!(f, "{i}"),
            Val::F64(b) => write!(f, "{:?}", f64::from_bits(*b)),
            Val::Str(s) => write!(f, "'{s}'"),
            Val::Other(s) => write!(f, "{s}"),
        }
    }
}

pub type Row = Vec<Val>;

pub fn rows_of_chunk(c: &Chunk) -> Vec<Row> {
    let mut rows = vec![];
    for dc in c.data_chunks() {
        for r in dc.rows() {
            rows.push(r.values().map(|v| Val::from_dv(&v)).collect());
        }
    }
    rows
}

pub fn rows_of(chunks: &[Chunk]) -> Vec<Row> {
    chunks.last().map(rows_of_chunk).unwrap_or_default()
}

pub fn sorted(mut rows: Vec<Row>) -> Vec<Row> {
    rows.sort();
    rows
}

pub fn fmt_rows(rows: &[Row]) -> String {
    let mut s = String::from("[");
    for (i, r) in rows.iter().enumerate() {
        if i > 0 {
            s.push_str(", ");
        }
        if i >= 40 {
            s.push_str(&format!("… {} rows in total", rows.len()));
            break;
        }
        s.push('(');
        for (j, v) in r.iter().enumerate() {
            if j > 0 {
                s.push(',');
            }
            s.push_str(&v.to_string());
        }
        s.push(')');
    }
    s.push(']');
    s
}

/// The arrays of the last statement's result, column by column per data chunk.
pub fn arrays_of(chunks: &[Chunk]) -> Vec<Vec<ArrayImpl>> {
    chunks
        .last()
        .map(|c| c.data_chunks().iter().map(|d| d.arrays().to_vec()).collect())
        .unwrap_or_default()
}

#[derive(Clone, Debug, PartialEq, Eq, Serialize, Deserialize)]
pub enum Out {
    Rows(Vec<Row>),
    /// parse or bind error: the statement is not accepted
    Rejected(String),
    /// execution / storage / internal error
    Failed(String),
    Panicked(String),
}

impl Out {
    pub fn class(&self) -> &'static str {
        match self {
            Out::Rows(_) => "ok",
            Out::Rejected(_) => "rejected",
            Out::Failed(_) => "failed",
            Out::Panicked(_) => "panicked",
        }
    }
    pub fn rows(&self) -> Option<&Vec<Row>> {
        match self {
            Out::Rows(r) => Some(r),
            _ => None,
        }
    }
    pub fn is_ok(&self) -> bool {
        matches!(self, Out::Rows(_))
    }
    pub fn brief(&self) -> String {
        match self {
            Out::Rows(r) => format!("Ok{}", fmt_rows(r)),
            Out::Rejected(e) => format!("Rejected({})", e.lines().next().unwrap_or("")),
            Out::Failed(e) => format!("Failed({})", e.lines().next().unwrap_or("")),
            Out::Panicked(e) => format!("Panicked({e})"),
        }
    }
}

pub async fn run_raw(db: &Database, sql: &str) -> Result<Result<Vec<Chunk>, risinglight::Error>, String> {
    match AssertUnwindSafe(db.run(sql)).catch_unwind().await {
        Ok(r) => Ok(r),
        Err(_) => Err(PANICS
            .lock()
            .unwrap()
            .last()
            .cloned()
            .unwrap_or_else(|| "panic".into())),
    }
}

pub async fn exec(db: &Database, sql: &str) -> Out {
    match run_raw(db, sql).await {
        Ok(Ok(chunks)) => Out::Rows(rows_of(&chunks)),
        Ok(Err(e)) => match e {
            risinglight::Error::Parse(_) | risinglight::Error::Bind(_) => Out::Rejected(e.to_string()),
            _ => Out::Failed(e.to_string()),
        },
        Err(p) => Out::Panicked(p),
    }
}

// ---------------------------------------------------------------------------------------------

#[derive(Clone, Debug, PartialEq, Eq, Hash, Serialize, Deserialize)]
pub struct DiskCfg {
    pub block: usize,
    pub rowset: usize,
    pub checksum: bool,
    pub first_key: bool,
    pub cache: usize,
    /// in-memory I/O backend + mock manifest (the configuration of the existing suite);
    /// cannot be reopened.
    pub inmem: bool,
}

impl DiskCfg {
    pub fn options(&self, path: &Path) -> SecondaryStorageOptions {
        let cli = SecondaryStorageOptions::default_for_cli();
        let test = SecondaryStorageOptions::default_for_test();
        let mut o = if self.inmem { test.clone() } else { cli.clone() };
        o.path = path.to_path_buf();
        o.cache_size = self.cache;
        o.target_rowset_size = self.rowset;
        o.target_block_size = self.block;
        o.checksum_type = if self.checksum { cli.checksum_type } else { test.checksum_type };
        o.record_first_key = self.first_key;
        o
    }
    pub fn small() -> DiskCfg {
        DiskCfg {
            block: 128,
            rowset: 4096,
            checksum: true,
            first_key: true,
            cache: 1024,
            inmem: false,
        }
    }
}

pub fn disk_cfg_strategy(allow_inmem: bool) -> impl proptest::strategy::Strategy<Value = DiskCfg> {
    use proptest::prelude::*;
    (
        prop::sample::select(vec![64usize, 96, 128, 256, 1024, 16384]),
        prop::sample::select(vec![256usize, 4096, 1 << 20]),
        any::<bool>(),
        prop::sample::select(vec![1usize, 1024]),
        0u8..4,
    )
        .prop_map(move |(block, rowset, checksum, cache, im)| DiskCfg {
            block,
            rowset,
            checksum,
            first_key: true,
            cache,
            inmem: allow_inmem && im == 0,
        })
}

/// Open the on-disk engine and let the open-time compaction pass finish.
pub async fn open_disk(cfg: &DiskCfg, path: &Path) -> Result<Database, String> {
    let opts = cfg.options(path);
    let r = AssertUnwindSafe(Database::new_on_disk(opts)).catch_unwind().await;
    match r {
        Ok(db) => {
            settle().await;
            Ok(db)
        }
        Err(_) => Err(PANICS
            .lock()
            .unwrap()
            .last()
            .cloned()
            .unwrap_or_else(|| "panic".into())),
    }
}

/// Let background tasks run until they are idle (virtual time advances by 1 ms, which is
/// not enough to start another compactor pass).
pub async fn settle() {
    tokio::time::sleep(std::time::Duration::from_millis(1)).await;
}

/// Advance the paused clock so that exactly one compactor pass (+ the vacuum it triggers) runs.
pub async fn tick() {
    tokio::time::sleep(std::time::Duration::from_millis(1100)).await;
}

pub async fn shutdown(db: &Database) -> Result<(), String> {
    match AssertUnwindSafe(db.shutdown()).catch_unwind().await {
        Ok(Ok(())) => Ok(()),
        Ok(Err(e)) => Err(e.to_string()),
        Err(_) => Err("panic in shutdown".into()),
    }
}

pub fn dir_listing(path: &Path) -> Vec<PathBuf> {
    let mut v = vec![];
    fn walk(p: &Path, v: &mut Vec<PathBuf>) {
        if let Ok(rd) = std::fs::read_dir(p) {
            for e in rd.flatten() {
                let p = e.path();
                if p.is_dir() {
                    walk(&p, v);
                }
                v.push(p);
            }
        }
    }
    walk(path, &mut v);
    v.sort();
    v
}

// ---------------------------------------------------------------------------------------------
// A minimal re-implementation of `Database::run` over a storage handle we own, so that plans
// (not only SQL) can be executed: used by the plan-level checks.

use std::sync::Arc;

use futures::TryStreamExt;
use risinglight::catalog::RootCatalogRef;
use risinglight::planner::{Config as PlanConfig, Optimizer, RecExpr, Statistics};
use risinglight::storage::InMemoryStorage;

pub struct MiniDb {
    pub storage: Arc<InMemoryStorage>,
    pub catalog: RootCatalogRef,
}

impl MiniDb {
    pub fn new() -> MiniDb {
        let storage = Arc::new(InMemoryStorage::new());
        let catalog = storage.catalog().clone();
        MiniDb { storage, catalog }
    }
    pub fn optimizer(&self, stat: Statistics) -> Optimizer {
        Optimizer::new(self.catalog.clone(), stat, PlanConfig::default())
    }
    /// Parse + bind one statement. Err(true, msg) = rejected, Err(false, msg) = panicked.
    pub fn bind(&self, sql: &str) -> Result<RecExpr, (bool, String)> {
        let stmts = risinglight::parser::parse(sql).map_err(|e| (true, e.to_string()))?;
        let Some(stmt) = stmts.into_iter().next() else {
            return Err((true, "empty".into()));
        };
        let catalog = self.catalog.clone();
        match std::panic::catch_unwind(AssertUnwindSafe(move || {
            let mut binder = risinglight::binder::Binder::new(catalog);
            binder.bind(stmt)
        })) {
            Ok(Ok(p)) => Ok(p),
            Ok(Err(e)) => Err((true, e.to_string())),
            Err(_) => Err((false, PANICS.lock().unwrap().last().cloned().unwrap_or_default())),
        }
    }
    /// Execute a plan as it is.
    pub async fn run_plan(&self, plan: &RecExpr) -> Out {
        let opt = self.optimizer(Statistics::default());
        let storage = self.storage.clone();
        let fut = async move {
            let exec = risinglight::executor::build(opt, storage, plan);
            exec.try_collect::<Vec<_>>().await
        };
        match AssertUnwindSafe(fut).catch_unwind().await {
            Ok(Ok(chunks)) => {
                let mut rows = vec![];
                for c in &chunks {
                    for r in c.rows() {
                        rows.push(r.values().map(|v| Val::from_dv(&v)).collect());
                    }
                }
                Out::Rows(rows)
            }
            Ok(Err(e)) => Out::Failed(e.to_string()),
            Err(_) => Out::Panicked(PANICS.lock().unwrap().last().cloned().unwrap_or_default()),
        }
    }
    pub async fn run_sql(&self, sql: &str, optimize: bool) -> Out {
        let plan = match self.bind(sql) {
            Ok(p) => p,
            Err((true, e)) => return Out::Rejected(e),
            Err((false, e)) => return Out::Panicked(e),
        };
        let plan = if optimize {
            let opt = self.optimizer(Statistics::default());
            match std::panic::catch_unwind(AssertUnwindSafe(|| opt.optimize(plan))) {
                Ok(p) => p,
                Err(_) => return Out::Panicked(PANICS.lock().unwrap().last().cloned().unwrap_or_default()),
            }
        } else {
            plan
        };
        self.run_plan(&plan).await
    }
}
