//! Tape-driven generator of schemas, data and well-typed, well-scoped SQL queries, with two
//! printers (RisingLight dialect and SQLite dialect).

use serde::{Deserialize, Serialize};

use super::tape::Tape;
use crate::sqlrun::Val;

#[derive(Clone, Copy, Debug, PartialEq, Eq, Hash, Serialize, Deserialize)]
pub enum Ty {
    Int,
    Bool,
    Str,
}

#[derive(Clone, Debug, PartialEq, Eq, Hash, Serialize, Deserialize)]
pub struct ColDef {
    pub name: String,
    pub ty: Ty,
    pub nullable: bool,
    pub pk: bool,
}

#[derive(Clone, Debug, PartialEq, Eq, Hash, Serialize, Deserialize)]
pub struct TableDef {
    pub name: String,
    pub cols: Vec<ColDef>,
    /// when not empty: the key is declared by the table constraint `primary key(..)` over these
    /// columns (in this order) instead of inline on the column
    #[serde(default)]
    pub table_pk: Vec<usize>,
}

impl TableDef {
    pub fn create_sql(&self) -> String {
        let cols: Vec<String> = self
            .cols
            .iter()
            .map(|c| {
                let t = match c.ty {
                    Ty::Int => "int",
                    Ty::Bool => "boolean",
                    Ty::Str => "varchar",
                };
                let mut s = format!("{} {}", c.name, t);
                if c.pk && self.table_pk.is_empty() {
                    s.push_str(" primary key");
                } else if !c.nullable && !c.pk {
                    s.push_str(" not null");
                }
                s
            })
            .collect();
        let mut cols = cols;
        if !self.table_pk.is_empty() {
            let names: Vec<&str> = self.table_pk.iter().map(|i| self.cols[*i].name.as_str()).collect();
            cols.push(format!("primary key({})", names.join(", ")));
        }
        format!("create table {}({})", self.name, cols.join(", "))
    }
    /// SQLite: no primary key / not null constraints (the data respects them by construction).
    pub fn create_sqlite(&self) -> String {
        let cols: Vec<String> = self
            .cols
            .iter()
            .map(|c| {
                let t = match c.ty {
                    Ty::Int => "integer",
                    Ty::Bool => "boolean",
                    Ty::Str => "text",
                };
                format!("{} {}", c.name, t)
            })
            .collect();
        format!("create table {}({})", self.name, cols.join(", "))
    }
}

pub fn lit(v: &Val) -> String {
    match v {
        Val::Null => "null".into(),
        Val::Bool(b) => b.to_string(),
        Val::Int(i) => i.to_string(),
        Val::Str(s) => format!("'{}'", s.replace('\'', "''")),
        Val::F64(b) => format!("{:?}", f64::from_bits(*b)),
        Val::Other(s) => s.clone(),
    }
}

pub fn insert_sql(table: &str, rows: &[Vec<Val>]) -> String {
    let rs: Vec<String> = rows
        .iter()
        .map(|r| format!("({})", r.iter().map(lit).collect::<Vec<_>>().join(", ")))
        .collect();
    format!("insert into {} values {}", table, rs.join(", "))
}

// ---------------------------------------------------------------------------------------------
// generation config

#[derive(Clone, Debug)]
pub struct GenCfg {
    pub max_tables: usize,
    pub max_cols: usize,
    pub max_rows: usize,
    pub max_batches: usize,
    pub pk: bool,
    pub joins: bool,
    pub outer_joins: bool,
    pub semi_anti: bool,
    pub nonequi_outer: bool,
    pub subqueries: bool,
    pub subq_in_select: bool,
    pub not_in_subq: bool,
    pub correlated: bool,
    pub derived: bool,
    pub aggregates: bool,
    pub count_distinct: bool,
    pub distinct: bool,
    pub order_limit: bool,
    pub arithmetic: bool,
    pub div_mod: bool,
    pub case_expr: bool,
    pub bare_bool: bool,
    pub null_literal: bool,
    pub like: bool,
    pub concat: bool,
    /// restrict to the dialect shared with SQLite
    pub sqlite: bool,
    /// select items / group keys that reference no column at all
    pub const_items: bool,
    /// aggregate arguments that reference no column
    pub const_agg_arg: bool,
    /// DISTINCT over non-column select items, or combined with ORDER BY / LIMIT / OFFSET
    pub distinct_complex: bool,
    /// a divisor without column references (constant-folds, possibly to a division by zero)
    pub const_divisor: bool,
    /// derived-table select items that are scalar expressions (not plain columns/aggregates)
    pub derived_expr_items: bool,
    /// CASE with a string result (not implemented by the executor)
    pub case_string: bool,
    /// CASE whose condition references no column (folds away)
    pub const_case_cond: bool,
    /// `x + 0`, `0 + x`, `x - 0`, `x * 1`, `1 * x`, `x or x`, `x and x`, `x and true`, `x or false`:
    /// expressions that simplify to their operand
    pub arith_identity: bool,
    /// join conditions with a conjunct that references no column (folds to a constant)
    pub const_join_cond: bool,
    /// HAVING over an aggregate that is not literally one of the select-list aggregates
    pub having_other_agg: bool,
    /// syntactic instances of the NULL-unsound rewrite rules: `a op a`, `a - a`, `a * 0`
    pub null_unsound_patterns: bool,
    /// correlated scalar (aggregate) subqueries
    pub correlated_scalar: bool,
    /// count(*) inside a derived table or scalar subquery (conflated with another count(*))
    pub count_star_in_subquery: bool,
    /// scalar (aggregate) subqueries anywhere
    pub scalar_subquery: bool,
    /// NOT IN over a correlated subquery (the optimizer does not terminate for some statistics)
    pub correlated_not_in: bool,
    /// ORDER BY keys that are not in the select list
    pub order_non_selected: bool,
    /// ORDER BY inside a derived table (no LIMIT): the plan keeps the sort, operators above may
    /// rely on it (sort aggregation, merge join)
    pub derived_order: bool,
    /// ORDER BY above a GROUP BY on the sort column of an ordered derived table (open finding
    /// F-C05-order-dropped-over-hashagg-large-cost)
    pub order_over_derived_sortagg: bool,
    /// keys declared by the table constraint `primary key(a[, b])`
    pub table_level_pk: bool,
    /// deliberately ill-formed: a column outside any aggregate that is not a GROUP BY key. The
    /// binder must reject such a statement; only C17 (is every *accepted* statement executable?)
    /// generates them
    pub ungrouped_items: bool,
    pub max_depth: usize,
}

impl GenCfg {
    pub fn full() -> GenCfg {
        GenCfg {
            max_tables: 3,
            max_cols: 4,
            max_rows: 12,
            max_batches: 4,
            pk: true,
            joins: true,
            outer_joins: true,
            semi_anti: true,
            nonequi_outer: true,
            subqueries: true,
            subq_in_select: true,
            not_in_subq: true,
            correlated: true,
            derived: true,
            aggregates: true,
            count_distinct: true,
            distinct: true,
            order_limit: true,
            arithmetic: true,
            div_mod: true,
            case_expr: true,
            bare_bool: true,
            null_literal: true,
            like: false,
            concat: true,
            sqlite: false,
            const_items: true,
            const_agg_arg: true,
            distinct_complex: true,
            const_divisor: true,
            derived_expr_items: true,
            case_string: true,
            const_case_cond: true,
            arith_identity: true,
            const_join_cond: true,
            having_other_agg: true,
            null_unsound_patterns: true,
            correlated_scalar: true,
            count_star_in_subquery: true,
            scalar_subquery: true,
            correlated_not_in: true,
            order_non_selected: true,
            derived_order: true,
            order_over_derived_sortagg: true,
            table_level_pk: true,
            ungrouped_items: false,
            max_depth: 3,
        }
    }
}

// ---------------------------------------------------------------------------------------------
// schema + data

pub const INT_DOM: [i64; 5] = [0, 1, 2, 3, -1];
pub const STR_DOM: [&str; 5] = ["a", "b", "ab", "", "A"];

pub fn gen_schema(t: &mut Tape, cfg: &GenCfg) -> Vec<TableDef> {
    let nt = t.range(1, cfg.max_tables);
    (0..nt)
        .map(|ti| {
            let nc = t.range(1, cfg.max_cols);
            let pk_at = if cfg.pk && t.chance(2, 5) { Some(t.pick(nc)) } else { None };
            let cols = (0..nc)
                .map(|ci| {
                    let pk = pk_at == Some(ci);
                    let ty = if pk { Ty::Int } else { [Ty::Int, Ty::Int, Ty::Str, Ty::Bool][t.pick(4)] };
                    let nullable = !pk && !t.chance(1, 4);
                    ColDef {
                        name: format!("c{ci}"),
                        ty,
                        nullable,
                        pk,
                    }
                })
                .collect();
            let mut cols: Vec<ColDef> = cols;
            // one key in three is declared by a table constraint, two thirds of those over two columns
            let mut table_pk = vec![];
            if let Some(p) = pk_at {
                if cfg.table_level_pk && t.chance(1, 3) {
                    table_pk.push(p);
                    let others: Vec<usize> = (0..nc).filter(|i| *i != p && cols[*i].ty == Ty::Int).collect();
                    if !others.is_empty() && t.chance(2, 3) {
                        let j = others[t.pick(others.len())];
                        cols[j].pk = true;
                        cols[j].nullable = false;
                        if t.chance(1, 3) {
                            table_pk.insert(0, j);
                        } else {
                            table_pk.push(j);
                        }
                    }
                }
            }
            TableDef {
                name: format!("t{ti}"),
                cols,
                table_pk,
            }
        })
        .collect()
}

pub fn gen_val(t: &mut Tape, ty: Ty, nullable: bool) -> Val {
    if nullable && t.chance(1, 5) {
        return Val::Null;
    }
    match ty {
        Ty::Int => Val::Int(INT_DOM[t.pick(INT_DOM.len())]),
        Ty::Bool => Val::Bool(t.pick(2) == 1),
        Ty::Str => Val::Str(STR_DOM[t.pick(STR_DOM.len())].to_string()),
    }
}

/// Insert batches per table. Primary keys are unique over the whole table, except in one keyed
/// table of four.
pub fn gen_data(t: &mut Tape, cfg: &GenCfg, schema: &[TableDef]) -> Vec<Vec<Vec<Vec<Val>>>> {
    schema
        .iter()
        .map(|td| {
            let nb = t.range(0, cfg.max_batches);
            // one keyed table in four holds repeated key values (uniqueness is not enforced)
            let dup_keys = td.cols.iter().any(|c| c.pk) && t.chance(1, 4);
            let mut next_pk: Vec<i64> = vec![];
            let mut batches = vec![];
            let mut total = 0;
            for _ in 0..nb {
                let nr = t.range(1, (cfg.max_rows / 2).max(1));
                let mut rows = vec![];
                for _ in 0..nr {
                    if total >= cfg.max_rows {
                        break;
                    }
                    total += 1;
                    let row: Vec<Val> = td
                        .cols
                        .iter()
                        .map(|c| {
                            if c.pk {
                                // unique keys in non-monotone order
                                let mut k = t.pick(40) as i64 - 5;
                                while next_pk.contains(&k) && !(dup_keys && t.chance(1, 3)) {
                                    k += 1;
                                }
                                next_pk.push(k);
                                Val::Int(k)
                            } else {
                                gen_val(t, c.ty, c.nullable)
                            }
                        })
                        .collect();
                    rows.push(row);
                }
                if !rows.is_empty() {
                    batches.push(rows);
                }
            }
            batches
        })
        .collect()
}

// ---------------------------------------------------------------------------------------------
// AST

#[derive(Clone, Debug, PartialEq, Eq, Hash, Serialize, Deserialize)]
pub enum E {
    Col(String, String, Ty),
    Lit(Val, Ty),
    /// typed NULL
    Null(Ty),
    /// a numeric literal written as given (`2.5`): only as a bound in comparisons with INT operands
    Num(String),
    Bin(String, Box<E>, Box<E>),
    Not(Box<E>),
    Neg(Box<E>),
    IsNull(Box<E>, bool),
    Case(Box<E>, Box<E>, Option<Box<E>>),
    InList(Box<E>, Vec<E>, bool),
    Between(Box<E>, Box<E>, Box<E>),
    InSub(Box<E>, Box<Query>, bool),
    Exists(Box<Query>, bool),
    Scalar(Box<Query>),
    /// aggregate: name, argument (None = count(*)), distinct
    Agg(String, Option<Box<E>>, bool),
}

#[derive(Clone, Copy, Debug, PartialEq, Eq, Hash, Serialize, Deserialize)]
pub enum JoinKind {
    Inner,
    Left,
    Right,
    Full,
    Cross,
    Semi,
    Anti,
}

#[derive(Clone, Debug, PartialEq, Eq, Hash, Serialize, Deserialize)]
pub enum Source {
    Table(String),
    Derived(Box<Query>),
}

#[derive(Clone, Debug, PartialEq, Eq, Hash, Serialize, Deserialize)]
pub struct FromItem {
    pub source: Source,
    pub alias: String,
    pub join: Option<(JoinKind, Option<E>)>,
}

#[derive(Clone, Debug, PartialEq, Eq, Hash, Serialize, Deserialize)]
pub struct Query {
    pub distinct: bool,
    pub select: Vec<(E, Ty)>,
    pub from: Vec<FromItem>,
    pub where_: Option<E>,
    pub group_by: Vec<E>,
    pub having: Option<E>,
    /// (index into select, desc)
    pub order_by: Vec<(usize, bool)>,
    /// further ORDER BY keys that are not in the select list (after the selected ones)
    #[serde(default)]
    pub order_extra: Vec<(E, Ty, bool)>,
    pub limit: Option<u64>,
    pub offset: Option<u64>,
}

#[derive(Clone, Copy, PartialEq, Eq)]
pub enum Dialect {
    Rl,
    Lite,
}

impl E {
    pub fn print(&self, d: Dialect) -> String {
        match self {
            E::Col(a, c, _) => format!("{a}.{c}"),
            E::Lit(v, _) => match v {
                Val::Int(i) if *i < 0 => format!("({i})"),
                v => lit(v),
            },
            E::Num(n) => n.clone(),
            E::Null(ty) => match (d, ty) {
                (Dialect::Rl, Ty::Int) => "cast(null as int)".into(),
                (Dialect::Rl, Ty::Bool) => "cast(null as boolean)".into(),
                (Dialect::Rl, Ty::Str) => "cast(null as varchar)".into(),
                (Dialect::Lite, _) => "null".into(),
            },
            E::Bin(op, a, b) => format!("({} {} {})", a.print(d), op, b.print(d)),
            E::Not(a) => format!("(not {})", a.print(d)),
            E::Neg(a) => format!("(-{})", a.print(d)),
            E::IsNull(a, neg) => format!("({} is {}null)", a.print(d), if *neg { "not " } else { "" }),
            E::Case(c, t, e) => match e {
                Some(e) => format!("(case when {} then {} else {} end)", c.print(d), t.print(d), e.print(d)),
                None => format!("(case when {} then {} end)", c.print(d), t.print(d)),
            },
            E::InList(a, l, neg) => format!(
                "({} {}in ({}))",
                a.print(d),
                if *neg { "not " } else { "" },
                l.iter().map(|x| x.print(d)).collect::<Vec<_>>().join(", ")
            ),
            E::Between(a, l, h) => format!("({} between {} and {})", a.print(d), l.print(d), h.print(d)),
            E::InSub(a, q, neg) => format!("({} {}in ({}))", a.print(d), if *neg { "not " } else { "" }, q.print(d)),
            E::Exists(q, neg) => format!("({}exists ({}))", if *neg { "not " } else { "" }, q.print(d)),
            E::Scalar(q) => format!("({})", q.print(d)),
            E::Agg(f, a, dist) => match a {
                None => "count(*)".into(),
                Some(a) => format!("{}({}{})", f, if *dist { "distinct " } else { "" }, a.print(d)),
            },
        }
    }
    /// Does the expression reference a column (directly, not inside a subquery)?
    pub fn has_col(&self) -> bool {
        match self {
            E::Col(..) => true,
            E::Bin(_, a, b) => a.has_col() || b.has_col(),
            E::Not(a) | E::Neg(a) | E::IsNull(a, _) => a.has_col(),
            E::Case(c, t, e) => c.has_col() || t.has_col() || e.as_ref().is_some_and(|e| e.has_col()),
            E::InList(a, l, _) => a.has_col() || l.iter().any(|x| x.has_col()),
            E::Between(a, l, h) => a.has_col() || l.has_col() || h.has_col(),
            E::InSub(a, _, _) => a.has_col(),
            E::Agg(_, a, _) => a.as_ref().is_none_or(|a| a.has_col()),
            _ => false,
        }
    }
    /// Columns (alias, name) referenced directly by the expression.
    pub fn cols(&self, out: &mut Vec<(String, String)>) {
        match self {
            E::Col(a, c, _) => out.push((a.clone(), c.clone())),
            E::Bin(_, a, b) => {
                a.cols(out);
                b.cols(out);
            }
            E::Not(a) | E::Neg(a) | E::IsNull(a, _) => a.cols(out),
            E::Case(c, t, e) => {
                c.cols(out);
                t.cols(out);
                if let Some(e) = e {
                    e.cols(out);
                }
            }
            E::InList(a, l, _) => {
                a.cols(out);
                l.iter().for_each(|x| x.cols(out));
            }
            E::Between(a, l, h) => {
                a.cols(out);
                l.cols(out);
                h.cols(out);
            }
            E::InSub(a, _, _) => a.cols(out),
            E::Agg(_, Some(a), _) => a.cols(out),
            _ => {}
        }
    }
    pub fn shares_col_with(&self, other: &E) -> bool {
        let (mut a, mut b) = (vec![], vec![]);
        self.cols(&mut a);
        other.cols(&mut b);
        a.iter().any(|x| b.contains(x))
    }
    pub fn has_subquery(&self) -> bool {
        match self {
            E::InSub(..) | E::Exists(..) | E::Scalar(..) => true,
            E::Bin(_, a, b) => a.has_subquery() || b.has_subquery(),
            E::Not(a) | E::Neg(a) | E::IsNull(a, _) => a.has_subquery(),
            E::Case(c, t, e) => c.has_subquery() || t.has_subquery() || e.as_ref().is_some_and(|e| e.has_subquery()),
            E::InList(a, l, _) => a.has_subquery() || l.iter().any(|x| x.has_subquery()),
            E::Between(a, l, h) => a.has_subquery() || l.has_subquery() || h.has_subquery(),
            E::Agg(_, a, _) => a.as_ref().is_some_and(|a| a.has_subquery()),
            _ => false,
        }
    }
}

impl Query {
    pub fn print(&self, d: Dialect) -> String {
        self.print_opts(d, true, true)
    }
    /// The query with its non-selected ORDER BY keys appended to the select list (so that the
    /// complete sort key is visible in the result); the first `self.select.len()` columns are the
    /// original ones.
    pub fn augmented(&self) -> Query {
        let mut q = self.clone();
        for (e, ty, desc) in q.order_extra.drain(..) {
            q.order_by.push((q.select.len(), desc));
            q.select.push((e, ty));
        }
        q
    }

    /// Un-limited form used as the reference for LIMIT/OFFSET results (see `augmented`).
    pub fn print_unlimited(&self, d: Dialect) -> String {
        self.augmented().print_opts(d, true, false)
    }

    pub fn print_opts(&self, d: Dialect, with_order: bool, with_limit: bool) -> String {
        let mut s = String::from("select ");
        if self.distinct {
            s.push_str("distinct ");
        }
        let items: Vec<String> = self
            .select
            .iter()
            .enumerate()
            .map(|(i, (e, _))| format!("{} as x{}", e.print(d), i))
            .collect();
        s.push_str(&items.join(", "));
        for (i, f) in self.from.iter().enumerate() {
            let src = match &f.source {
                Source::Table(t) => format!("{} as {}", t, f.alias),
                Source::Derived(q) => format!("({}) as {}", q.print(d), f.alias),
            };
            if i == 0 {
                s.push_str(" from ");
                s.push_str(&src);
            } else {
                let (k, on) = f.join.as_ref().unwrap();
                let kw = match k {
                    JoinKind::Inner => "join",
                    JoinKind::Left => "left join",
                    JoinKind::Right => "right join",
                    JoinKind::Full => "full join",
                    JoinKind::Cross => "cross join",
                    JoinKind::Semi => "left semi join",
                    JoinKind::Anti => "left anti join",
                };
                s.push_str(&format!(" {kw} {src}"));
                if let Some(on) = on {
                    s.push_str(&format!(" on {}", on.print(d)));
                }
            }
        }
        if let Some(w) = &self.where_ {
            s.push_str(&format!(" where {}", w.print(d)));
        }
        if !self.group_by.is_empty() {
            s.push_str(&format!(
                " group by {}",
                self.group_by.iter().map(|e| e.print(d)).collect::<Vec<_>>().join(", ")
            ));
        }
        if let Some(h) = &self.having {
            s.push_str(&format!(" having {}", h.print(d)));
        }
        if with_order && (!self.order_by.is_empty() || !self.order_extra.is_empty()) {
            let mut ks: Vec<String> = self
                .order_by
                .iter()
                .map(|(i, desc)| format!("{}{}", self.select[*i].0.print(d), if *desc { " desc" } else { "" }))
                .collect();
            ks.extend(self.order_extra.iter().map(|(e, _, desc)| format!("{}{}", e.print(d), if *desc { " desc" } else { "" })));
            s.push_str(&format!(" order by {}", ks.join(", ")));
        }
        if with_limit {
            match (self.limit, self.offset, d) {
                (Some(l), Some(o), _) => s.push_str(&format!(" limit {l} offset {o}")),
                (Some(l), None, _) => s.push_str(&format!(" limit {l}")),
                (None, Some(o), Dialect::Rl) => s.push_str(&format!(" offset {o}")),
                (None, Some(o), Dialect::Lite) => s.push_str(&format!(" limit -1 offset {o}")),
                (None, None, _) => {}
            }
        }
        s
    }
    pub fn features(&self) -> Vec<&'static str> {
        let mut f = vec![];
        for fi in &self.from {
            if let Some((k, on)) = &fi.join {
                f.push(match k {
                    JoinKind::Inner => "join-inner",
                    JoinKind::Left => "join-left",
                    JoinKind::Right => "join-right",
                    JoinKind::Full => "join-full",
                    JoinKind::Cross => "join-cross",
                    JoinKind::Semi => "join-semi",
                    JoinKind::Anti => "join-anti",
                });
                if on.as_ref().is_some_and(|e| e.has_subquery()) {
                    f.push("subquery-in-on");
                }
            }
            if matches!(fi.source, Source::Derived(_)) {
                f.push("derived");
            }
        }
        if self.where_.as_ref().is_some_and(|e| e.has_subquery()) {
            f.push("subquery-in-where");
        }
        if self.having.as_ref().is_some_and(|e| e.has_subquery()) {
            f.push("subquery-in-having");
        }
        if self.select.iter().any(|(e, _)| e.has_subquery()) {
            f.push("subquery-in-select");
        }
        if !self.group_by.is_empty() {
            f.push("group-by");
        }
        if self.select.iter().any(|(e, _)| matches!(e, E::Agg(..))) {
            f.push("aggregate");
        }
        if self.having.is_some() {
            f.push("having");
        }
        if self.distinct {
            f.push("distinct");
        }
        if !self.order_by.is_empty() || !self.order_extra.is_empty() {
            f.push("order-by");
        }
        if !self.order_extra.is_empty() {
            f.push("order-by-non-selected");
        }
        if self.from.iter().any(|x| matches!(&x.source, Source::Derived(q) if !q.order_by.is_empty())) {
            f.push("derived-ordered");
        }
        if self.from.iter().any(|x| matches!(&x.source, Source::Derived(q) if q.order_by.len() >= 2)) && self.order_by.len() >= 2 {
            f.push("order-over-derived-ordered-on-2-keys");
        }
        if self.limit.is_some() || self.offset.is_some() {
            f.push("limit-offset");
        }
        f
    }
    pub fn is_nontrivial_shape(&self) -> bool {
        let f = self.features();
        f.iter().any(|x| x.starts_with("join") || x.starts_with("subquery") || *x == "aggregate" || *x == "group-by")
    }
}

// ---------------------------------------------------------------------------------------------
// query generation

#[derive(Clone)]
pub struct ScopeCol {
    pub alias: String,
    pub name: String,
    pub ty: Ty,
}

pub struct Gen<'a, 'b> {
    pub t: &'a mut Tape<'b>,
    pub cfg: GenCfg,
    pub schema: &'a [TableDef],
    pub alias_no: usize,
}

/// Drop the conjuncts / disjuncts of a condition that reference no column (`true` if none is left).
pub fn strip_const_conjuncts(e: E) -> E {
    fn strip(e: E) -> Option<E> {
        match e {
            E::Bin(op, a, b) if op == "and" || op == "or" => match (strip(*a), strip(*b)) {
                (Some(a), Some(b)) => Some(E::Bin(op, Box::new(a), Box::new(b))),
                (Some(x), None) | (None, Some(x)) => Some(x),
                (None, None) => None,
            },
            e if e.has_col() => Some(e),
            _ => None,
        }
    }
    strip(e).unwrap_or(E::Lit(Val::Bool(true), Ty::Bool))
}

impl<'a, 'b> Gen<'a, 'b> {
    fn fresh_alias(&mut self, p: &str) -> String {
        self.alias_no += 1;
        format!("{p}{}", self.alias_no)
    }

    fn cols_of(&self, scope: &[ScopeCol], ty: Ty) -> Vec<ScopeCol> {
        scope.iter().filter(|c| c.ty == ty).cloned().collect()
    }

    fn col_expr(c: &ScopeCol) -> E {
        E::Col(c.alias.clone(), c.name.clone(), c.ty)
    }

    fn literal(&mut self, ty: Ty) -> E {
        if self.cfg.null_literal && self.t.chance(1, 12) {
            return E::Null(ty);
        }
        match ty {
            Ty::Int => E::Lit(Val::Int(INT_DOM[self.t.pick(INT_DOM.len())]), ty),
            Ty::Bool => E::Lit(Val::Bool(self.t.pick(2) == 0), ty),
            Ty::Str => E::Lit(Val::Str(STR_DOM[self.t.pick(STR_DOM.len())].into()), ty),
        }
    }

    /// A scalar expression of type `ty` over `scope` (+ `outer` for correlation); no aggregates.
    pub fn expr(&mut self, scope: &[ScopeCol], outer: &[ScopeCol], ty: Ty, depth: usize, allow_sub: bool) -> E {
        let cols = self.cols_of(scope, ty);
        let leaf = depth >= self.cfg.max_depth;
        // leaf choices first (simplest)
        let choice = if leaf { self.t.pick(2) } else { self.t.weighted(&[4, 2, 6]) };
        match choice {
            0 if !cols.is_empty() => {
                let c = cols[self.t.pick(cols.len())].clone();
                Self::col_expr(&c)
            }
            0 | 1 => {
                // outer column (correlation) sometimes
                let oc = self.cols_of(outer, ty);
                if !oc.is_empty() && self.t.chance(1, 3) {
                    let c = oc[self.t.pick(oc.len())].clone();
                    return Self::col_expr(&c);
                }
                if !cols.is_empty() && self.t.chance(1, 2) {
                    let c = cols[self.t.pick(cols.len())].clone();
                    return Self::col_expr(&c);
                }
                self.literal(ty)
            }
            _ => match ty {
                Ty::Int => self.int_expr(scope, outer, depth, allow_sub),
                Ty::Bool => self.bool_expr(scope, outer, depth, allow_sub),
                Ty::Str => self.str_expr(scope, outer, depth, allow_sub),
            },
        }
    }

    fn int_expr(&mut self, scope: &[ScopeCol], outer: &[ScopeCol], depth: usize, allow_sub: bool) -> E {
        let mut opts: Vec<u8> = vec![];
        if self.cfg.arithmetic {
            opts.extend([0, 0, 1]);
            if self.cfg.div_mod {
                opts.push(2);
            }
        }
        if self.cfg.case_expr {
            opts.push(3);
        }
        if allow_sub && self.cfg.subqueries && self.cfg.subq_in_select && self.cfg.scalar_subquery {
            opts.push(4);
        }
        if opts.is_empty() {
            return self.literal(Ty::Int);
        }
        match opts[self.t.pick(opts.len())] {
            0 => {
                let op = ["+", "-", "*"][self.t.pick(3)];
                let mut a = self.expr(scope, outer, Ty::Int, depth + 1, allow_sub);
                let mut b = self.expr(scope, outer, Ty::Int, depth + 1, allow_sub);
                if !self.cfg.null_unsound_patterns {
                    if op == "-" && (a == b || a.shares_col_with(&b)) {
                        b = E::Lit(Val::Int(1), Ty::Int);
                    }
                    if op == "*" {
                        for x in [&mut a, &mut b] {
                            if matches!(x, E::Lit(Val::Int(0), _)) {
                                *x = E::Lit(Val::Int(3), Ty::Int);
                            }
                        }
                    }
                }
                if !self.cfg.arith_identity {
                    let ident = if op == "*" { 1 } else { 0 };
                    for x in [&mut a, &mut b] {
                        if matches!(x, E::Lit(Val::Int(i), _) if *i == ident) {
                            *x = E::Lit(Val::Int(2), Ty::Int);
                        }
                    }
                }
                E::Bin(op.into(), Box::new(a), Box::new(b))
            }
            1 => E::Neg(Box::new(self.expr(scope, outer, Ty::Int, depth + 1, allow_sub))),
            2 => {
                let op = ["/", "%"][self.t.pick(2)];
                let a = self.expr(scope, outer, Ty::Int, depth + 1, allow_sub);
                let mut b = self.expr(scope, outer, Ty::Int, depth + 1, allow_sub);
                if !self.cfg.const_divisor && !b.has_col() {
                    b = E::Lit(Val::Int([1, 2, 3, -1][self.t.pick(4)]), Ty::Int);
                }
                E::Bin(op.into(), Box::new(a), Box::new(b))
            }
            3 => self.case(scope, outer, Ty::Int, depth, allow_sub),
            _ => self.scalar_subquery(scope, outer, Ty::Int, depth),
        }
    }

    fn case(&mut self, scope: &[ScopeCol], outer: &[ScopeCol], ty: Ty, depth: usize, allow_sub: bool) -> E {
        let mut c = self.expr(scope, outer, Ty::Bool, depth + 1, allow_sub);
        if !self.cfg.const_case_cond && !c.has_col() {
            // make the condition depend on a column
            let cols: Vec<ScopeCol> = scope.iter().filter(|c| c.ty != Ty::Bool).cloned().collect();
            if let Some(col) = cols.first().cloned().or_else(|| scope.first().cloned()) {
                c = E::IsNull(Box::new(Self::col_expr(&col)), self.t.pick(2) == 1);
            }
        }
        let a = self.expr(scope, outer, ty, depth + 1, allow_sub);
        let e = if self.t.chance(3, 4) {
            Some(Box::new(self.expr(scope, outer, ty, depth + 1, allow_sub)))
        } else {
            None
        };
        E::Case(Box::new(c), Box::new(a), e)
    }

    fn str_expr(&mut self, scope: &[ScopeCol], outer: &[ScopeCol], depth: usize, allow_sub: bool) -> E {
        let mut opts: Vec<u8> = vec![];
        if self.cfg.concat {
            opts.push(0);
        }
        if self.cfg.case_expr && self.cfg.case_string {
            opts.push(1);
        }
        if opts.is_empty() {
            return self.literal(Ty::Str);
        }
        match opts[self.t.pick(opts.len())] {
            0 => {
                let a = self.expr(scope, outer, Ty::Str, depth + 1, allow_sub);
                let b = self.expr(scope, outer, Ty::Str, depth + 1, allow_sub);
                E::Bin("||".into(), Box::new(a), Box::new(b))
            }
            _ => self.case(scope, outer, Ty::Str, depth, allow_sub),
        }
    }

    fn cmp(&mut self, scope: &[ScopeCol], outer: &[ScopeCol], depth: usize, allow_sub: bool) -> E {
        let ty = [Ty::Int, Ty::Int, Ty::Str, Ty::Bool][self.t.pick(4)];
        let ops: &[&str] = if ty == Ty::Bool { &["=", "<>"] } else { &["=", "<>", "<", "<=", ">", ">="] };
        let op = ops[self.t.pick(ops.len())];
        let a = self.expr(scope, outer, ty, depth + 1, allow_sub);
        let mut b = self.expr(scope, outer, ty, depth + 1, allow_sub);
        // (also when both sides mention the same column: `c <> c + 2` reaches `c - c` through
        // the *-add rules)
        if !self.cfg.null_unsound_patterns && (a == b || (ty == Ty::Int && a.shares_col_with(&b))) {
            b = match ty {
                Ty::Int => E::Lit(Val::Int(1), ty),
                Ty::Bool => E::Lit(Val::Bool(true), ty),
                Ty::Str => E::Lit(Val::Str("a".into()), ty),
            };
        }
        E::Bin(op.into(), Box::new(a), Box::new(b))
    }

    fn bool_expr(&mut self, scope: &[ScopeCol], outer: &[ScopeCol], depth: usize, allow_sub: bool) -> E {
        let mut ws = vec![6u32, 3, 2, 2, 1, 1];
        // 0 cmp, 1 and/or, 2 not, 3 is null, 4 in-list, 5 between, 6 in-subquery, 7 exists
        if allow_sub && self.cfg.subqueries {
            ws.extend([2, 2]);
        }
        // two bounds on one INT column, constants of both numeric kinds (`x > 2.5 and x < 6`)
        let ints = self.cols_of(scope, Ty::Int);
        if !ints.is_empty() && self.t.chance(1, 12) {
            let x = Self::col_expr(&ints[self.t.pick(ints.len())].clone());
            let ops = [">", ">=", "<", "<="];
            let bound = |g: &mut Self| {
                let c = if g.t.chance(1, 3) {
                    E::Num(["0.5", "1.5", "2.5", "-0.5", "2.0", "3.0", "0.0"][g.t.pick(7)].to_string())
                } else {
                    E::Lit(Val::Int(INT_DOM[g.t.pick(INT_DOM.len())]), Ty::Int)
                };
                E::Bin(ops[g.t.pick(4)].into(), Box::new(x.clone()), Box::new(c))
            };
            let (a, b) = (bound(self), bound(self));
            let op = if self.t.chance(1, 5) { "or" } else { "and" };
            return E::Bin(op.into(), Box::new(a), Box::new(b));
        }
        match self.t.weighted(&ws) {
            0 => self.cmp(scope, outer, depth, allow_sub),
            1 => {
                let op = ["and", "or"][self.t.pick(2)];
                let a = self.expr(scope, outer, Ty::Bool, depth + 1, allow_sub);
                let b = self.expr(scope, outer, Ty::Bool, depth + 1, allow_sub);
                if !self.cfg.arith_identity {
                    // `x or x`, `x and x`, `x and true`, `x or false` simplify to their operand too
                    // (a constant operand is neutral or absorbing: `x and true`, `false and x`, ..)
                    if a == b || matches!(b, E::Lit(Val::Bool(_), _)) {
                        return a;
                    }
                    if matches!(a, E::Lit(Val::Bool(_), _)) {
                        return b;
                    }
                }
                E::Bin(op.into(), Box::new(a), Box::new(b))
            }
            2 => {
                let sub_ok = allow_sub && self.cfg.not_in_subq && self.cfg.correlated_not_in;
                E::Not(Box::new(self.expr(scope, outer, Ty::Bool, depth + 1, sub_ok)))
            }
            3 => {
                let ty = [Ty::Int, Ty::Str, Ty::Bool][self.t.pick(3)];
                let neg = self.t.pick(2) == 1;
                E::IsNull(Box::new(self.expr(scope, outer, ty, depth + 1, allow_sub)), neg)
            }
            4 => {
                let ty = [Ty::Int, Ty::Str][self.t.pick(2)];
                let a = self.expr(scope, outer, ty, depth + 1, false);
                let n = self.t.range(1, 3);
                // list elements are literals, sometimes a column (`a in (c, 2)`)
                let cols = self.cols_of(scope, ty);
                let l = (0..n)
                    .map(|_| {
                        if !cols.is_empty() && self.t.chance(1, 5) {
                            Self::col_expr(&cols[self.t.pick(cols.len())].clone())
                        } else {
                            self.literal(ty)
                        }
                    })
                    .collect();
                let neg = self.t.pick(3) == 2;
                E::InList(Box::new(a), l, neg)
            }
            5 => {
                let a = self.expr(scope, outer, Ty::Int, depth + 1, false);
                let l = self.literal(Ty::Int);
                let h = self.literal(Ty::Int);
                E::Between(Box::new(a), Box::new(l), Box::new(h))
            }
            6 => {
                let ty = [Ty::Int, Ty::Int, Ty::Str][self.t.pick(3)];
                let a = self.expr(scope, outer, ty, depth + 1, false);
                let neg = self.cfg.not_in_subq && self.t.pick(3) == 2;
                let saved = self.cfg.correlated;
                if neg && !self.cfg.correlated_not_in {
                    self.cfg.correlated = false;
                }
                let q = self.subquery(scope, outer, Some(ty), depth + 1);
                self.cfg.correlated = saved;
                E::InSub(Box::new(a), Box::new(q), neg)
            }
            _ => {
                let neg = self.t.pick(3) == 2;
                let q = self.subquery(scope, outer, None, depth + 1);
                E::Exists(Box::new(q), neg)
            }
        }
    }

    fn scalar_subquery(&mut self, scope: &[ScopeCol], outer: &[ScopeCol], ty: Ty, depth: usize) -> E {
        // an aggregate subquery: exactly one row
        let td = &self.schema[self.t.pick(self.schema.len())];
        let alias = self.fresh_alias("s");
        let inner: Vec<ScopeCol> = td
            .cols
            .iter()
            .map(|c| ScopeCol { alias: alias.clone(), name: c.name.clone(), ty: c.ty })
            .collect();
        let mut vis: Vec<ScopeCol> = scope.to_vec();
        vis.extend(outer.iter().cloned());
        let cands = self.cols_of(&inner, ty);
        let agg = if ty == Ty::Int && (cands.is_empty() || self.t.chance(1, 3)) {
            if self.cfg.count_star_in_subquery {
                E::Agg("count".into(), None, false)
            } else {
                E::Agg("count".into(), Some(Box::new(Self::col_expr(&inner[0]))), false)
            }
        } else if cands.is_empty() {
            return self.literal(ty);
        } else {
            let c = cands[self.t.pick(cands.len())].clone();
            let f = if ty == Ty::Int { ["max", "min", "sum", "count"][self.t.pick(4)] } else { ["max", "min"][self.t.pick(2)] };
            E::Agg(f.into(), Some(Box::new(Self::col_expr(&c))), false)
        };
        let where_ = if self.cfg.correlated && self.cfg.correlated_scalar && self.t.chance(1, 2) {
            Some(self.corr_pred(&inner, &vis, depth))
        } else if self.t.chance(1, 3) {
            Some(self.expr(&inner, &[], Ty::Bool, depth + 1, false))
        } else {
            None
        };
        E::Scalar(Box::new(Query {
            distinct: false,
            select: vec![(agg, ty)],
            from: vec![FromItem { source: Source::Table(td.name.clone()), alias, join: None }],
            where_,
            group_by: vec![],
            having: None,
            order_by: vec![],
            order_extra: vec![],
            limit: None,
            offset: None,
        }))
    }

    /// correlation predicate: inner column = outer column of the same type (if any)
    fn corr_pred(&mut self, inner: &[ScopeCol], outer: &[ScopeCol], depth: usize) -> E {
        for _ in 0..3 {
            let ic = inner[self.t.pick(inner.len())].clone();
            let oc = self.cols_of(outer, ic.ty);
            if !oc.is_empty() {
                let o = oc[self.t.pick(oc.len())].clone();
                let op = if self.t.chance(1, 5) && ic.ty != Ty::Bool { ["<", ">", "<>"][self.t.pick(3)] } else { "=" };
                let p = E::Bin(op.into(), Box::new(Self::col_expr(&ic)), Box::new(Self::col_expr(&o)));
                if self.t.chance(1, 4) {
                    let extra = self.expr(inner, &[], Ty::Bool, depth + 1, false);
                    return E::Bin("and".into(), Box::new(p), Box::new(extra));
                }
                return p;
            }
        }
        self.expr(inner, &[], Ty::Bool, depth + 1, false)
    }

    /// subquery for IN (one column of type `want`) or EXISTS (`want == None`)
    fn subquery(&mut self, scope: &[ScopeCol], outer: &[ScopeCol], want: Option<Ty>, depth: usize) -> Query {
        let mut vis: Vec<ScopeCol> = scope.to_vec();
        vis.extend(outer.iter().cloned());
        // pick a table with a column of the wanted type, if possible
        let n = self.schema.len();
        let start = self.t.pick(n);
        let mut td = &self.schema[start];
        if let Some(ty) = want {
            for k in 0..n {
                let c = &self.schema[(start + k) % n];
                if c.cols.iter().any(|c| c.ty == ty) {
                    td = c;
                    break;
                }
            }
        }
        let alias = self.fresh_alias("s");
        let inner: Vec<ScopeCol> = td
            .cols
            .iter()
            .map(|c| ScopeCol { alias: alias.clone(), name: c.name.clone(), ty: c.ty })
            .collect();
        let sel = match want {
            Some(ty) => {
                let cands = self.cols_of(&inner, ty);
                if cands.is_empty() {
                    (self.literal(ty), ty)
                } else if self.t.chance(1, 5) {
                    (self.expr(&inner, &[], ty, depth + 1, false), ty)
                } else {
                    (Self::col_expr(&cands[self.t.pick(cands.len())].clone()), ty)
                }
            }
            None => (E::Lit(Val::Int(1), Ty::Int), Ty::Int),
        };
        let where_ = if self.cfg.correlated && self.t.chance(1, 2) {
            Some(self.corr_pred(&inner, &vis, depth))
        } else if self.t.chance(1, 2) {
            Some(self.expr(&inner, &[], Ty::Bool, depth + 1, false))
        } else {
            None
        };
        Query {
            distinct: false,
            select: vec![sel],
            from: vec![FromItem { source: Source::Table(td.name.clone()), alias, join: None }],
            where_,
            group_by: vec![],
            having: None,
            order_by: vec![],
            order_extra: vec![],
            limit: None,
            offset: None,
        }
    }

    fn join_on(&mut self, left: &[ScopeCol], right: &[ScopeCol], kind: JoinKind, depth: usize) -> E {
        let e = self.join_on_inner(left, right, kind, depth);
        if self.cfg.const_join_cond {
            return e;
        }
        strip_const_conjuncts(e)
    }

    fn join_on_inner(&mut self, left: &[ScopeCol], right: &[ScopeCol], kind: JoinKind, depth: usize) -> E {
        // prefer an equi-condition between a left and a right column of the same type
        let mut both: Vec<ScopeCol> = left.to_vec();
        both.extend(right.iter().cloned());
        let allow_nonequi = match kind {
            JoinKind::Right | JoinKind::Full | JoinKind::Left => self.cfg.nonequi_outer,
            _ => true,
        };
        let mut pairs = vec![];
        for l in left {
            for r in right {
                if l.ty == r.ty {
                    pairs.push((l.clone(), r.clone()));
                }
            }
        }
        let equi = |p: &(ScopeCol, ScopeCol)| E::Bin("=".into(), Box::new(Self::col_expr(&p.0)), Box::new(Self::col_expr(&p.1)));
        if pairs.is_empty() {
            if allow_nonequi {
                return self.expr(&both, &[], Ty::Bool, depth + 1, false);
            }
            return E::Lit(Val::Bool(true), Ty::Bool);
        }
        let w = if allow_nonequi { self.t.weighted(&[6, 2, 2, 1]) } else { self.t.weighted(&[6, 2]) };
        match w {
            0 => {
                let p = pairs[self.t.pick(pairs.len())].clone();
                equi(&p)
            }
            1 => {
                // two equi keys
                let p = pairs[self.t.pick(pairs.len())].clone();
                let q = pairs[self.t.pick(pairs.len())].clone();
                E::Bin("and".into(), Box::new(equi(&p)), Box::new(equi(&q)))
            }
            2 => {
                // equi + residual
                let p = pairs[self.t.pick(pairs.len())].clone();
                let r = self.expr(&both, &[], Ty::Bool, depth + 1, false);
                E::Bin("and".into(), Box::new(equi(&p)), Box::new(r))
            }
            _ => self.expr(&both, &[], Ty::Bool, depth + 1, false),
        }
    }

    /// A top-level (or derived-table) query.
    pub fn query(&mut self, depth: usize) -> Query {
        // FROM
        let nfrom = if self.cfg.joins { self.t.weighted(&[5, 4, 2]) + 1 } else { 1 };
        let mut from: Vec<FromItem> = vec![];
        let mut scope: Vec<ScopeCol> = vec![];
        for i in 0..nfrom {
            let (source, alias, cols) = if self.cfg.derived && depth == 0 && self.t.chance(1, 6) {
                let q = self.derived_query(depth + 1);
                let alias = self.fresh_alias("d");
                let cols: Vec<ScopeCol> = q
                    .select
                    .iter()
                    .enumerate()
                    .map(|(k, (_, ty))| ScopeCol { alias: alias.clone(), name: format!("x{k}"), ty: *ty })
                    .collect();
                (Source::Derived(Box::new(q)), alias, cols)
            } else {
                let td = &self.schema[self.t.pick(self.schema.len())];
                let alias = self.fresh_alias("t");
                let cols = td
                    .cols
                    .iter()
                    .map(|c| ScopeCol { alias: alias.clone(), name: c.name.clone(), ty: c.ty })
                    .collect();
                (Source::Table(td.name.clone()), alias, cols)
            };
            if i == 0 {
                from.push(FromItem { source, alias, join: None });
                scope.extend(cols);
            } else {
                let mut kinds = vec![JoinKind::Inner, JoinKind::Inner];
                if self.cfg.outer_joins {
                    kinds.extend([JoinKind::Left, JoinKind::Right, JoinKind::Full]);
                }
                kinds.push(JoinKind::Cross);
                if self.cfg.semi_anti {
                    kinds.extend([JoinKind::Semi, JoinKind::Anti]);
                }
                let kind = kinds[self.t.pick(kinds.len())];
                let on = if kind == JoinKind::Cross { None } else { Some(self.join_on(&scope, &cols, kind, depth)) };
                from.push(FromItem { source, alias, join: Some((kind, on)) });
                if !matches!(kind, JoinKind::Semi | JoinKind::Anti) {
                    scope.extend(cols);
                }
            }
        }
        if self.cfg.sqlite {
            // oracle limitation (SQLite 3.40): a column-free conjunct in the ON clause of an inner
            // join is treated like a WHERE term, which is wrong when a RIGHT/FULL join follows
            // (`a join b on false full join c on ..` returns nothing): not generated for SQLite
            for i in 1..from.len() {
                let later_outer = from[i + 1..].iter().any(|f| matches!(f.join, Some((JoinKind::Right | JoinKind::Full, _))));
                if let Some((JoinKind::Inner, Some(on))) = &mut from[i].join {
                    if later_outer {
                        *on = strip_const_conjuncts(on.clone());
                    }
                }
            }
        }
        // WHERE
        let where_ = if self.t.chance(3, 5) {
            Some(if self.cfg.bare_bool && self.t.chance(1, 10) && !self.cols_of(&scope, Ty::Bool).is_empty() {
                let c = self.cols_of(&scope, Ty::Bool);
                Self::col_expr(&c[self.t.pick(c.len())].clone())
            } else {
                let mut e = self.bool_expr(&scope, &[], depth, true);
                if !self.cfg.bare_bool {
                    if let E::Col(..) = e {
                        e = E::Bin("=".into(), Box::new(e), Box::new(E::Lit(Val::Bool(true), Ty::Bool)));
                    }
                }
                e
            })
        } else {
            None
        };
        // SELECT / GROUP BY
        let mode = if self.cfg.aggregates { self.t.weighted(&[6, 3, 3]) } else { 0 };
        let mut select: Vec<(E, Ty)> = vec![];
        let mut grouped_on_derived_order = false;
        let mut group_by = vec![];
        let mut having = None;
        let mut distinct = false;
        match mode {
            0 => {
                let n = self.t.range(1, 3);
                for _ in 0..n {
                    let ty = [Ty::Int, Ty::Int, Ty::Str, Ty::Bool][self.t.pick(4)];
                    let mut e = self.expr(&scope, &[], ty, depth + 1, self.cfg.subq_in_select);
                    if !self.cfg.const_items && !e.has_col() {
                        let cols = self.cols_of(&scope, ty);
                        if cols.is_empty() {
                            continue;
                        }
                        e = Self::col_expr(&cols[self.t.pick(cols.len())].clone());
                    }
                    select.push((e, ty));
                }
                if select.is_empty() {
                    let c = scope[self.t.pick(scope.len())].clone();
                    select.push((Self::col_expr(&c), c.ty));
                }
                distinct = self.cfg.distinct && self.t.chance(1, 6);
                if distinct && !self.cfg.distinct_complex {
                    // plain columns only
                    for item in select.iter_mut() {
                        if !matches!(item.0, E::Col(..)) {
                            let cols = self.cols_of(&scope, item.1);
                            if cols.is_empty() {
                                distinct = false;
                                break;
                            }
                            item.0 = Self::col_expr(&cols[self.t.pick(cols.len())].clone());
                        }
                    }
                }
            }
            1 => {
                // aggregates without GROUP BY
                let n = self.t.range(1, 3);
                for _ in 0..n {
                    select.push(self.agg(&scope, depth));
                }
            }
            _ => {
                // a derived table that is ordered: group by its sort column half of the time (the
                // aggregation can then run as a sort aggregation over the kept order)
                let ordered: Vec<(E, Ty)> = from
                    .iter()
                    // (not the right side of a semi/anti join: its columns are not in scope)
                    .filter(|f| !matches!(f.join, Some((JoinKind::Semi | JoinKind::Anti, _))))
                    .filter_map(|f| match &f.source {
                        Source::Derived(q) => q.order_by.first().map(|(i, _)| (E::Col(f.alias.clone(), format!("x{i}"), q.select[*i].1), q.select[*i].1)),
                        _ => None,
                    })
                    .collect();
                if !ordered.is_empty() && self.t.chance(1, 2) {
                    let (e, ty) = ordered[self.t.pick(ordered.len())].clone();
                    group_by.push(e.clone());
                    select.push((e, ty));
                    grouped_on_derived_order = true;
                }
                let nk = self.t.range(if group_by.is_empty() { 1 } else { 0 }, 2);
                for _ in 0..nk {
                    let ty = [Ty::Int, Ty::Str, Ty::Bool][self.t.pick(3)];
                    let cols = self.cols_of(&scope, ty);
                    let e = if !cols.is_empty() && !self.t.chance(1, 5) {
                        Self::col_expr(&cols[self.t.pick(cols.len())].clone())
                    } else {
                        let e = self.expr(&scope, &[], ty, self.cfg.max_depth.saturating_sub(1), false);
                        if matches!(e, E::Lit(..) | E::Null(..)) || (!self.cfg.const_items && !e.has_col()) {
                            continue;
                        }
                        e
                    };
                    if !group_by.contains(&e) {
                        group_by.push(e.clone());
                        select.push((e, ty));
                    }
                }
                if group_by.is_empty() {
                    select.push(self.agg(&scope, depth));
                } else {
                    let na = self.t.range(0, 2);
                    for _ in 0..na {
                        select.push(self.agg(&scope, depth));
                    }
                    if self.t.chance(1, 4) {
                        let (mut a, mut ty) = self.agg(&scope, depth);
                        if !self.cfg.having_other_agg {
                            // reuse an aggregate of the select list, or count(*)
                            let aggs: Vec<(E, Ty)> = select.iter().filter(|(e, _)| matches!(e, E::Agg(..))).cloned().collect();
                            (a, ty) = if aggs.is_empty() { (E::Agg("count".into(), None, false), Ty::Int) } else { aggs[self.t.pick(aggs.len())].clone() };
                        }
                        if ty == Ty::Int {
                            let l = self.literal(Ty::Int);
                            if self.t.chance(1, 3) {
                                // the aggregate as the tested expression of IN
                                let l2 = self.literal(Ty::Int);
                                having = Some(E::InList(Box::new(a), vec![l, l2], self.t.chance(1, 4)));
                            } else {
                                let op = [">", "<", "=", ">="][self.t.pick(4)];
                                having = Some(E::Bin(op.into(), Box::new(a), Box::new(l)));
                            }
                        }
                    }
                }
            }
        }
        if mode != 0 && depth == 0 && self.t.chance(1, 10) {
            // a select item that tests an aggregate with IN (its only occurrence in the block); not
            // in derived tables: an item over an aggregate referenced from outside is the open
            // finding F-C16-named-agg-expr-stale-binding
            let (a, ty) = self.agg(&scope, depth);
            if ty == Ty::Int && !select.iter().any(|(e, _)| *e == a) {
                let l = vec![self.literal(Ty::Int), self.literal(Ty::Int)];
                select.push((E::InList(Box::new(a), l, false), Ty::Bool));
            }
        }
        if self.cfg.ungrouped_items && mode != 0 && self.t.chance(1, 8) {
            let c = scope[self.t.pick(scope.len())].clone();
            let e = Self::col_expr(&c);
            // (an aggregate output column of a derived table is accepted ungrouped by the binder of
            // the unchanged tree: open finding F-C17-ungrouped-derived-aggregate)
            let derived_agg = from.iter().any(|f| match &f.source {
                Source::Derived(q) if f.alias == c.alias => c.name.strip_prefix('x').and_then(|i| i.parse::<usize>().ok()).and_then(|i| q.select.get(i)).is_some_and(|(x, _)| !matches!(x, E::Col(..))),
                _ => false,
            });
            if !group_by.contains(&e) && !derived_agg {
                let at = self.t.pick(select.len() + 1);
                select.insert(at, (e, c.ty));
            }
        }
        // ORDER BY / LIMIT
        let mut order_by = vec![];
        let mut order_extra: Vec<(E, Ty, bool)> = vec![];
        let mut limit = None;
        let mut offset = None;
        // (an aggregating block over a derived table that itself has aggregate outputs, sorted and
        // limited: projection pushdown drops aggregates the top-n needs — one more trigger of the
        // open column-not-found family, avoided like the others while `derived_expr_items` is off)
        let agg_over_derived_agg = mode != 0 && from.iter().any(|f| matches!(&f.source, Source::Derived(q) if q.select.iter().any(|(e, _)| matches!(e, E::Agg(..)))));
        if self.cfg.order_limit && (self.cfg.distinct_complex || !distinct) && (self.cfg.derived_expr_items || !agg_over_derived_agg) {
            if self.t.chance(2, 5) && (self.cfg.order_over_derived_sortagg || !grouped_on_derived_order) {
                let nk = self.t.range(1, select.len().min(2));
                for _ in 0..nk {
                    let i = self.t.pick(select.len());
                    if !order_by.iter().any(|(j, _)| *j == i) {
                        order_by.push((i, self.t.chance(1, 3)));
                    }
                }
            }
            // over a derived table that is ordered on several keys: order by the same columns in
            // another sequence (the inner order must not count as the outer one)
            let inner_keys: Vec<(E, Ty)> = from
                .iter()
                .filter(|f| !matches!(f.join, Some((JoinKind::Semi | JoinKind::Anti, _))))
                .find_map(|f| match &f.source {
                    Source::Derived(q) if q.order_by.len() >= 2 => Some(q.order_by.iter().map(|(i, _)| (E::Col(f.alias.clone(), format!("x{i}"), q.select[*i].1), q.select[*i].1)).collect()),
                    _ => None,
                })
                .unwrap_or_default();
            if self.cfg.order_non_selected && mode == 0 && !distinct && !inner_keys.is_empty() && self.t.chance(3, 4) {
                // (the keys are selected, so that the order is visible in the result)
                order_by.clear();
                for (e, ty) in inner_keys.into_iter().rev() {
                    let i = match select.iter().position(|(s, _)| *s == e) {
                        Some(i) => i,
                        None => {
                            select.push((e, ty));
                            select.len() - 1
                        }
                    };
                    order_by.push((i, self.t.chance(1, 6)));
                }
            } else if self.cfg.order_non_selected && mode == 0 && !distinct && self.t.chance(1, 5) {
                // a key that is not in the select list: a column of the scope (or an expression)
                let c = scope[self.t.pick(scope.len())].clone();
                let e = if self.t.chance(1, 4) && c.ty == Ty::Int {
                    E::Neg(Box::new(Self::col_expr(&c)))
                } else {
                    Self::col_expr(&c)
                };
                if !select.iter().any(|(s, _)| *s == e) {
                    order_extra.push((e, c.ty, self.t.chance(1, 3)));
                }
            }
            if self.t.chance(1, 4) {
                limit = Some([1u64, 0, 2, 3, 5, 100][self.t.pick(6)]);
            }
            if self.t.chance(1, 5) {
                offset = Some([1u64, 0, 2, 7][self.t.pick(4)]);
            }
        }
        Query {
            distinct,
            select,
            from,
            where_,
            group_by,
            having,
            order_by,
            order_extra,
            limit,
            offset,
        }
    }

    fn agg_arg(&mut self, scope: &[ScopeCol], ty: Ty, depth: usize) -> E {
        let e = self.expr(scope, &[], ty, depth + 2, false);
        if !self.cfg.const_agg_arg && !e.has_col() {
            let cols = self.cols_of(scope, ty);
            if !cols.is_empty() {
                return Self::col_expr(&cols[self.t.pick(cols.len())].clone());
            }
            // no column of that type: any column under IS NULL / count
            return e;
        }
        e
    }

    fn agg(&mut self, scope: &[ScopeCol], depth: usize) -> (E, Ty) {
        let (e, ty) = self.agg_inner(scope, depth);
        if !self.cfg.const_agg_arg {
            if let E::Agg(_, Some(a), _) = &e {
                if !a.has_col() {
                    return (E::Agg("count".into(), None, false), Ty::Int);
                }
            }
        }
        (e, ty)
    }

    fn agg_inner(&mut self, scope: &[ScopeCol], depth: usize) -> (E, Ty) {
        let w = if self.cfg.count_distinct { self.t.weighted(&[3, 3, 3, 2, 2, 2]) } else { self.t.weighted(&[3, 3, 3, 2, 2]) };
        match w {
            0 => (E::Agg("count".into(), None, false), Ty::Int),
            1 => {
                let ty = [Ty::Int, Ty::Str, Ty::Bool][self.t.pick(3)];
                let e = self.agg_arg(scope, ty, depth);
                (E::Agg("count".into(), Some(Box::new(e)), false), Ty::Int)
            }
            2 => {
                let e = self.agg_arg(scope, Ty::Int, depth);
                (E::Agg("sum".into(), Some(Box::new(e)), false), Ty::Int)
            }
            3 | 4 => {
                let ty = [Ty::Int, Ty::Int, Ty::Str][self.t.pick(3)];
                let e = self.agg_arg(scope, ty, depth);
                (E::Agg(if w == 3 { "min" } else { "max" }.into(), Some(Box::new(e)), false), ty)
            }
            _ => {
                let ty = [Ty::Int, Ty::Str][self.t.pick(2)];
                let e = self.agg_arg(scope, ty, depth);
                (E::Agg("count".into(), Some(Box::new(e)), true), Ty::Int)
            }
        }
    }

    /// derived table: a simple select (no order/limit: their result would not be unique)
    fn derived_query(&mut self, depth: usize) -> Query {
        let saved = self.cfg.clone();
        self.cfg.order_limit = false;
        self.cfg.derived = false;
        if !self.cfg.count_star_in_subquery {
            // an aggregate over a constant (count(0)) is, like count(*), the same plan node in
            // every query block and gets conflated with the outer block's
            self.cfg.const_agg_arg = false;
        }
        let mut q = self.query(depth);
        self.cfg = saved;
        if !self.cfg.count_star_in_subquery {
            fn fix(e: &mut E, col: &E) {
                match e {
                    E::Agg(f, a @ None, _) if f == "count" => *a = Some(Box::new(col.clone())),
                    E::Bin(_, a, b) => {
                        fix(a, col);
                        fix(b, col);
                    }
                    _ => {}
                }
            }
            let first = match &q.from[0].source {
                Source::Table(t) => self.schema.iter().find(|td| &td.name == t).map(|td| E::Col(q.from[0].alias.clone(), td.cols[0].name.clone(), td.cols[0].ty)),
                Source::Derived(_) => None,
            };
            if let Some(col) = first {
                for item in q.select.iter_mut() {
                    fix(&mut item.0, &col);
                }
                if let Some(h) = q.having.as_mut() {
                    fix(h, &col);
                }
            }
        }
        if !self.cfg.derived_expr_items {
            // replace scalar-expression items by the first column they mention (or drop them)
            fn first_col(e: &E) -> Option<E> {
                match e {
                    E::Col(..) => Some(e.clone()),
                    E::Bin(_, a, b) => first_col(a).or_else(|| first_col(b)),
                    E::Not(a) | E::Neg(a) | E::IsNull(a, _) => first_col(a),
                    E::Case(c, t, e2) => first_col(c).or_else(|| first_col(t)).or_else(|| e2.as_ref().and_then(|x| first_col(x))),
                    E::InList(a, _, _) | E::Between(a, _, _) | E::InSub(a, _, _) => first_col(a),
                    _ => None,
                }
            }
            if q.group_by.is_empty() {
                for item in q.select.iter_mut() {
                    if !matches!(item.0, E::Col(..) | E::Agg(..)) {
                        if let Some(E::Col(a, c, ty)) = first_col(&item.0) {
                            item.1 = ty;
                            item.0 = E::Col(a, c, ty);
                        }
                    }
                }
            } else {
                // group keys: plain columns only (the same replacement in the select list)
                let keys = q.group_by.clone();
                let mut new_keys: Vec<E> = vec![];
                for k in &keys {
                    let nk = if matches!(k, E::Col(..)) { Some(k.clone()) } else { first_col(k) };
                    for item in q.select.iter_mut() {
                        if &item.0 == k {
                            if let Some(E::Col(a, c, ty)) = &nk {
                                item.1 = *ty;
                                item.0 = E::Col(a.clone(), c.clone(), *ty);
                            }
                        }
                    }
                    if let Some(nk) = nk {
                        if !new_keys.contains(&nk) {
                            new_keys.push(nk);
                        }
                    } else {
                        new_keys.push(k.clone());
                    }
                }
                q.group_by = new_keys;
                q.order_by.clear();
                q.order_extra.clear();
            }
        }
        if self.cfg.derived_order && (self.cfg.distinct_complex || !q.distinct) && self.t.chance(2, 5) {
            let i = self.t.pick(q.select.len());
            if self.cfg.distinct_complex || matches!(q.select[i].0, E::Col(..)) {
                q.order_by.push((i, self.t.chance(1, 4)));
                // a second key two times in three (where there is another item)
                if q.select.len() >= 2 && self.t.chance(2, 3) {
                    let j = (i + 1 + self.t.pick(q.select.len() - 1)) % q.select.len();
                    if self.cfg.distinct_complex || matches!(q.select[j].0, E::Col(..)) {
                        q.order_by.push((j, self.t.chance(1, 6)));
                    }
                }
            }
        }
        q
    }
}

/// A single-table query that exercises the storage scan paths: a range on the INT primary key
/// (pushed into the scan on disk), optionally ORDER BY the key (selected or not) and LIMIT/OFFSET.
/// Keys near 0 and near 1000 are used by the callers' tables.
pub fn key_range_query(t: &mut Tape, td: &TableDef) -> Option<Query> {
    let pk = td.cols.iter().find(|c| c.pk && c.ty == Ty::Int)?;
    let alias = "t1".to_string();
    let col = |c: &ColDef| E::Col(alias.clone(), c.name.clone(), c.ty);
    let key = col(pk);
    let lit = |t: &mut Tape| {
        let v = match t.pick(3) {
            0 => t.pick(24) as i64,
            1 => 1000 - t.pick(24) as i64,
            _ => [500i64, -1, 1001, 0, 1000][t.pick(5)],
        };
        E::Lit(Val::Int(v), Ty::Int)
    };
    let ops = [">", ">=", "<", "<=", "="];
    // the range is on the first key column (of a composite key too), or on none
    let mut cond = None;
    if t.chance(3, 4) {
        let mut c = E::Bin(ops[t.pick(5)].into(), Box::new(key.clone()), Box::new(lit(t)));
        if t.chance(1, 2) {
            let c2 = E::Bin(ops[t.pick(4)].into(), Box::new(key.clone()), Box::new(lit(t)));
            c = E::Bin("and".into(), Box::new(c), Box::new(c2));
        }
        cond = Some(c);
    }
    // the sort key: any key column (of a composite key often not the leading one), else any column
    let keys: Vec<&ColDef> = td.cols.iter().filter(|c| c.pk).collect();
    let okey = if t.chance(3, 4) { col(keys[t.pick(keys.len())]) } else { col(&td.cols[t.pick(td.cols.len())]) };
    let okey_ty = td.cols.iter().find(|c| col(c) == okey).map(|c| c.ty).unwrap_or(Ty::Int);
    // select list: a non-empty subset of the columns, in table order
    let mut select: Vec<(E, Ty)> = td.cols.iter().filter(|_| t.chance(1, 2)).map(|c| (col(c), c.ty)).collect();
    if select.is_empty() {
        let c = &td.cols[t.pick(td.cols.len())];
        select.push((col(c), c.ty));
    }
    let mut order_by = vec![];
    let mut order_extra = vec![];
    let (mut limit, mut offset) = (None, None);
    if t.chance(2, 3) {
        let desc = t.chance(1, 3);
        match select.iter().position(|(e, _)| *e == okey) {
            Some(i) => order_by.push((i, desc)),
            None => order_extra.push((okey.clone(), okey_ty, desc)),
        }
        // a second key one time in three (with repeated key values it decides the order)
        if t.chance(1, 3) {
            let c2 = &td.cols[t.pick(td.cols.len())];
            if col(c2) != okey {
                order_extra.push((col(c2), c2.ty, t.chance(1, 2)));
            }
        }
        if t.chance(1, 3) {
            limit = Some([1u64, 2, 3, 5][t.pick(4)]);
        }
        if t.chance(1, 5) {
            offset = Some([1u64, 2, 4][t.pick(3)]);
        }
    }
    Some(Query {
        distinct: false,
        select,
        from: vec![FromItem { source: Source::Table(td.name.clone()), alias, join: None }],
        where_: cond,
        group_by: vec![],
        having: None,
        order_by,
        order_extra,
        limit,
        offset,
    })
}

/// A query that sorts the output of an already sorted derived table again: the inner ORDER BY has
/// two keys (with or without LIMIT), the outer one uses the same columns in the same sequence
/// (control), the reversed sequence, with one direction flipped, only the second key, or the keys
/// plus another column. Whether the outer sort may be dropped, and whether an aggregation or a
/// join above may rely on the inner order, is decided by the optimizer's order analysis.
pub fn reorder_query(t: &mut Tape, td: &TableDef) -> Option<Query> {
    if td.cols.len() < 2 {
        return None;
    }
    let n = td.cols.len();
    let inner_alias = "t1".to_string();
    // inner select: all columns, in table order
    let inner_sel: Vec<(E, Ty)> = td.cols.iter().map(|c| (E::Col(inner_alias.clone(), c.name.clone(), c.ty), c.ty)).collect();
    let k1 = t.pick(n);
    let k2 = (k1 + 1 + t.pick(n - 1)) % n;
    let (d1, d2) = (t.chance(1, 5), t.chance(1, 5));
    let inner = Query {
        distinct: false,
        select: inner_sel,
        from: vec![FromItem { source: Source::Table(td.name.clone()), alias: inner_alias, join: None }],
        where_: None,
        group_by: vec![],
        having: None,
        order_by: vec![(k1, d1), (k2, d2)],
        order_extra: vec![],
        limit: if t.chance(1, 3) { Some([3u64, 6, 100][t.pick(3)]) } else { None },
        offset: None,
    };
    let mut inner = inner;
    if inner.limit.is_some() {
        // which rows pass the LIMIT must not depend on how ties are broken: every other column
        // follows as a further key (rows that tie on all columns are equal)
        for k in 0..n {
            if k != k1 && k != k2 {
                inner.order_by.push((k, false));
            }
        }
    }
    let alias = "d1".to_string();
    let select: Vec<(E, Ty)> = td.cols.iter().enumerate().map(|(i, c)| (E::Col(alias.clone(), format!("x{i}"), c.ty), c.ty)).collect();
    let order_by = match t.pick(6) {
        0 => vec![(k1, d1), (k2, d2)],
        1 | 2 => vec![(k2, d2), (k1, d1)],
        3 => vec![(k1, d1), (k2, !d2)],
        4 => vec![(k2, d2)],
        _ => {
            let k3 = t.pick(n);
            let mut v = vec![(k1, d1), (k2, d2)];
            if k3 != k1 && k3 != k2 {
                v.push((k3, t.chance(1, 2)));
            }
            v
        }
    };
    Some(Query {
        distinct: false,
        select,
        from: vec![FromItem { source: Source::Derived(Box::new(inner)), alias, join: None }],
        where_: None,
        group_by: vec![],
        having: None,
        order_by,
        order_extra: vec![],
        limit: if t.chance(1, 4) { Some([1u64, 2, 5][t.pick(3)]) } else { None },
        offset: None,
    })
}

/// Deliberately ill-formed (C17 only): a computed output column of a derived table used outside any
/// aggregate of an aggregating block without being a GROUP BY key. The binder must reject it; a binder
/// that accepts it plans a projection over an aggregation that does not produce the column.
pub fn ungrouped_derived_expr_query(t: &mut Tape, td: &TableDef) -> Option<Query> {
    let c = td.cols.iter().find(|c| c.ty == Ty::Int)?;
    // (another column: an expression over the group key itself would be a valid statement)
    let others: Vec<&ColDef> = td.cols.iter().filter(|o| o.name != c.name).collect();
    if others.is_empty() {
        return None;
    }
    let other = others[t.pick(others.len())];
    let ia = "t1".to_string();
    let x0 = E::Bin("+".into(), Box::new(E::Col(ia.clone(), c.name.clone(), Ty::Int)), Box::new(E::Lit(Val::Int(1 + t.pick(3) as i64), Ty::Int)));
    let inner = Query {
        distinct: false,
        select: vec![(x0, Ty::Int), (E::Col(ia.clone(), other.name.clone(), other.ty), other.ty)],
        from: vec![FromItem { source: Source::Table(td.name.clone()), alias: ia, join: None }],
        where_: None,
        group_by: vec![],
        having: None,
        order_by: vec![],
        order_extra: vec![],
        limit: None,
        offset: None,
    };
    let d = "d1".to_string();
    let (dx0, dx1) = (E::Col(d.clone(), "x0".into(), Ty::Int), E::Col(d.clone(), "x1".into(), other.ty));
    let count = E::Agg("count".into(), None, false);
    let (select, group_by, having) = match t.pick(4) {
        0 => (vec![(dx0, Ty::Int), (count, Ty::Int)], vec![], None),
        1 => (vec![(E::Bin("+".into(), Box::new(dx0), Box::new(E::Lit(Val::Int(1), Ty::Int))), Ty::Int), (E::Agg("count".into(), Some(Box::new(dx1)), false), Ty::Int)], vec![], None),
        2 => (vec![(count, Ty::Int)], vec![dx1], Some(E::Bin(">".into(), Box::new(dx0), Box::new(E::Lit(Val::Int(1), Ty::Int))))),
        _ => (vec![(dx0, Ty::Int), (count, Ty::Int)], vec![dx1], None),
    };
    Some(Query {
        distinct: false,
        select,
        from: vec![FromItem { source: Source::Derived(Box::new(inner)), alias: d, join: None }],
        where_: None,
        group_by,
        having,
        order_by: vec![],
        order_extra: vec![],
        limit: None,
        offset: None,
    })
}
