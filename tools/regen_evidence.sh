#!/bin/bash
# tools/regen_evidence.sh [ids...]: run the quick tier of every check (or the named ones) against the
# unmodified /repo, so that evidence/<id>.json comes from a clean run; then validate the evidence files.
cd /verif
if [ -n "$(git -C /repo status --porcelain)" ]; then echo "/repo not clean"; exit 2; fi
IDS=${@:-$(python3 -c "import json;print(' '.join(c['property_id'] for c in json.load(open('MANIFEST.json'))['checks']))")}
for p in $IDS; do
  ./check $p quick > /tmp/regen_$p.out 2>&1; rc=$?
  echo "$p exit=$rc $(grep -E "^$p quick:" /tmp/regen_$p.out) $(grep -c '^KNOWN-FINDING' /tmp/regen_$p.out) known $(grep -m1 '^VIOLATION' /tmp/regen_$p.out)"
done
python3-vt - <<'PY'
import json,glob,jsonschema
s=json.load(open('/root/.vp/EVIDENCE.schema.json'))
for f in sorted(glob.glob('/verif/evidence/C*.json')):
    d=json.load(open(f))
    try: jsonschema.validate(d,s)
    except Exception as e: print(f,'INVALID',str(e)[:200]); continue
    c=d['coverage']; print(f.split('/')[-1], d.get('tier'), 'cases', c.get('cases'), 'nontrivial', c.get('distinct_nontrivial'), 'samples', len(c.get('samples',[])), 'violations', d.get('violations'))
PY
