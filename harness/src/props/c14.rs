//! C14 — vectorised expression evaluation equals scalar SQL semantics.
//!
//! Three routes evaluate generated, type-correct scalar expressions on boundary-biased batches and
//! compare every row with a row-at-a-time reference interpreter (`c14_model.rs`):
//!   * `sql`    — `select id, <expr> from t` (+ prefix / single-row sub-batches) on the memory engine;
//!   * `kernel` — the public `ArrayImpl` kernels composed like `executor/evaluator.rs`, on arrays whose
//!                raw slots under NULL are arbitrary, re-randomised, or builder defaults, and row by row;
//!   * `fold`   — the constant instance `select <expr(literals)>` vs the same expression over a
//!                one-row table.
//! The algebraic rewrite rules of `planner/rules/expr.rs` (C01's subject) are switched off through
//! the `verif` hook; constant folding is an e-graph analysis and stays on.
use std::collections::BTreeMap;
use std::panic::AssertUnwindSafe;
use std::str::FromStr;

use bitvec::vec::BitVec;
use proptest::prelude::*;
use risinglight::Database;
use risinglight::array::*;
use risinglight::types::{DataType, DataValue, Date, DateTimeField, F64, Interval};
use rust_decimal::Decimal;
use serde::{Deserialize, Serialize};

use super::c14_gen::*;
use super::c14_model::*;
use crate::engine::*;
use crate::sqlrun::*;

const MAXC: usize = 6;
const KMAXC: usize = 4;

pub fn def() -> PropDef {
    let mut d = def_all();
    // RLV_C14_PARTS=kernel,fold restricts the run to some parts (debugging aid)
    if let Ok(only) = std::env::var("RLV_C14_PARTS") {
        d.parts.retain(|p| only.split(',').any(|n| n == p.name()));
    }
    d
}

fn def_all() -> PropDef {
    PropDef {
        id: "C14",
        level: "exploration",
        rule: "typed expression trees (depth <= 3) over every operator x operand-type combination the type checker \
               accepts and the kernels implement, on batches of 0..200 rows dense around 63/64/65, 127/128/129, \
               191/192/193 with boundary values and per-column NULL densities (none / 20% / 60% / all); a batch case is \
               non-trivial when the operand columns hold both NULL and non-NULL cells and the length is not a multiple \
               of 64, distinct by (root operator, operand types, length class, NULL-density class, route); a fold case \
               is non-trivial when the expression has an operator, distinct by (operator, operand types, outcome)",
        assumptions: vec![
            "the algebraic rewrite rules of planner/rules/expr.rs are disabled (verif hook) so that only evaluation and \
             constant folding are observed; they are C01's subject",
            "fractional -> integer casts truncate toward zero and value -> text casts use the engine's canonical text \
             (both implementation-defined in SQL); mixed numeric operands are promoted to the wider type \
             (smallint < int < bigint < double < decimal)",
            "shapes whose SQL answer is dialect-dependent are not generated: MIN % -1, negative substring lengths and positions before the start of the string \
             (a negative position within the string counts characters from its end, as tests/sql/substring.slt pins it), \
             an error in an unselected CASE branch or behind an absorbing AND/OR operand, NaN/infinite doubles, -0.0 as text",
            "rust_decimal / chrono / std parsing are trusted as scalar libraries; blob, timestamp, vector and interval \
             columns are out of scope",
            "an in-memory table scan delivers the rows of one INSERT as one batch",
        ],
        min_nontrivial: 200,
        parts: vec![
            part("sql", 30_000, 600_000, |ctx| sql_strategy(Sw::from_ctx(ctx)), sql_test),
            part("kernel", 100_000, 2_200_000, |ctx| kernel_strategy(Sw::from_ctx(ctx)), kernel_test),
            part("fold", 35_000, 750_000, |ctx| fold_strategy(Sw::from_ctx(ctx)), fold_test),
        ],
    }
}

// ---------------------------------------------------------------------------------------------
// shared: outcomes, symptoms, signatures

/// What an evaluation route produced for a batch.
enum Got {
    Rows(Vec<Val>),
    Error(String),
    Panic(String),
    Rejected(String),
    /// the result is not one value per input row, in order
    Shape(String),
}

fn msg_class(m: &str) -> String {
    let m = m.rsplit_once(" @ ").map(|x| x.0).unwrap_or(m);
    let m = m.strip_prefix("execute error: ").unwrap_or(m);
    let m = m.strip_prefix("conversion error: ").unwrap_or(m);
    let words: Vec<String> = m
        .split(|c: char| !c.is_ascii_alphanumeric())
        .filter(|w| !w.is_empty() && !w.chars().any(|c| c.is_ascii_digit()))
        .take(8)
        .map(|w| w.to_lowercase())
        .collect();
    words.join("-")
}

/// Compare an outcome with the reference; `None` = agrees. Returns (symptom, message).
fn judge(got: &Got, refs: &[Result<V, RefErr>], novalue: bool) -> Option<(String, String)> {
    let exp_err = refs.iter().find_map(|r| r.as_ref().err().copied());
    match (got, exp_err) {
        (Got::Rejected(m), _) => Some(("rejected".into(), m.clone())),
        (Got::Error(_), Some(_)) => None,
        (Got::Error(m), None) => Some((format!("got-error:{}", msg_class(m)), format!("expected rows, got the error '{m}'"))),
        (Got::Panic(m), Some(k)) => {
            Some((format!("exp-{}:got-panic:{}", k.name(), msg_class(m)), format!("expected an error ({}), got the panic '{m}'", k.name())))
        }
        (Got::Panic(m), None) => Some((format!("got-panic:{}", msg_class(m)), format!("expected rows, got the panic '{m}'"))),
        (Got::Shape(m), _) => Some(("rowset".into(), m.clone())),
        (Got::Rows(_), Some(k)) => {
            let i = refs.iter().position(|r| r.is_err()).unwrap();
            Some((format!("exp-{}:got-rows", k.name()), format!("row {i} must make the statement fail ({}), but rows were returned", k.name())))
        }
        (Got::Rows(rows), None) => {
            if rows.len() != refs.len() {
                return Some(("rowset".into(), format!("expected {} rows, got {}", refs.len(), rows.len())));
            }
            if novalue {
                return None;
            }
            for (i, (g, r)) in rows.iter().zip(refs).enumerate() {
                let want = r.as_ref().unwrap().to_val();
                let g = canon(g);
                if g != want {
                    let s = match (g.is_null(), want.is_null()) {
                        (true, false) => "null-for-value",
                        (false, true) => "value-for-null",
                        _ => "wrong-value",
                    };
                    return Some((s.into(), format!("row {i}: expected {want}, got {g}")));
                }
            }
            None
        }
    }
}

fn overflowish(symptom: &str) -> bool {
    symptom.contains("overflow")
}

fn signature(route: &str, e: &E, tys: &[Ty], symptom: &str) -> String {
    let (op, ts) = e.op_name(tys);
    if overflowish(symptom) { format!("{route}:{op}:{symptom}") } else { format!("{route}:{op}:{ts}:{symptom}") }
}

/// Proper, non-leaf sub-expressions in post-order (candidates for the narrowest failing operator).
fn proper_subs<'a>(e: &'a E, tys: &[Ty]) -> Vec<&'a E> {
    let mut v = vec![];
    e.postorder(&mut v);
    v.pop();
    v.retain(|s| !s.is_leaf() && !matches!(s.ty(tys), Ty::Intv | Ty::Null));
    v
}

/// Pick the failure to report: the first one not attributed to an open finding, else the first.
fn pick_failure(ctx: &Ctx, fails: Vec<Failure>) -> Verdict {
    let mut first = None;
    for f in fails {
        if ctx.known_sig(&f.sig).is_none() {
            return Verdict::Fail(f);
        }
        first.get_or_insert(f);
    }
    first.map(Verdict::Fail).unwrap_or(Verdict::Pass)
}

fn null_class(cols: &[&Vec<V>]) -> (&'static str, bool) {
    let total: usize = cols.iter().map(|c| c.len()).sum();
    let nulls: usize = cols.iter().map(|c| c.iter().filter(|v| v.is_null()).count()).sum();
    let mixed = nulls > 0 && nulls < total;
    let c = if total == 0 || nulls == 0 {
        "nulls-none"
    } else if nulls == total {
        "nulls-all"
    } else if nulls * 4 < total {
        "nulls-under-25%"
    } else if nulls * 4 < total * 3 {
        "nulls-25-75%"
    } else {
        "nulls-over-75%"
    };
    (c, mixed)
}

fn account(st: &mut Stats, route: &str, e: &E, tys: &[Ty], used: &[&Vec<V>], n: usize, refs: &[Result<V, RefErr>]) {
    let (op, ts) = e.op_name(tys);
    let (nc, mixed) = null_class(used);
    st.class(&format!("{route}:op:{op}"));
    st.class(&format!("{route}:{}", len_class(n)));
    st.class(&format!("{route}:{nc}"));
    if refs.iter().any(|r| r.is_err()) {
        st.class(&format!("{route}:batch-with-error-row"));
    } else if refs.iter().any(|r| matches!(r, Ok(V::Null))) && refs.iter().any(|r| !matches!(r, Ok(V::Null))) {
        st.class(&format!("{route}:result-null-and-value"));
    }
    if mixed && n % 64 != 0 {
        st.nontrivial((route.to_string(), op, ts, len_class(n), nc));
    }
}

/// Does any operator of the expression overflow on this row (also below another error)?
fn overflows(e: &E, tys: &[Ty], row: &[V]) -> bool {
    let mut v = vec![];
    e.postorder(&mut v);
    v.iter().any(|s| s.eval(tys, row) == Err(RefErr::Overflow))
}

fn repair_rows(
    tys: &[Ty],
    kinds: &[(Ty, u8)],
    cols: &mut [Vec<V>],
    seeds: &dyn Fn(usize, usize) -> u16,
    modes: &[usize],
    exprs: &[&E],
    allow_err: bool,
    sw: &Sw,
    steered: &mut Vec<String>,
) {
    let n = cols.first().map(|c| c.len()).unwrap_or(0);
    let bad = |row: &[V], steered: &mut Vec<String>| {
        exprs.iter().any(|e| match e.eval(tys, row) {
            Ok(_) => false,
            Err(RefErr::Ambiguous) => true,
            Err(_) if allow_err && !sw.overflow && overflows(e, tys, row) => {
                if !steered.iter().any(|s| s == SWITCHES[0]) {
                    steered.push(SWITCHES[0].into());
                }
                true
            }
            Err(_) => !allow_err,
        })
    };
    for r in 0..n {
        let row: Vec<V> = cols.iter().map(|c| c[r].clone()).collect();
        if !bad(&row, steered) {
            continue;
        }
        let small: Vec<V> =
            (0..cols.len()).map(|i| cell(kinds[i].0, kinds[i].1, Dom::Small, sw, modes[i], seeds(r, i))).collect();
        let fixed = if !bad(&small, steered) {
            small
        } else {
            (0..cols.len()).map(|i| safe_value(kinds[i].0, kinds[i].1, sw)).collect()
        };
        for (i, v) in fixed.into_iter().enumerate() {
            cols[i][r] = v;
        }
    }
}

fn null_mode(f: u16) -> usize {
    match f % 10 {
        0..=4 => 0,
        5 | 6 => 1,
        7 | 8 => 2,
        _ => 3,
    }
}

fn expr_rule_names() -> Vec<String> {
    let sets = risinglight::planner::verif_rule_sets();
    let names = |k: &str| -> Vec<String> {
        sets.iter().filter(|s| s.0 == k).flat_map(|s| s.1.iter().map(|r| r.name.as_str().to_string())).collect()
    };
    let (s1, s2, s3) = (names("stage1"), names("stage2"), names("stage3"));
    s2.into_iter().filter(|n| !s1.contains(n) && !s3.contains(n) && !n.starts_with("vector-index")).collect()
}

// ---------------------------------------------------------------------------------------------
// part "sql"

#[derive(Clone, Debug, Serialize, Deserialize)]
struct SCol {
    ty: Ty,
    kind: u8,
    vals: Vec<V>,
}

#[derive(Clone, Debug, Serialize, Deserialize)]
struct SqlCase {
    cols: Vec<SCol>,
    /// rows of the first INSERT (the rest goes into a second one); 0 or n = a single INSERT
    split: usize,
    exprs: Vec<ExprCase>,
    /// sub-batches: `where id < prefix`, `where id = single`
    prefix: usize,
    single: usize,
    /// also evaluate over `(values ...) as t(id, c0, ...)` instead of the table
    #[serde(default)]
    values: bool,
    steered: Vec<String>,
}

type SeedT = (Vec<u16>, Vec<Vec<u16>>, Vec<Vec<u16>>);

fn sql_strategy(sw: Sw) -> impl Strategy<Value = SqlCase> {
    // rows first: proptest shrinks tuple components in order, and dropping rows helps most
    (
        prop::collection::vec(prop::collection::vec(any::<u16>(), MAXC), 0..=230),
        prop::collection::vec(prop::collection::vec(any::<u16>(), 0..48), 1..=4),
        prop::collection::vec(any::<u16>(), 16),
    )
        .prop_map(move |(rows, streams, flags)| build_sql(&(flags, streams, rows), &sw))
}

fn build_sql(seed: &SeedT, sw: &Sw) -> SqlCase {
    let (flags, streams, rows) = seed;
    let dom = if flags[4] % 2 == 0 { Dom::Small } else { Dom::Extreme };
    let mut g = G::new(&[], sw, dom, vec![], MAXC);
    let mut exprs = vec![];
    for s in streams {
        let mut h = G::new(&s[s.len().min(1)..], sw, dom, std::mem::take(&mut g.cols), MAXC);
        h.steered = std::mem::take(&mut g.steered);
        let probe = s.first().map(|x| *x >= 62_800).unwrap_or(false);
        if probe && sw.unimpl {
            exprs.push(h.probe());
        } else {
            if probe {
                h.steered.push(SWITCHES[3]);
            }
            exprs.push(ExprCase { e: viable_top(&mut h, 3), novalue: false });
        }
        g.cols = h.cols;
        g.steered = h.steered;
    }
    if g.cols.is_empty() {
        g.cols.push((Ty::I32, 0));
    }
    let kinds = g.cols.clone();
    let tys: Vec<Ty> = kinds.iter().map(|c| c.0).collect();
    let n = snap_len(rows.len().min(200), flags[0], flags[1]);
    let modes: Vec<usize> = (0..kinds.len()).map(|i| null_mode(flags[8 + i])).collect();
    let mut cols: Vec<Vec<V>> = (0..kinds.len())
        .map(|i| (0..n).map(|r| cell(kinds[i].0, kinds[i].1, dom, sw, modes[i], rows[r][i])).collect())
        .collect();
    let allow_err = dom == Dom::Extreme && flags[3] % 100 < 40;
    let mut steered: Vec<String> = g.steered.iter().map(|s| s.to_string()).collect();
    let es: Vec<&E> = exprs.iter().map(|x| &x.e).collect();
    repair_rows(&tys, &kinds, &mut cols, &|r, i| rows[r][i], &modes, &es, allow_err, sw, &mut steered);
    let split = if flags[2] % 10 < 6 { 0 } else { (n * flags[6] as usize) >> 16 };
    let mut values = (2..=8).contains(&n) && flags[15] % 2 == 0;
    if values && !sw.values_source {
        values = false;
        steered.push(SWITCHES[9].into());
    }
    SqlCase {
        cols: kinds.iter().zip(cols).map(|(k, vals)| SCol { ty: k.0, kind: k.1, vals }).collect(),
        split,
        exprs,
        prefix: ((n + 1) * flags[7] as usize) >> 16,
        single: (n * flags[5] as usize) >> 16,
        values,
        steered,
    }
}

/// Run `select id, <e> from t [where ...]` and bring the answer into input-row order.
async fn sql_eval(db: &Database, e: &E, filter: &str, ids: &[usize], st: &mut Stats) -> Got {
    let q = format!("select id, {} from t{}", e.sql(), filter);
    take_panics();
    st.eval();
    let out = exec(db, &q).await;
    let panics = take_panics();
    match out {
        Out::Panicked(p) => Got::Panic(p),
        _ if !panics.is_empty() => Got::Panic(panics[0].clone()),
        Out::Rejected(m) => Got::Rejected(m),
        Out::Failed(m) => Got::Error(m),
        Out::Rows(rows) => {
            let mut by_id: BTreeMap<i64, Val> = BTreeMap::new();
            for r in &rows {
                let (Some(Val::Int(id)), Some(v)) = (r.first(), r.get(1)) else {
                    return Got::Shape(format!("malformed row {r:?}"));
                };
                if by_id.insert(*id, v.clone()).is_some() {
                    return Got::Shape(format!("id {id} returned twice"));
                }
            }
            let want: Vec<i64> = ids.iter().map(|i| *i as i64).collect();
            let have: Vec<i64> = by_id.keys().copied().collect();
            if want != have {
                return Got::Shape(format!("expected ids {want:?}, got {have:?}"));
            }
            Got::Rows(by_id.into_values().collect())
        }
    }
}

struct SqlEnv<'a> {
    db: &'a Database,
    tys: Vec<Ty>,
    rows: Vec<Vec<V>>,
}

impl SqlEnv<'_> {
    fn refs(&self, e: &E, ids: &[usize]) -> Vec<Result<V, RefErr>> {
        ids.iter().map(|i| e.eval(&self.tys, &self.rows[*i])).collect()
    }

    async fn check(&self, e: &E, filter: &str, ids: &[usize], novalue: bool, st: &mut Stats) -> Option<(String, String)> {
        let got = sql_eval(self.db, e, filter, ids, st).await;
        judge(&got, &self.refs(e, ids), novalue)
    }

    /// Full check of one expression on one (sub-)batch, with localisation of the failing operator.
    async fn check_localised(&self, x: &ExprCase, filter: &str, ids: &[usize], st: &mut Stats) -> Option<Failure> {
        let (sym, msg) = self.check(&x.e, filter, ids, x.novalue, st).await?;
        let mut blame: (&E, String, String) = (&x.e, sym, msg);
        for s in proper_subs(&x.e, &self.tys) {
            if let Some((sym, msg)) = self.check(s, filter, ids, false, st).await {
                blame = (s, sym, msg);
                break;
            }
        }
        let (e, mut sym, msg) = blame;
        if sym.contains("got-panic") && overflowish(&sym) {
            // does the panic come from rows whose SQL value is NULL (raw slots under NULL)?
            let refs = self.refs(e, ids);
            let keep: Vec<usize> = ids.iter().zip(&refs).filter(|(_, r)| !matches!(r, Ok(V::Null))).map(|(i, _)| *i).collect();
            let f = if keep.is_empty() {
                " where id < 0".to_string()
            } else {
                format!(" where id in ({})", keep.iter().map(|i| i.to_string()).collect::<Vec<_>>().join(", "))
            };
            if keep.len() < ids.len() && self.check(e, &f, &keep, false, st).await.is_none() {
                sym = "overflow-panic-in-null-row".into();
            }
        }
        let sig = signature("sql", e, &self.tys, &sym);
        Some(Failure {
            sig,
            msg: format!("select id, {} from t{filter} ({} rows): {msg} [whole expression: {}]", e.sql(), ids.len(), x.e.sql()),
        })
    }
}

fn sql_test(ctx: &Ctx, case: &SqlCase, st: &mut Stats) -> Verdict {
    for s in &case.steered {
        st.excluded(s);
    }
    let n = case.cols.first().map(|c| c.vals.len()).unwrap_or(0);
    if case.cols.iter().any(|c| c.vals.len() != n) || case.exprs.is_empty() {
        return Verdict::Discard("malformed-case");
    }
    let tys: Vec<Ty> = case.cols.iter().map(|c| c.ty).collect();
    let rows: Vec<Vec<V>> = (0..n).map(|r| case.cols.iter().map(|c| c.vals[r].clone()).collect()).collect();
    risinglight::verif::reset();
    risinglight::verif::set_disabled_rules(expr_rule_names());
    let r = block_on(async {
        let db = Database::new_in_memory();
        let ddl = format!(
            "create table t(id int{})",
            case.cols.iter().enumerate().map(|(i, c)| format!(", c{i} {}", c.ty.sql())).collect::<String>()
        );
        if !exec(&db, &ddl).await.is_ok() {
            return Err("create table failed".to_string());
        }
        let split = if case.split == 0 || case.split >= n { n } else { case.split };
        for (lo, hi) in [(0, split), (split, n)] {
            if lo < hi {
                let vals: Vec<String> = (lo..hi)
                    .map(|r| format!("({r}{})", rows[r].iter().map(|v| format!(", {}", cell_sql(v))).collect::<String>()))
                    .collect();
                let o = exec(&db, &format!("insert into t values {}", vals.join(", "))).await;
                if !o.is_ok() {
                    return Err(format!("insert failed: {}", o.brief()));
                }
            }
        }
        // the batch the expressions will see is the batch that was meant
        let all: Vec<usize> = (0..n).collect();
        let env = SqlEnv { db: &db, tys: tys.clone(), rows: rows.clone() };
        for i in 0..case.cols.len() {
            if let Some((s, m)) = env.check(&E::Col(i), "", &all, false, st).await {
                return Err(format!("read-back of column c{i} differs ({s}): {m}"));
            }
        }
        let mut fails = vec![];
        let pre: Vec<usize> = (0..case.prefix.min(n)).collect();
        let one: Vec<usize> = if n > 0 { vec![case.single.min(n - 1)] } else { vec![] };
        for x in &case.exprs {
            let used = used_cols(&x.e, &case.cols);
            account(st, "sql", &x.e, &tys, &used, n, &env.refs(&x.e, &all));
            let mut f = env.check_localised(x, "", &all, st).await;
            if f.is_none() && pre.len() < n {
                f = env.check_localised(x, &format!(" where id < {}", pre.len()), &pre, st).await;
            }
            if f.is_none() && !one.is_empty() && n > 1 {
                f = env.check_localised(x, &format!(" where id = {}", one[0]), &one, st).await;
            }
            if f.is_none() && case.values && n > 0 {
                // the same batch as a VALUES plan: (proj (list e) (values ...))
                let lits: Vec<String> = (0..n)
                    .map(|r| format!("({r}{})", (0..tys.len()).map(|i| format!(", {}", lit_sql(tys[i], &rows[r][i]))).collect::<String>()))
                    .collect();
                let names: String = (0..tys.len()).map(|i| format!(", c{i}")).collect();
                let q = format!("select id, {} from (values {}) as t(id{names})", x.e.sql(), lits.join(", "));
                take_panics();
                st.eval();
                let out = exec(&db, &q).await;
                let panics = take_panics();
                let got = match out {
                    Out::Panicked(p) => Got::Panic(p),
                    _ if !panics.is_empty() => Got::Panic(panics[0].clone()),
                    Out::Rejected(m) => Got::Rejected(m),
                    Out::Failed(m) => Got::Error(m),
                    Out::Rows(rs) => {
                        if rs.iter().enumerate().all(|(i, r)| r.len() == 2 && r[0] == Val::Int(i as i64)) {
                            Got::Rows(rs.into_iter().map(|mut r| r.pop().unwrap()).collect())
                        } else {
                            Got::Shape(format!("ids are not 0..{n} in order: {}", fmt_rows(&rs)))
                        }
                    }
                };
                if let Some((sym, msg)) = judge(&got, &env.refs(&x.e, &all), x.novalue) {
                    f = Some(Failure { sig: signature("values", &x.e, &tys, &sym), msg: format!("{q}: {msg}") });
                }
            }
            fails.extend(f);
        }
        Ok(fails)
    });
    risinglight::verif::reset();
    match r {
        Err(p) => fail("sql:harness-panic", format!("panic outside a statement: {p}")),
        Ok(Err(m)) => fail("sql:setup", m),
        Ok(Ok(fails)) => {
            if fails.iter().any(|f| f.sig.ends_with(":rejected")) {
                return Verdict::Discard("expression-rejected-by-binder");
            }
            pick_failure(ctx, fails)
        }
    }
}

fn used_cols<'a>(e: &E, cols: &'a [SCol]) -> Vec<&'a Vec<V>> {
    let mut u = vec![];
    e.uses_cols(&mut u);
    u.iter().map(|i| &cols[*i].vals).collect()
}

// ---------------------------------------------------------------------------------------------
// part "kernel"

#[derive(Clone, Debug, Serialize, Deserialize)]
struct KCol {
    ty: Ty,
    kind: u8,
    vals: Vec<V>,
    /// raw slot contents under NULL (two independent fillings)
    raw: Vec<V>,
    raw2: Vec<V>,
}

#[derive(Clone, Debug, Serialize, Deserialize)]
struct KCase {
    cols: Vec<KCol>,
    e: E,
    steered: Vec<String>,
}

fn kernel_strategy(sw: Sw) -> impl Strategy<Value = KCase> {
    (
        prop::collection::vec(prop::collection::vec(any::<u16>(), 3 * KMAXC), 0..=230),
        prop::collection::vec(any::<u16>(), 0..40),
        prop::collection::vec(any::<u16>(), 16),
    )
        .prop_map(move |(rows, stream, flags)| build_kernel(&flags, &stream, &rows, &sw))
}

fn build_kernel(flags: &[u16], stream: &[u16], rows: &[Vec<u16>], sw: &Sw) -> KCase {
    let dom = if flags[4] % 2 == 0 { Dom::Small } else { Dom::Extreme };
    let mut g = G::new(stream, sw, dom, vec![], KMAXC);
    g.dec_text = true;
    let e = viable_top(&mut g, 2 + (flags[9] % 2) as u32);
    if g.cols.is_empty() {
        g.cols.push((Ty::I32, 0));
    }
    let kinds = g.cols.clone();
    let tys: Vec<Ty> = kinds.iter().map(|c| c.0).collect();
    let n = snap_len(rows.len().min(200), flags[0], flags[1]);
    let modes: Vec<usize> = (0..kinds.len()).map(|i| null_mode(flags[10 + i])).collect();
    let mut cols: Vec<Vec<V>> = (0..kinds.len())
        .map(|i| (0..n).map(|r| cell(kinds[i].0, kinds[i].1, dom, sw, modes[i], rows[r][3 * i])).collect())
        .collect();
    let allow_err = dom == Dom::Extreme && flags[3] % 100 < 40;
    let mut steered: Vec<String> = g.steered.iter().map(|s| s.to_string()).collect();
    repair_rows(&tys, &kinds, &mut cols, &|r, i| rows[r][3 * i], &modes, &[&e], allow_err, sw, &mut steered);
    // raw slots: boundary values half of the time, else the batch's own domain
    let rdom = if flags[5] % 2 == 0 { dom } else { Dom::Extreme };
    let raw_of = |i: usize, k: usize| -> Vec<V> {
        (0..n)
            .map(|r| {
                let (t, kind) = kinds[i];
                if t == Ty::Bool && !sw.bool_raw {
                    return V::B(false);
                }
                // text under a NULL slot is arbitrary text; a boolean slot may hold true; a double
                // stays in the batch's own domain (a computed double must still fit a decimal)
                let rd = if t == Ty::F64 { dom } else { rdom };
                value(t, if t == Ty::Str { K_TEXT } else { kind }, rd, sw, rows[r][3 * i + k] as usize)
            })
            .collect()
    };
    if !sw.bool_raw && tys.contains(&Ty::Bool) {
        steered.push(SWITCHES[8].into());
    }
    let cols = kinds
        .iter()
        .enumerate()
        .zip(cols)
        .map(|((i, k), vals)| KCol { ty: k.0, kind: k.1, vals, raw: raw_of(i, 1), raw2: raw_of(i, 2) })
        .collect();
    KCase { cols, e, steered }
}

fn data_type(t: Ty) -> DataType {
    match t {
        Ty::Null => DataType::Null,
        Ty::Bool => DataType::Bool,
        Ty::I16 => DataType::Int16,
        Ty::I32 => DataType::Int32,
        Ty::I64 => DataType::Int64,
        Ty::F64 => DataType::Float64,
        Ty::Dec => DataType::Decimal(None, None),
        Ty::Str => DataType::String,
        Ty::Date => DataType::Date,
        Ty::Intv => DataType::Interval,
    }
}

fn data_value(t: Ty, v: &V) -> DataValue {
    match (t, v) {
        (_, V::Null) => DataValue::Null,
        (_, V::B(b)) => DataValue::Bool(*b),
        (Ty::I16, V::I(i)) => DataValue::Int16(*i as i16),
        (Ty::I32, V::I(i)) => DataValue::Int32(*i as i32),
        (_, V::I(i)) => DataValue::Int64(*i),
        (_, V::F(f)) => DataValue::Float64(F64::from(*f)),
        (_, V::D(_)) => DataValue::Decimal(v.dec()),
        (_, V::S(s)) => DataValue::String(s.as_str().into()),
        (_, V::Dt(d)) => DataValue::Date(Date::new(*d)),
        (_, V::Iv(m, d)) => DataValue::Interval(Interval::from_md(*m, *d)),
    }
}

#[derive(Clone, Copy, PartialEq, Eq, Debug)]
enum Fill {
    Raw,
    Raw2,
    Builder,
}

/// Build the array of a column restricted to `ids`, with the chosen contents under NULL slots.
fn mk_array(c: &KCol, ids: &[usize], fill: Fill) -> ArrayImpl {
    if fill == Fill::Builder {
        let mut b = ArrayBuilderImpl::with_capacity(ids.len(), &data_type(c.ty));
        for i in ids {
            b.push(&data_value(c.ty, &c.vals[*i]));
        }
        return b.finish();
    }
    let valid: BitVec = ids.iter().map(|i| !c.vals[*i].is_null()).collect();
    let slot = |i: &usize| -> &V {
        if c.vals[*i].is_null() { if fill == Fill::Raw { &c.raw[*i] } else { &c.raw2[*i] } } else { &c.vals[*i] }
    };
    let int = |v: &V| match v {
        V::I(i) => *i,
        _ => 0,
    };
    match c.ty {
        Ty::Bool => ArrayImpl::new_bool(BoolArray::from_data(ids.iter().map(|i| matches!(slot(i), V::B(true))), valid)),
        Ty::I16 => ArrayImpl::new_int16(I16Array::from_data(ids.iter().map(|i| int(slot(i)) as i16), valid)),
        Ty::I32 => ArrayImpl::new_int32(I32Array::from_data(ids.iter().map(|i| int(slot(i)) as i32), valid)),
        Ty::I64 => ArrayImpl::new_int64(I64Array::from_data(ids.iter().map(|i| int(slot(i))), valid)),
        Ty::F64 => ArrayImpl::new_float64(F64Array::from_data(
            ids.iter().map(|i| match slot(i) {
                V::F(f) => F64::from(*f),
                _ => F64::from(0.0),
            }),
            valid,
        )),
        Ty::Dec => ArrayImpl::new_decimal(DecimalArray::from_data(
            ids.iter().map(|i| match slot(i) {
                v @ V::D(_) => v.dec(),
                _ => Decimal::ZERO,
            }),
            valid,
        )),
        Ty::Str => ArrayImpl::new_string(StringArray::from_data(
            ids.iter().map(|i| match slot(i) {
                V::S(s) => s.clone(),
                _ => String::new(),
            }),
            valid,
        )),
        Ty::Date => ArrayImpl::new_date(DateArray::from_data(
            ids.iter().map(|i| match slot(i) {
                V::Dt(d) => Date::new(*d),
                _ => Date::new(0),
            }),
            valid,
        )),
        _ => unreachable!("no columns of this type"),
    }
}

fn const_array(t: Ty, v: &V, n: usize) -> ArrayImpl {
    let dv = data_value(t, v);
    let mut b = ArrayBuilderImpl::with_capacity(n, &if v.is_null() { data_type(t) } else { dv.data_type() });
    b.push_n(n, &dv);
    b.finish()
}

type KRes = Result<ArrayImpl, String>;

/// The expression evaluated with the public kernels, composed the way `Evaluator::eval` does it.
fn keval(e: &E, arrays: &[ArrayImpl], tys: &[Ty], n: usize) -> KRes {
    let ev = |x: &E| keval(x, arrays, tys, n);
    let er = |r: Result<ArrayImpl, risinglight::types::ConvertError>| r.map_err(|e| e.to_string());
    match e {
        E::Col(i) => Ok(arrays[*i].clone()),
        E::Lit(t, v) => Ok(const_array(*t, v, n)),
        E::RawNull => Ok(const_array(Ty::Null, &V::Null, n)),
        E::Un(Uop::Neg, a) => er(ev(a)?.neg()),
        E::Un(Uop::Not, a) => er(ev(a)?.not()),
        E::Un(op, a) => {
            let isnull = ArrayImpl::new_bool(ev(a)?.get_valid_bitmap().iter().map(|v| !*v).collect());
            if *op == Uop::IsNull { Ok(isnull) } else { er(isnull.not()) }
        }
        E::Bin(op, a, b) => {
            let (x, y) = (ev(a)?, ev(b)?);
            er(match op {
                Bop::Add => x.add(&y),
                Bop::Sub => x.sub(&y),
                Bop::Mul => x.mul(&y),
                Bop::Div => x.div(&y),
                Bop::Rem => x.rem(&y),
                Bop::Eq => x.eq(&y),
                Bop::Ne => x.ne(&y),
                Bop::Lt => x.lt(&y),
                Bop::Le => x.le(&y),
                Bop::Gt => x.gt(&y),
                Bop::Ge => x.ge(&y),
                Bop::And => x.and(&y),
                Bop::Or => x.or(&y),
                Bop::Concat => x.concat(&y),
                Bop::Xor => return Err("no xor kernel".into()),
            })
        }
        E::Cast(t, a) => er(ev(a)?.cast(&data_type(*t))),
        E::Case(c, a, b) => {
            let (c, a) = (ev(c)?, ev(a)?);
            let b = match b {
                Some(b) => ev(b)?,
                // the binder writes a missing ELSE as cast(NULL as T)
                None => er(const_array(Ty::Null, &V::Null, n).cast(&data_type(e.ty(tys))))?,
            };
            er(c.select(&a, &b))
        }
        E::In(a, l, neg) => {
            let x = ev(a)?;
            let mut acc: Option<ArrayImpl> = None;
            for v in l {
                let eq = er(x.eq(&ev(v)?))?;
                acc = Some(match acc {
                    None => eq,
                    Some(p) => er(p.or(&eq))?,
                });
            }
            let r = acc.ok_or("empty IN list")?;
            if *neg { er(r.not()) } else { Ok(r) }
        }
        E::Like(a, p, neg) => {
            let r = er(ev(a)?.like(p))?;
            if *neg { er(r.not()) } else { Ok(r) }
        }
        E::Between(a, lo, hi, neg) => {
            let x = ev(a)?;
            let r = er(er(x.ge(&ev(lo)?))?.and(&er(x.le(&ev(hi)?))?))?;
            if *neg { er(r.not()) } else { Ok(r) }
        }
        E::Substr(a, f, l) => {
            let s = ev(a)?;
            let f = match f {
                Some(f) => ev(f)?,
                None => const_array(Ty::I32, &V::I(1), n),
            };
            let l = match l {
                Some(l) => ev(l)?,
                None => const_array(Ty::I32, &V::I(i32::MAX as i64), n),
            };
            er(s.substring(&f, &l))
        }
        E::Replace(a, f, t) => er(ev(a)?.replace(f, t)),
        E::Repeat(a, k) => er(ev(a)?.repeat(&ev(k)?)),
        E::Extract(f, a) => {
            let field = DateTimeField::from_str(&format!("{f:?}").to_uppercase()).map_err(|_| "bad field".to_string())?;
            er(ev(a)?.extract(&field))
        }
    }
}

struct KEnv<'a> {
    case: &'a KCase,
    tys: Vec<Ty>,
}

impl KEnv<'_> {
    fn row(&self, i: usize) -> Vec<V> {
        self.case.cols.iter().map(|c| c.vals[i].clone()).collect()
    }
    fn refs(&self, e: &E, ids: &[usize]) -> Vec<Result<V, RefErr>> {
        ids.iter().map(|i| e.eval(&self.tys, &self.row(*i))).collect()
    }
    fn run(&self, e: &E, ids: &[usize], fill: Fill, st: &mut Stats) -> Got {
        let arrays: Vec<ArrayImpl> = self.case.cols.iter().map(|c| mk_array(c, ids, fill)).collect();
        st.eval();
        take_panics();
        let r = std::panic::catch_unwind(AssertUnwindSafe(|| keval(e, &arrays, &self.tys, ids.len())));
        let panics = take_panics();
        match r {
            Err(_) => Got::Panic(panics.last().cloned().unwrap_or_else(|| "panic".into())),
            Ok(Err(m)) => Got::Error(m),
            Ok(Ok(a)) => {
                if a.len() != ids.len() {
                    return Got::Shape(format!("result array has {} slots for {} rows", a.len(), ids.len()));
                }
                Got::Rows(a.iter().map(|v| Val::from_dv(&v)).collect())
            }
        }
    }
    fn check(&self, e: &E, ids: &[usize], fill: Fill, st: &mut Stats) -> Option<(String, String)> {
        judge(&self.run(e, ids, fill, st), &self.refs(e, ids), false)
    }
    fn check_localised(&self, ids: &[usize], fill: Fill, st: &mut Stats) -> Option<Failure> {
        let root = &self.case.e;
        let (sym, msg) = self.check(root, ids, fill, st)?;
        let mut blame = (root, sym, msg);
        for s in proper_subs(root, &self.tys) {
            if let Some((sym, msg)) = self.check(s, ids, fill, st) {
                blame = (s, sym, msg);
                break;
            }
        }
        let (e, mut sym, msg) = blame;
        if sym.contains("got-panic") && overflowish(&sym) {
            let refs = self.refs(e, ids);
            let keep: Vec<usize> = ids.iter().zip(&refs).filter(|(_, r)| !matches!(r, Ok(V::Null))).map(|(i, _)| *i).collect();
            if keep.len() < ids.len() && self.check(e, &keep, fill, st).is_none() {
                sym = "overflow-panic-in-null-row".into();
            }
        }
        Some(Failure {
            sig: signature("kernel", e, &self.tys, &sym),
            msg: format!(
                "{} on {} rows (slots under NULL: {fill:?}): {msg} [whole expression: {}]",
                e.sql(),
                ids.len(),
                root.sql()
            ),
        })
    }
}

fn kernel_test(ctx: &Ctx, case: &KCase, st: &mut Stats) -> Verdict {
    for s in &case.steered {
        st.excluded(s);
    }
    let n = case.cols.first().map(|c| c.vals.len()).unwrap_or(0);
    if case.cols.iter().any(|c| c.vals.len() != n || c.raw.len() != n || c.raw2.len() != n) {
        return Verdict::Discard("malformed-case");
    }
    let env = KEnv { case, tys: case.cols.iter().map(|c| c.ty).collect() };
    let all: Vec<usize> = (0..n).collect();
    let mut u = vec![];
    case.e.uses_cols(&mut u);
    let used: Vec<&Vec<V>> = u.iter().map(|i| &case.cols[*i].vals).collect();
    account(st, "kernel", &case.e, &env.tys, &used, n, &env.refs(&case.e, &all));
    let mut fails = vec![];
    // the batch under three fillings of the NULL slots
    for fill in [Fill::Raw, Fill::Raw2, Fill::Builder] {
        if let Some(f) = env.check_localised(&all, fill, st) {
            fails.push(f);
            break;
        }
    }
    // the batch equals the concatenation of its one-row batches (and of its two halves)
    if fails.is_empty() && n > 1 {
        let mut picks: Vec<usize> = if n <= 12 { all.clone() } else { vec![0, 1, 62, 63, 64, 65, 126, 127, 128, 129, n - 2, n - 1] };
        picks.retain(|i| *i < n);
        picks.dedup();
        for i in picks {
            if let Some(f) = env.check_localised(&[i], Fill::Raw, st) {
                fails.push(f);
                break;
            }
        }
        if fails.is_empty() {
            let h = n / 2;
            for ids in [&all[..h], &all[h..]] {
                if let Some(f) = env.check_localised(ids, Fill::Raw2, st) {
                    fails.push(f);
                    break;
                }
            }
        }
    }
    pick_failure(ctx, fails)
}

// ---------------------------------------------------------------------------------------------
// part "fold"

#[derive(Clone, Debug, Serialize, Deserialize)]
struct FCase {
    cols: Vec<(Ty, u8, V)>,
    e: E,
    /// bit 0: a NULL operand of arithmetic / comparison is the bare literal NULL; bit 1: of AND / OR
    untyped: u8,
    steered: Vec<String>,
}

fn fold_strategy(sw: Sw) -> impl Strategy<Value = FCase> {
    (prop::collection::vec(any::<u16>(), 0..40), prop::collection::vec(any::<u16>(), 16))
        .prop_map(move |(stream, flags)| build_fold(&flags, &stream, &sw))
}

fn build_fold(flags: &[u16], stream: &[u16], sw: &Sw) -> FCase {
    let dom = if flags[4] % 2 == 0 { Dom::Small } else { Dom::Extreme };
    let mut g = G::new(stream, sw, dom, vec![], MAXC);
    let e = viable_top(&mut g, 3);
    let kinds = g.cols.clone();
    let tys: Vec<Ty> = kinds.iter().map(|c| c.0).collect();
    let mut steered: Vec<String> = g.steered.iter().map(|s| s.to_string()).collect();
    let mut untyped = (flags[5] % 4) as u8;
    if untyped & 2 != 0 && !sw.fold_untyped_null_logic {
        untyped &= 1;
        steered.push(SWITCHES[7].into());
    }
    if untyped != 0 && !sw.unimpl {
        // an untyped NULL operand reaches a kernel whenever the other operand is not folded
        untyped = 0;
        steered.push(SWITCHES[3].into());
    }
    let mut ok = |vals: &[V]| {
        if !sw.const_null_sub && has_null_const_sub(&e.subst(&tys, vals, untyped), &[], true) {
            steered.push(SWITCHES[6].into());
            return false;
        }
        match e.eval(&tys, vals) {
            Err(RefErr::Ambiguous) => false,
            Err(_) if !sw.overflow && overflows(&e, &tys, vals) => {
                steered.push(SWITCHES[0].into());
                false
            }
            _ => true,
        }
    };
    let cands = [
        (0..kinds.len()).map(|i| cell(kinds[i].0, kinds[i].1, dom, sw, 0, flags[8 + i])).collect::<Vec<V>>(),
        (0..kinds.len()).map(|i| cell(kinds[i].0, kinds[i].1, Dom::Small, sw, 1, flags[8 + i])).collect(),
        kinds.iter().map(|k| safe_value(k.0, k.1, sw)).collect(),
    ];
    let Some(vals) = cands.into_iter().find(|v| ok(v)) else {
        let e = E::Bin(Bop::Add, E::Col(0).b(), E::Lit(Ty::I32, V::I(1)).b());
        return FCase { cols: vec![(Ty::I32, 0, V::I(1))], e, untyped: 0, steered };
    };
    steered.sort();
    steered.dedup();
    FCase { cols: kinds.iter().zip(vals).map(|(k, v)| (k.0, k.1, v)).collect(), e, untyped, steered }
}

/// `select <constant expression>`: one row, one value.
async fn const_eval(db: &Database, e: &E, st: &mut Stats) -> Got {
    take_panics();
    st.eval();
    let out = exec(db, &format!("select {}", e.sql())).await;
    let panics = take_panics();
    match out {
        Out::Panicked(p) => Got::Panic(p),
        _ if !panics.is_empty() => Got::Panic(panics[0].clone()),
        Out::Rejected(m) => Got::Rejected(m),
        Out::Failed(m) => Got::Error(m),
        Out::Rows(rows) => {
            if rows.len() == 1 && rows[0].len() == 1 {
                Got::Rows(vec![rows[0][0].clone()])
            } else {
                Got::Shape(format!("expected one row with one value, got {}", fmt_rows(&rows)))
            }
        }
    }
}

fn fold_test(ctx: &Ctx, case: &FCase, st: &mut Stats) -> Verdict {
    for s in &case.steered {
        st.excluded(s);
    }
    let tys: Vec<Ty> = case.cols.iter().map(|c| c.0).collect();
    let row: Vec<V> = case.cols.iter().map(|c| c.2.clone()).collect();
    let ce = case.e.subst(&tys, &row, case.untyped);
    let want = case.e.eval(&tys, &row);
    let (op, ts) = case.e.op_name(&tys);
    st.class(&format!("fold:op:{op}"));
    let outcome = match &want {
        Ok(V::Null) => "null",
        Ok(_) => "value",
        Err(_) => "error",
    };
    st.class(&format!("fold:outcome-{outcome}"));
    if !case.e.is_leaf() {
        st.nontrivial(("fold", op, ts, outcome));
    }
    risinglight::verif::reset();
    risinglight::verif::set_disabled_rules(expr_rule_names());
    let r = block_on(async {
        let db = Database::new_in_memory();
        let mut fails: Vec<Failure> = vec![];
        // (a) folded at plan time
        let got = const_eval(&db, &ce, st).await;
        if let Some((sym, msg)) = judge(&got, std::slice::from_ref(&want), false) {
            let mut blame = (&ce, sym, msg);
            for s in proper_subs(&ce, &[]) {
                let g = const_eval(&db, s, st).await;
                if let Some((sym, msg)) = judge(&g, &[s.eval(&[], &[])], false) {
                    blame = (s, sym, msg);
                    break;
                }
            }
            let (e, mut sym, msg) = blame;
            if sym.contains("got-panic") && overflowish(&sym) && e.eval(&[], &[]) == Ok(V::Null) {
                sym = "overflow-panic-in-null-row".into();
            }
            fails.push(Failure {
                sig: signature("fold", e, &[], &sym),
                msg: format!("select {}: {msg} [whole expression: {}]", e.sql(), ce.sql()),
            });
        }
        // (b) evaluated at run time over a one-row table
        if !case.cols.is_empty() {
            let ddl = format!(
                "create table t(id int{})",
                case.cols.iter().enumerate().map(|(i, c)| format!(", c{i} {}", c.0.sql())).collect::<String>()
            );
            let ins = format!("insert into t values (0{})", row.iter().map(|v| format!(", {}", cell_sql(v))).collect::<String>());
            if !exec(&db, &ddl).await.is_ok() || !exec(&db, &ins).await.is_ok() {
                return Err("setup of the one-row table failed".to_string());
            }
            let env = SqlEnv { db: &db, tys: tys.clone(), rows: vec![row.clone()] };
            let x = ExprCase { e: case.e.clone(), novalue: false };
            fails.extend(env.check_localised(&x, "", &[0], st).await);
        }
        Ok(fails)
    });
    risinglight::verif::reset();
    match r {
        Err(p) => fail("fold:harness-panic", format!("panic outside a statement: {p}")),
        Ok(Err(m)) => fail("fold:setup", m),
        Ok(Ok(fails)) => {
            if fails.iter().any(|f| f.sig.ends_with(":rejected")) {
                return Verdict::Discard("expression-rejected-by-binder");
            }
            pick_failure(ctx, fails)
        }
    }
}
