#!/bin/bash
# tools/confirm_seeded.sh <seeded/dir>: confirm a seeded change in a scratch worktree:
#  (1) compiles with and without feature verif, (2) the existing suite passes with it,
#  (3) its demonstration fails with it and passes without it. Writes <dir>/confirm.json.
D=$(cd "$1" && pwd)
WT=/tmp/confirm_wt
export CARGO_NET_OFFLINE=true
if [ ! -d $WT ]; then git -C /repo worktree add --detach $WT HEAD >/dev/null 2>&1; fi
git -C $WT reset -q --hard; git -C $WT clean -fdq tests/ ; git -C $WT checkout -q --detach $(git -C /repo rev-parse HEAD)
cd $WT
name=demo_$(basename $D | tr '-' '_')
cp $D/demo.rs tests/$name.rs
FEAT=""; if grep -q "verif" $D/demo.rs; then FEAT="--features verif"; fi
# without the change: demo must pass
timeout 3000 cargo nextest run --offline $FEAT --test $name > $D/confirm_demo_without.log 2>&1; demo_without=$?
git apply $D/patch.diff || { echo '{"applies": false}' > $D/confirm.json; exit 1; }
timeout 1200 cargo check --offline > /dev/null 2>&1; chk1=$?
timeout 1200 cargo check --offline --features verif > /dev/null 2>&1; chk2=$?
timeout 3600 cargo nextest run --workspace --no-fail-fast --test-threads 8 --offline $FEAT > $D/confirm_suite_with.log 2>&1
summary=$(grep -E "^\s+Summary" $D/confirm_suite_with.log | tail -1)
failed=$(grep -E "^\s+FAIL " $D/confirm_suite_with.log | sed 's/.*\] *//' | sort -u | tr '\n' ';')
git -C $WT reset -q --hard; git -C $WT clean -fdq tests/
python3 - <<PY
import json
json.dump({"applies": True, "demo_without_change_exit": $demo_without, "cargo_check_exit": $chk1, "cargo_check_verif_exit": $chk2,
  "suite_with_change_summary": """$summary""".strip(), "failing_tests_with_change": """$failed""".strip(';').split(';') if """$failed""" else []},
  open("$D/confirm.json","w"), indent=1)
PY
cat $D/confirm.json
