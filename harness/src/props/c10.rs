//! C10 — concurrent sessions behave like some serial order.
//!
//! k sessions share one `Arc<Database>` (disk engine, real directory). Part `gates`: the sessions
//! are tasks on a current-thread, paused-clock runtime and a scheduler owned by the check
//! interleaves them at the engine's named yield points (deterministic; the schedule is part of the
//! case). Part `threads`: a real 4-thread runtime, no gates, the workload runs on `reps` databases
//! at once.
//! Oracle: serial-order search against a sequential model (see `c10_model.rs`), no panic, no
//! proved deadlock, shutdown + reopen shows the same state.

use std::collections::{BTreeSet, HashMap};
use std::future::Future;
use std::panic::AssertUnwindSafe;
use std::sync::atomic::{AtomicU64, Ordering};
use std::sync::{Arc, Mutex};

use proptest::prelude::*;
use serde::{Deserialize, Serialize};
use tokio::sync::oneshot;

use super::c10_model::*;
use crate::engine::*;
use crate::sqlrun::*;

#[derive(Clone, Debug, Serialize, Deserialize)]
pub struct GateCase {
    pub w: Workload,
    /// scheduler decisions: at every quiescent point, `choices[i] % (number of enabled actions)`
    /// over [release parked task 0..p (sorted by session, gate), start next statement of session ..];
    /// an exhausted vector means 0 (run the oldest parked session on, else start the first session)
    pub choices: Vec<u8>,
}

#[derive(Clone, Debug, Serialize, Deserialize)]
pub struct MtCase {
    pub w: Workload,
    /// the workload is executed this many times (the run is not deterministic)
    pub reps: u32,
}

// ---------------------------------------------------------------------------------------------
// generators

fn stmt_strategy() -> impl Strategy<Value = Stmt> {
    // table 0 is preferred so that same-name races are frequent
    let table = prop_oneof![3 => Just(0u8), 1 => Just(1u8)];
    (0u32..12, table, 1i32..=3).prop_map(|(k, t, v)| match k {
        0..=1 => Stmt::Create(t),
        2..=3 => Stmt::Drop(t),
        4..=6 => Stmt::Insert(t, v),
        7 => Stmt::DeleteEq(t, v),
        8..=9 => Stmt::DeleteAll(t),
        _ => Stmt::Count(t),
    })
}

fn workload_strategy() -> impl Strategy<Value = Workload> {
    let init = prop::collection::vec(prop::option::weighted(0.8, prop::collection::vec(1i32..=3, 0..=2)), NT..=NT);
    let sessions = prop::collection::vec(prop::collection::vec(stmt_strategy(), 1..=4), 2..=3);
    (init, sessions).prop_map(|(mut init, sessions)| {
        init.iter_mut().flatten().for_each(|r| r.sort());
        Workload { init, sessions }
    })
}

fn gate_strategy() -> impl Strategy<Value = GateCase> {
    (workload_strategy(), prop::collection::vec(any::<u8>(), 0..160)).prop_map(|(w, choices)| GateCase { w, choices })
}

fn mt_strategy() -> impl Strategy<Value = MtCase> {
    workload_strategy().prop_map(|w| MtCase { w, reps: 40 })
}

/// Pairs of statement kinds that the open findings forbid to overlap: on one table name
/// (switch `c10.overlap.<pair>`), or whatever their tables (`c10.overlap-any-table.<pair>`);
/// `c10.<part>.overlap…` restricts a switch to one part.
#[derive(Clone, Default)]
struct Excl {
    same: Vec<(Kind, Kind)>,
    any: Vec<(Kind, Kind)>,
}

fn excluded_pairs(ctx: &Ctx, part: &str) -> Excl {
    let off = |scope: &str, p: &(Kind, Kind)| ctx.off(&format!("c10.{scope}.{}", pair_name(*p))) || ctx.off(&format!("c10.{part}.{scope}.{}", pair_name(*p)));
    Excl {
        same: all_pairs().into_iter().filter(|p| off("overlap", p)).collect(),
        any: all_pairs().into_iter().filter(|p| off("overlap-any-table", p)).collect(),
    }
}

impl Excl {
    /// The switch (without prefix) that forbids (kind `a` on table `ta`) to overlap (`b`, `tb`).
    fn conflict(&self, a: Kind, ta: usize, b: Kind, tb: usize) -> Option<String> {
        let p = mk_pair(a, b);
        if self.any.contains(&p) {
            Some(format!("overlap-any-table.{}", pair_name(p)))
        } else if ta == tb && self.same.contains(&p) {
            Some(format!("overlap.{}", pair_name(p)))
        } else {
            None
        }
    }
}

// ---------------------------------------------------------------------------------------------
// what a run shows

#[derive(Default, Debug)]
struct Obs {
    outs: Vec<Vec<Outc>>,
    /// (sequence number at start, at finish) of every started statement
    spans: Vec<Vec<(u64, u64)>>,
    /// (kinds of the stuck statements, description)
    deadlock: Option<(String, String)>,
    panics: Vec<String>,
    final1: Option<Result<Model, String>>,
    shutdown1: Option<Result<(), String>>,
    reopen: Option<Result<Model, String>>,
    reopen_panic: Option<String>,
    trace: Vec<String>,
    steered: BTreeSet<String>,
    compaction_overlapped: bool,
    prelude_perturbed: bool,
    stuck_ticks: u32,
    leftover: Vec<String>,
}

fn outc(o: Out) -> Outc {
    match o {
        Out::Rows(r) => match r.first().and_then(|x| x.first()) {
            Some(Val::Int(i)) if r.len() == 1 => Outc::Ok(*i),
            _ => Outc::NoRow(fmt_rows(&r)),
        },
        Out::Rejected(e) => Outc::Err(format!("rejected: {}", e.lines().next().unwrap_or(""))),
        Out::Failed(e) => Outc::Err(format!("failed: {}", e.lines().next().unwrap_or(""))),
        Out::Panicked(p) => Outc::Panicked(p),
    }
}

/// Catalog and contents as a client sees them: per pool name, absent or the multiset of values.
async fn read_state(db: &risinglight::Database) -> Result<Model, String> {
    let mut m = vec![];
    for n in 0..NT {
        let sql = format!("select a from t{n}");
        match exec(db, &sql).await {
            Out::Rows(rows) => {
                let mut v = vec![];
                for r in rows {
                    match r.first() {
                        Some(Val::Int(i)) => v.push(*i as i32),
                        x => return Err(format!("`{sql}` returned the value {x:?}")),
                    }
                }
                v.sort();
                m.push(Some(v));
            }
            Out::Rejected(_) => m.push(None),
            o => return Err(format!("`{sql}` -> {}", o.brief())),
        }
    }
    Ok(m)
}

/// (`one_rowset`: all rows of a table in one INSERT, so that the table has a single row-set and
/// the open-time compaction pass, which runs concurrently under the real clock, finds no work.)
async fn prelude(db: &risinglight::Database, w: &Workload, one_rowset: bool) -> Result<(), String> {
    for (n, t) in w.init.iter().enumerate() {
        let Some(rows) = t else { continue };
        let mut sqls = vec![format!("create table t{n}(a int)")];
        if one_rowset && !rows.is_empty() {
            let vals: Vec<String> = rows.iter().map(|v| format!("({v})")).collect();
            sqls.push(format!("insert into t{n} values {}", vals.join(", ")));
        } else {
            sqls.extend(rows.iter().map(|v| format!("insert into t{n} values ({v})")));
        }
        for s in sqls {
            match exec(db, &s).await {
                Out::Rows(_) => {}
                o => return Err(format!("setup statement `{s}` -> {}", o.brief())),
            }
        }
    }
    Ok(())
}

/// After the sessions: final state, shutdown, reopen, state again.
/// (`last_shutdown`: under the real clock a shutdown waits up to 1 s for the compactor's sleep;
/// the reopened database of part `threads` is dropped with its runtime instead.)
async fn epilogue(db: Arc<risinglight::Database>, path: &std::path::Path, obs: &mut Obs, last_shutdown: bool) {
    obs.final1 = Some(read_state(&db).await);
    obs.shutdown1 = Some(shutdown(&db).await);
    drop(db);
    match open_disk(&DiskCfg::small(), path).await {
        Ok(db2) => {
            obs.reopen = Some(read_state(&db2).await);
            if last_shutdown {
                let _ = shutdown(&db2).await;
            }
        }
        Err(p) => obs.reopen_panic = Some(p),
    }
}

// ---------------------------------------------------------------------------------------------
// part `gates`: the scheduler

struct Parked {
    sess: usize,
    gate: String,
    tx: oneshot::Sender<()>,
}

#[derive(Default)]
struct Shared {
    /// tokio task -> session (the session task and, through the spawn callback, every task
    /// spawned on its behalf: the operator tasks of its statements)
    task_sess: HashMap<tokio::task::Id, usize>,
    parked: Vec<Parked>,
    start_tx: Vec<Option<oneshot::Sender<()>>>,
    inflight: Vec<Option<usize>>,
    done: Vec<bool>,
    outs: Vec<Vec<Outc>>,
    spans: Vec<Vec<(u64, u64)>>,
    seq: u64,
    trace: Vec<String>,
}

type Sh = Arc<Mutex<Shared>>;

/// `sqlrun::block_on` plus a spawn callback that attributes spawned tasks to sessions.
fn block_on_sched<F: Future>(sh: &Sh, f: F) -> Result<F::Output, String> {
    let sh2 = sh.clone();
    let rt = tokio::runtime::Builder::new_current_thread()
        .enable_all()
        .start_paused(true)
        .on_task_spawn(move |meta| {
            if let Some(parent) = tokio::task::try_id() {
                let mut g = sh2.lock().unwrap();
                if let Some(s) = g.task_sess.get(&parent).copied() {
                    g.task_sess.insert(meta.id(), s);
                }
            }
        })
        .build()
        .unwrap();
    let r = std::panic::catch_unwind(AssertUnwindSafe(|| rt.block_on(f)));
    risinglight::verif::reset();
    {
        // let parked tasks go so that the runtime can be torn down
        let mut g = sh.lock().unwrap();
        g.parked.clear();
        g.start_tx.clear();
    }
    rt.shutdown_timeout(std::time::Duration::from_secs(5));
    r.map_err(|_| take_panics().last().cloned().unwrap_or_else(|| "panic".into()))
}

/// Wait until nothing can run: no runnable task, no blocking file operation in flight.
async fn quiesce() {
    let m = tokio::runtime::Handle::current().metrics();
    let mut calm = 0;
    loop {
        tokio::task::yield_now().await;
        // the blocking pool first: a finishing blocking operation queues its waker before its
        // thread turns idle, so the queues are read after the pool was seen idle
        let pool_idle = m.blocking_queue_depth() == 0 && m.num_blocking_threads() == m.num_idle_blocking_threads();
        let queues_empty = m.global_queue_depth() == 0 && m.worker_local_queue_depth(0) == 0;
        if pool_idle && queues_empty {
            calm += 1;
            if calm >= 2 {
                return;
            }
        } else {
            calm = 0;
            if !pool_idle {
                std::thread::sleep(std::time::Duration::from_micros(20));
            }
        }
    }
}

fn install_gate(sh: &Sh) {
    let sh = sh.clone();
    risinglight::verif::set_gate(Some(Arc::new(move |name: &str| {
        // the compactor and vacuum tasks (and the harness itself) are not sessions: pass
        let sess = tokio::task::try_id().and_then(|id| sh.lock().unwrap().task_sess.get(&id).copied());
        let (name, sh) = (name.to_string(), sh.clone());
        Box::pin(async move {
            let Some(sess) = sess else { return };
            let (tx, rx) = oneshot::channel();
            {
                let mut g = sh.lock().unwrap();
                g.trace.push(format!("  s{sess} parks at {name}"));
                g.parked.push(Parked { sess, gate: name, tx });
            }
            let _ = rx.await;
        })
    })));
}

async fn session(sh: Sh, db: Arc<risinglight::Database>, s: usize, stmts: Vec<Stmt>) {
    for (i, stmt) in stmts.iter().enumerate() {
        let (tx, rx) = oneshot::channel();
        sh.lock().unwrap().start_tx[s] = Some(tx);
        if rx.await.is_err() {
            return;
        }
        {
            let mut g = sh.lock().unwrap();
            g.seq += 1;
            let q = g.seq;
            g.spans[s].push((q, u64::MAX));
            g.inflight[s] = Some(i);
            g.trace.push(format!("s{s}#{i} starts: {}", stmt.sql()));
        }
        let out = outc(exec(&db, &stmt.sql()).await);
        let mut g = sh.lock().unwrap();
        g.seq += 1;
        g.spans[s][i].1 = g.seq;
        g.inflight[s] = None;
        g.trace.push(format!("s{s}#{i} ends: {out:?}"));
        g.outs[s].push(out);
    }
    sh.lock().unwrap().done[s] = true;
}

fn run_gates(ctx: &Ctx, case: &GateCase, excl: &Excl) -> Result<Result<Obs, String>, String> {
    let k = case.w.sessions.len();
    let sh: Sh = Arc::new(Mutex::new(Shared {
        start_tx: (0..k).map(|_| None).collect(),
        inflight: vec![None; k],
        done: vec![false; k],
        outs: vec![vec![]; k],
        spans: vec![vec![]; k],
        ..Default::default()
    }));
    let path = ctx.case_dir("c10g").join("db");
    let r = block_on_sched(&sh, async {
        let db = Arc::new(open_disk(&DiskCfg::small(), &path).await?);
        prelude(&db, &case.w, false).await?;
        let _ = take_panics();
        let mut obs = Obs::default();
        install_gate(&sh);
        for (s, stmts) in case.w.sessions.iter().enumerate() {
            let h = tokio::spawn(session(sh.clone(), db.clone(), s, stmts.clone()));
            sh.lock().unwrap().task_sess.insert(h.id(), s);
        }
        let (mut ci, mut stuck) = (0usize, 0u32);
        loop {
            quiesce().await;
            let mut g = sh.lock().unwrap();
            if g.done.iter().all(|d| *d) {
                break;
            }
            g.parked.sort_by(|a, b| (a.sess, &a.gate).cmp(&(b.sess, &b.gate)));
            let mut startable = vec![];
            for s in 0..k {
                if g.start_tx[s].is_none() {
                    continue;
                }
                let next = &case.w.sessions[s][g.outs[s].len()];
                let clash = (0..k).filter(|o| *o != s).find_map(|o| {
                    let other = &case.w.sessions[o][g.inflight[o]?];
                    excl.conflict(next.kind(), next.table(), other.kind(), other.table())
                });
                match clash {
                    Some(p) => {
                        obs.steered.insert(p);
                    }
                    None => startable.push(s),
                }
            }
            let n = g.parked.len() + startable.len();
            if n == 0 {
                // statements in flight, none of them at a gate, nothing runnable, no file
                // operation pending: only a timer could still wake them. Let virtual time pass
                // (three compactor periods); if that changes nothing the sessions are deadlocked.
                drop(g);
                if stuck >= 3 {
                    let g = sh.lock().unwrap();
                    let who: Vec<String> = (0..k)
                        .filter_map(|s| g.inflight[s].map(|i| format!("s{s}#{i} `{}`", case.w.sessions[s][i].sql())))
                        .collect();
                    let mut kinds: Vec<&str> = (0..k).filter_map(|s| g.inflight[s].map(|i| case.w.sessions[s][i].kind().name())).collect();
                    kinds.sort();
                    obs.deadlock = Some((kinds.join("+"), format!("quiescent with unfinished statements that are not at a gate: {}", who.join(", "))));
                    break;
                }
                stuck += 1;
                obs.stuck_ticks += 1;
                tick().await;
                continue;
            }
            stuck = 0;
            let c = case.choices.get(ci).copied().unwrap_or(0) as usize % n;
            ci += 1;
            if c < g.parked.len() {
                let p = g.parked.remove(c);
                g.trace.push(format!("  release s{} from {}", p.sess, p.gate));
                let _ = p.tx.send(());
            } else {
                let s = startable[c - g.parked.len()];
                let _ = g.start_tx[s].take().unwrap().send(());
            }
        }
        risinglight::verif::set_gate(None);
        {
            // tasks of a session still at a gate although all its statements were acknowledged
            // (tasks aborted with their statement have closed their channel and do not count)
            let mut g = sh.lock().unwrap();
            obs.leftover = g.parked.iter().filter(|p| !p.tx.is_closed()).map(|p| format!("s{} at {}", p.sess, p.gate)).collect();
            g.parked.clear();
        }
        if !obs.leftover.is_empty() {
            quiesce().await;
        }
        {
            let mut g = sh.lock().unwrap();
            obs.outs = g.outs.clone();
            obs.spans = g.spans.clone();
            obs.trace = std::mem::take(&mut g.trace);
        }
        obs.panics = take_panics();
        if obs.deadlock.is_none() {
            epilogue(db, &path, &mut obs, true).await;
        }
        let _ = take_panics();
        Ok::<Obs, String>(obs)
    });
    risinglight::verif::reset();
    r
}

// ---------------------------------------------------------------------------------------------
// part `threads`

/// Keeps statements apart whose overlap the open findings forbid.
#[derive(Default)]
struct KindGate {
    running: Mutex<Vec<(Kind, usize)>>,
    wake: tokio::sync::Notify,
}

impl KindGate {
    /// Returns the switch the statement had to wait for, if any.
    async fn enter(&self, k: Kind, t: usize, excl: &Excl) -> Option<String> {
        let mut waited = None;
        loop {
            let n = self.wake.notified();
            {
                let mut g = self.running.lock().unwrap();
                match g.iter().find_map(|r| excl.conflict(k, t, r.0, r.1)) {
                    None => {
                        g.push((k, t));
                        return waited;
                    }
                    Some(sw) => waited = Some(sw),
                }
            }
            n.await;
        }
    }
    fn leave(&self, k: Kind, t: usize) {
        let mut g = self.running.lock().unwrap();
        if let Some(i) = g.iter().position(|r| *r == (k, t)) {
            g.remove(i);
        }
        self.wake.notify_waiters();
    }
}

type Db = Arc<risinglight::Database>;

/// Open, serial prelude, then the sessions as tasks that start together.
async fn rep_sessions(path: std::path::PathBuf, w: Workload, excl: Arc<Excl>, compactions: Arc<AtomicU64>) -> Result<(Db, Obs), String> {
    std::fs::create_dir_all(path.parent().unwrap()).map_err(|e| e.to_string())?;
    let c_open = compactions.load(Ordering::SeqCst);
    let db = Arc::new(open_disk(&DiskCfg::small(), &path).await?);
    prelude(&db, &w, true).await?;
    let mut obs = Obs::default();
    let after_prelude = read_state(&db).await;
    if after_prelude.as_ref().ok() != Some(&w.init) {
        // under the real clock the open-time compaction pass runs concurrently with the prelude
        if compactions.load(Ordering::SeqCst) != c_open {
            obs.prelude_perturbed = true;
        } else {
            return Err(format!("the state after the acknowledged serial prelude is {after_prelude:?}, expected {}", fmt_model(&w.init)));
        }
    }
    let barrier = Arc::new(tokio::sync::Barrier::new(w.sessions.len()));
    let seq = Arc::new(AtomicU64::new(1));
    let gate = Arc::new(KindGate::default());
    let c0 = compactions.load(Ordering::SeqCst);
    let mut hs = vec![];
    for stmts in w.sessions.iter().cloned() {
        let (db, barrier, seq, excl, gate) = (db.clone(), barrier.clone(), seq.clone(), excl.clone(), gate.clone());
        hs.push(tokio::spawn(async move {
            let (mut rec, mut steered) = (vec![], vec![]);
            barrier.wait().await;
            for stmt in &stmts {
                steered.extend(gate.enter(stmt.kind(), stmt.table(), &excl).await);
                let a = seq.fetch_add(1, Ordering::SeqCst);
                let out = outc(exec(&db, &stmt.sql()).await);
                let b = seq.fetch_add(1, Ordering::SeqCst);
                gate.leave(stmt.kind(), stmt.table());
                rec.push(((a, b), out));
            }
            (rec, steered)
        }));
    }
    for h in hs {
        match h.await {
            Ok((rec, steered)) => {
                obs.spans.push(rec.iter().map(|x| x.0).collect());
                obs.outs.push(rec.into_iter().map(|x| x.1).collect());
                obs.steered.extend(steered);
            }
            Err(e) => {
                obs.spans.push(vec![]);
                obs.outs.push(vec![Outc::Panicked(format!("session task: {e}"))]);
            }
        }
    }
    obs.compaction_overlapped = compactions.load(Ordering::SeqCst) != c0;
    Ok((db, obs))
}

async fn join_all<T: Send + 'static>(hs: Vec<tokio::task::JoinHandle<Result<T, String>>>) -> Vec<Result<T, String>> {
    let mut v = vec![];
    for h in hs {
        v.push(h.await.map_err(|e| format!("the repetition's task died: {e}")).and_then(|x| x));
    }
    v
}

/// Like `sqlrun::block_on_mt(4, ..)`, with a small blocking pool: every thread costs address
/// space (stack, malloc arena) and the worker processes run under an address-space limit.
fn block_on_threads<F: Future>(f: F) -> Result<F::Output, String> {
    let rt = tokio::runtime::Builder::new_multi_thread().worker_threads(4).max_blocking_threads(8).enable_all().build().unwrap();
    let r = std::panic::catch_unwind(AssertUnwindSafe(|| rt.block_on(f)));
    rt.shutdown_timeout(std::time::Duration::from_secs(5));
    r.map_err(|_| take_panics().last().cloned().unwrap_or_else(|| "panic".into()))
}

/// `reps` independent executions of the workload (one database each) on one 4-thread runtime,
/// in two phases (all sessions, then all epilogues) so that panics recorded during the sessions
/// are not mixed up with those of a failing reopen.
fn run_threads(ctx: &Ctx, w: &Workload, excl: &Excl, reps: u32) -> Result<(Vec<Result<Obs, String>>, Vec<String>), String> {
    let root = ctx.case_dir("c10t");
    // compaction commits (of any of the databases) are counted: a repetition whose sessions ran
    // while one happened is outside the domain of this part (compaction races are C09's subject)
    let compactions = Arc::new(AtomicU64::new(0));
    let c = compactions.clone();
    risinglight::verif::set_observer(Some(Arc::new(move |kind: &str, _: &str| {
        if kind == "compaction.commit" {
            c.fetch_add(1, Ordering::SeqCst);
        }
    })));
    let excl = Arc::new(excl.clone());
    let r = block_on_threads(async {
        // even repetitions run their serial parts right here, on the thread that called
        // `block_on` (as a client of the embedded library or the interactive shell does), the
        // odd ones in worker tasks (as the server's connection handlers do); the sessions
        // themselves are always worker tasks
        let path = |i: u32| root.join(format!("r{i}")).join("db");
        let inline = |i: u32| i % 2 == 0;
        let hs: Vec<_> = (0..reps).filter(|i| !inline(*i)).map(|i| tokio::spawn(rep_sessions(path(i), w.clone(), excl.clone(), compactions.clone()))).collect();
        let here = futures::future::join_all((0..reps).filter(|i| inline(*i)).map(|i| rep_sessions(path(i), w.clone(), excl.clone(), compactions.clone()))).await;
        let spawned = join_all(hs).await;
        let panics = take_panics();
        let hs: Vec<_> = (0..reps)
            .filter(|i| !inline(*i))
            .zip(spawned)
            .map(|(i, r)| {
                let path = path(i);
                tokio::spawn(async move {
                    let (db, mut obs) = r?;
                    epilogue(db, &path, &mut obs, false).await;
                    Ok(obs)
                })
            })
            .collect();
        let mut all = futures::future::join_all((0..reps).filter(|i| inline(*i)).zip(here).map(|(i, r)| {
            let path = path(i);
            async move {
                let (db, mut obs) = r?;
                epilogue(db, &path, &mut obs, false).await;
                Ok(obs)
            }
        }))
        .await;
        all.extend(join_all(hs).await);
        (all, panics)
    });
    risinglight::verif::reset();
    let _ = std::fs::remove_dir_all(&root);
    let _ = take_panics();
    r
}

// ---------------------------------------------------------------------------------------------
// the oracle

/// Kind pairs of statements of different sessions whose executions overlapped: `Some(t)` both
/// on table `t`; `None` on different tables.
type Overlaps = BTreeSet<(Option<usize>, (Kind, Kind))>;

fn overlaps(w: &Workload, spans: &[Vec<(u64, u64)>]) -> Overlaps {
    let mut set = BTreeSet::new();
    for (s, a) in spans.iter().enumerate() {
        for (o, b) in spans.iter().enumerate().skip(s + 1) {
            for (i, x) in a.iter().enumerate() {
                for (j, y) in b.iter().enumerate() {
                    let (p, q) = (&w.sessions[s][i], &w.sessions[o][j]);
                    if x.0 < y.1 && y.0 < x.1 {
                        set.insert(((p.table() == q.table()).then_some(p.table()), mk_pair(p.kind(), q.kind())));
                    }
                }
            }
        }
    }
    set
}

fn same_table(ov: &Overlaps) -> BTreeSet<(usize, (Kind, Kind))> {
    ov.iter().filter_map(|(t, p)| t.map(|t| (t, *p))).collect()
}

/// The overlapping pair a failure is attributed to: `hint` pairs first, then the pairs on
/// `table` (any table if the symptom names none), DDL races before DML races, then a CREATE or
/// DROP that overlapped a statement on the other table (`x-…`: table ids and the catalog are
/// global).
fn culprit(ov: &Overlaps, table: Option<usize>, hint: &[(bool, (Kind, Kind))]) -> String {
    let same: Vec<(Kind, Kind)> = ov.iter().filter(|(t, _)| t.is_some() && (table.is_none() || *t == table)).map(|x| x.1).collect();
    let ddl = |k: Kind| k == Kind::Create || k == Kind::Drop;
    let cross: Vec<(Kind, Kind)> = ov.iter().filter(|(t, p)| t.is_none() && (ddl(p.0) || ddl(p.1))).map(|x| x.1).collect();
    let name = |x: bool, p: (Kind, Kind)| format!("{}{}", if x { "x-" } else { "" }, pair_name(p));
    if std::env::var("RLV_C10_SIGSET").is_ok() {
        // development aid: name all candidates
        let c: Vec<String> = same.iter().map(|p| name(false, *p)).chain(cross.iter().map(|p| name(true, *p))).collect();
        return c.join(",");
    }
    for (x, p) in hint {
        if (if *x { &cross } else { &same }).contains(p) {
            return name(*x, *p);
        }
    }
    let prio = culprit_priority();
    if let Some(p) = prio.iter().find(|p| same.contains(p)) {
        return name(false, *p);
    }
    if let Some(p) = prio.iter().find(|p| cross.contains(p)) {
        return name(true, *p);
    }
    if ov.is_empty() { "no-overlap".into() } else { "unrelated-overlap".into() }
}

fn describe(w: &Workload, o: &Obs) -> String {
    let mut s = format!("  initial state: {}\n", fmt_model(&w.init));
    for (i, (stmts, outs)) in w.sessions.iter().zip(&o.outs).enumerate() {
        s.push_str(&format!("  session {i}:"));
        for (j, st) in stmts.iter().enumerate() {
            let out = outs.get(j).map(|x| format!("{x:?}")).unwrap_or("(not finished)".into());
            let end = |e: u64| if e == u64::MAX { "".to_string() } else { e.to_string() };
            let span = o.spans.get(i).and_then(|v| v.get(j)).map(|x| format!("[{}..{}]", x.0, end(x.1))).unwrap_or_default();
            s.push_str(&format!(" {} {span} -> {out};", st.sql()));
        }
        s.push('\n');
    }
    if let Some(Ok(m)) = &o.final1 {
        s.push_str(&format!("  final state: {}\n", fmt_model(m)));
    }
    if !o.trace.is_empty() {
        s.push_str(&format!("  schedule:\n    {}\n", o.trace.join("\n    ")));
    }
    s
}

/// Signature of a panic: source file (no line number, so that unrelated edits of the file do
/// not rename the finding) and the start of the message.
fn panic_class(p: &str) -> String {
    let sig = panic_sig(p);
    let (loc, msg) = sig.split_once('|').unwrap_or((&sig, ""));
    format!("{}|{msg}", loc.rsplit_once(':').map(|x| x.0).unwrap_or(loc))
}

/// First line and location of a panic message (storage errors carry a backtrace).
fn short(p: &str) -> String {
    let first = p.lines().next().unwrap_or("");
    match p.rsplit_once(" @ ") {
        Some((_, loc)) if !first.ends_with(loc) => format!("{first} @ {loc}"),
        _ => first.to_string(),
    }
}

fn judge(w: &Workload, o: &Obs) -> Result<(), (String, String)> {
    let ov = overlaps(w, &o.spans);
    let d = describe(w, o);
    for outs in &o.outs {
        for x in outs {
            if let Outc::Panicked(p) = x {
                return Err((format!("c10:session-panic:{}", panic_class(p)), format!("a statement panicked: {}\n{d}", short(p))));
            }
        }
    }
    for (stmts, outs) in w.sessions.iter().zip(&o.outs) {
        for (st, x) in stmts.iter().zip(outs) {
            if let Outc::NoRow(r) = x {
                return Err((
                    format!("c10:ack-without-result-row:{}", st.kind().name()),
                    format!("`{}` was acknowledged but returned {r} instead of its one-row result\n{d}", st.sql()),
                ));
            }
        }
    }
    if let Some(l) = o.leftover.first() {
        let gate = l.rsplit(' ').next().unwrap_or("");
        return Err((
            format!("c10:work-after-acknowledgement:{gate}"),
            format!("every statement was acknowledged, but tasks working for them were still on their way: {:?}\n{d}", o.leftover),
        ));
    }
    if let Some((kinds, dl)) = &o.deadlock {
        return Err((format!("c10:deadlock:{kinds}"), format!("deadlock: {dl}\n{d}")));
    }
    if let Some(p) = o.panics.first() {
        return Err((
            format!("c10:task-panic:{}", panic_class(p)),
            format!("panic in a task while the sessions ran (expected: none): {:?}\n{d}", o.panics.iter().map(|p| short(p)).collect::<Vec<_>>()),
        ));
    }
    let obs: Vec<Vec<Option<i64>>> = o.outs.iter().map(|v| v.iter().map(|x| x.value()).collect()).collect();
    let fin = match o.final1.as_ref().unwrap() {
        Ok(m) => m,
        Err(e) => {
            return Err((
                format!("c10:final-state-unreadable:{}", culprit(&ov, None, &[])),
                format!("after all sessions finished the state cannot be read: {e}\n{d}"),
            ));
        }
    };
    if explain(&w.sessions, &obs, &w.init, Some(fin)).is_none() {
        // attribution: which part cannot be explained?
        let (what, table) = if explain(&w.sessions, &obs, &w.init, None).is_some() {
            let t = (0..NT).find(|t| {
                let (ps, po) = project(&w.sessions, &obs, *t);
                let mut f = w.init.clone();
                f[*t] = fin[*t].clone();
                explain(&ps, &po, &w.init, Some(&f)).is_none()
            });
            ("final-state", t)
        } else {
            let t = (0..NT).find(|t| {
                let (ps, po) = project(&w.sessions, &obs, *t);
                explain(&ps, &po, &w.init, None).is_none()
            });
            ("outcomes", t)
        };
        let tn = table.map(|t| format!("t{t}")).unwrap_or("only the combination of both tables".into());
        return Err((
            format!("c10:no-serial-order:{what}:{}", culprit(&ov, table, &[])),
            format!(
                "no serial order of the statements (respecting session order) explains the observed {what} (inexplicable already for: {tn}); overlapping pairs: {:?}\n{d}",
                ov.iter().map(|(t, p)| format!("{}:{}", t.map(|t| format!("t{t}")).unwrap_or("cross-table".into()), pair_name(*p))).collect::<Vec<_>>()
            ),
        ));
    }
    if let Some(Err(e)) = &o.shutdown1 {
        return Err((format!("c10:shutdown-fails:{}", culprit(&ov, None, &[])), format!("shutdown after the sessions failed: {e}\n{d}")));
    }
    if let Some(p) = &o.reopen_panic {
        let hint: &[(bool, (Kind, Kind))] = if p.contains("Duplicated") || p.contains("duplicated") {
            &[(false, (Kind::Create, Kind::Create)), (false, (Kind::Create, Kind::Drop))]
        } else {
            &[(false, (Kind::Drop, Kind::Insert)), (false, (Kind::Drop, Kind::Delete)), (true, (Kind::Create, Kind::Create))]
        };
        return Err((
            format!("c10:reopen-panics:{}", culprit(&ov, None, hint)),
            format!("the database does not reopen after shutdown: {}\n{d}", short(p)),
        ));
    }
    match o.reopen.as_ref().unwrap() {
        Err(e) => Err((format!("c10:reopen-unreadable:{}", culprit(&ov, None, &[])), format!("state unreadable after reopen: {e}\n{d}"))),
        Ok(m2) if m2 != fin => {
            let t = (0..NT).find(|t| m2[*t] != fin[*t]);
            Err((
                format!("c10:reopen-state-differs:{}", culprit(&ov, t, &[(true, (Kind::Create, Kind::Create))])),
                format!("state after shutdown + reopen {} differs from the state before {}\n{d}", fmt_model(m2), fmt_model(fin)),
            ))
        }
        Ok(_) => Ok(()),
    }
}

fn account(w: &Workload, o: &Obs, mode: &str, st: &mut Stats) {
    let all = overlaps(w, &o.spans);
    let ov = same_table(&all);
    st.eval();
    st.class(&format!("sessions:{}", w.sessions.len()));
    for (t, p) in &all {
        st.class(&format!("{}:{}", if t.is_some() { "overlap" } else { "overlap-across-tables" }, pair_name(*p)));
    }
    for sw in &o.steered {
        st.excluded(&format!("c10.{mode}.{sw}"));
    }
    for (stmts, outs) in w.sessions.iter().zip(&o.outs) {
        for (s, x) in stmts.iter().zip(outs) {
            st.class(&format!("stmt:{}:{}", s.kind().name(), match x {
                Outc::Ok(_) | Outc::NoRow(_) => "ok",
                Outc::Err(e) if e.starts_with("rejected") => "rejected",
                Outc::Err(_) => "failed",
                Outc::Panicked(_) => "panicked",
            }));
        }
    }
    if o.stuck_ticks > 0 {
        st.class("gates:clock-advanced-to-rule-out-timers-before-deadlock-verdict");
    }
    if ov.is_empty() {
        st.class("no-overlap");
    } else {
        st.class("overlap:any");
        let shape: Vec<Vec<(Kind, usize)>> = w.sessions.iter().map(|s| s.iter().map(|x| (x.kind(), x.table())).collect()).collect();
        let exists: Vec<bool> = w.init.iter().map(|t| t.is_some()).collect();
        st.nontrivial((mode, shape, exists, ov));
    }
}

fn verdict(r: Result<Result<Obs, String>, String>, w: &Workload, mode: &'static str, st: &mut Stats) -> Verdict {
    match r {
        Err(p) => fail(format!("c10:harness-panic:{}", panic_sig(&p)), format!("the run panicked outside a statement: {p}")),
        Ok(Err(e)) => fail("c10:setup", format!("opening the database or the serial prelude (acknowledged statements of one session, nothing concurrent) failed: {e}")),
        Ok(Ok(obs)) => {
            if std::env::var("RLV_C10_TRACE").is_ok() {
                eprintln!("{}", describe(w, &obs)); // development aid
            }
            account(w, &obs, mode, st);
            match judge(w, &obs) {
                Ok(()) => Verdict::Pass,
                Err((sig, msg)) => fail(sig, msg),
            }
        }
    }
}

/// Development aid: RLV_C10_PART=gates|threads runs one part only.
fn part_skipped(part: &str) -> bool {
    std::env::var("RLV_C10_PART").is_ok_and(|p| p != part)
}

fn test_gates(ctx: &Ctx, case: &GateCase, st: &mut Stats) -> Verdict {
    if part_skipped("gates") {
        return Verdict::Pass;
    }
    risinglight::verif::reset();
    let _ = take_panics();
    let excl = excluded_pairs(ctx, "gates");
    let mut case = case.clone();
    case.w.init.iter_mut().flatten().for_each(|r| r.sort());
    verdict(run_gates(ctx, &case, &excl), &case.w, "gates", st)
}

fn test_threads(ctx: &Ctx, case: &MtCase, st: &mut Stats) -> Verdict {
    if part_skipped("threads") {
        return Verdict::Pass;
    }
    risinglight::verif::reset();
    let _ = take_panics();
    if ctx.off("c10.threads") {
        st.excluded("c10.threads");
        return Verdict::Pass;
    }
    let excl = excluded_pairs(ctx, "threads");
    let mut w = case.w.clone();
    w.init.iter_mut().flatten().for_each(|r| r.sort());
    // a replay doubles the repetitions: the run is not deterministic, and more databases on the
    // same four threads make the thread-level races likelier
    let reps = case.reps.max(1) * if ctx.strict { 2 } else { 1 };
    match run_threads(ctx, &w, &excl, reps) {
        Err(p) => verdict(Err(p), &w, "threads", st),
        Ok((reps, panics)) => {
            let mut skipped = false;
            for r in reps {
                if r.as_ref().is_ok_and(|o| o.compaction_overlapped || o.prelude_perturbed) {
                    st.class("threads:repetition-skipped-compaction-commit-during-prelude-or-sessions");
                    skipped = true;
                    continue;
                }
                match verdict(Ok(r), &w, "threads", st) {
                    Verdict::Pass => {}
                    v => return v,
                }
            }
            // panics that did not surface in a statement's outcome (not attributable to a
            // repetition; ignored if a compaction interfered with any of them)
            if skipped {
                return Verdict::Pass;
            }
            match panics.first() {
                Some(p) => fail(
                    format!("c10:task-panic:{}", panic_class(p)),
                    format!("panic in a task while the sessions ran (expected: none): {:?}\n  initial state: {}\n  sessions: {:?}", panics.iter().map(|p| short(p)).collect::<Vec<_>>(), fmt_model(&w.init), w.sessions),
                ),
                None => Verdict::Pass,
            }
        }
    }
}

pub fn def() -> PropDef {
    PropDef {
        id: "C10",
        level: "exploration",
        rule: "2-3 sessions x 1-4 statements (CREATE/DROP TABLE, INSERT, DELETE WHERE a=v / WHERE true, SELECT count(*)) over a pool of two table names (initially absent or holding 0-2 rows) on one shared disk database; part 'gates': a harness-owned scheduler interleaves the sessions at the engine's named yield points by a generated choice vector (deterministic); part 'threads': 4-thread runtime, each workload on 40 databases at once (half of them driven from the thread that entered the runtime, half from worker tasks); non-trivial = two statements of different sessions on the same table name overlapped (the second started before the first finished); distinct by (part, statement kinds+tables per session, initial existence, set of overlapping kind pairs per table)",
        assumptions: vec![
            "sequential reference model: CREATE fails iff the table exists, every other statement fails iff it does not; DELETE and count(*) report the model's counts",
            "an error of any class (bind, storage) is a legitimate outcome if some serial order puts the statement where the model rejects it",
            "part 'gates' explores interleavings at the granularity of the named gates and statement boundaries; part 'threads' depends on the OS scheduler",
        ],
        min_nontrivial: 50,
        parts: vec![
            part("gates", 12_000, 400_000, |_ctx| gate_strategy(), test_gates),
            part("threads", 300, 3_000, |_ctx| mt_strategy(), test_threads),
        ],
    }
}
