//! rlv — property-based checks for risinglight. See /verif/DESIGN.md.
#![allow(clippy::all)]
#![allow(dead_code)]

use std::path::PathBuf;

use rlv::engine::*;
use rlv::{props, sqlrun};

fn arg_val(args: &[String], name: &str) -> Option<String> {
    args.iter().position(|a| a == name).and_then(|i| args.get(i + 1).cloned())
}

fn usage() -> ! {
    eprintln!("usage: rlv check <Cxx> --tier quick|thorough [--seed N] [--workers N]\n       rlv replay <Cxx> <file>\n       rlv list");
    std::process::exit(2)
}

fn main() {
    let args: Vec<String> = std::env::args().collect();
    if args.len() < 2 {
        usage();
    }
    sqlrun::install_panic_hook();
    let verif_dir = std::env::var("VERIF_DIR").map(PathBuf::from).unwrap_or_else(|_| PathBuf::from("/verif"));
    let cmd = args[1].as_str();
    if cmd == "list" {
        for p in props::all() {
            println!("{} {}", p.id, p.parts.iter().map(|x| x.name().to_string()).collect::<Vec<_>>().join(","));
        }
        return;
    }
    if cmd == "rules" {
        for (stage, rules) in risinglight::planner::verif_rule_sets() {
            for r in rules {
                println!("{stage} {}", r.name);
            }
        }
        return;
    }
    if cmd == "sql" {
        // rlv sql [--disk] "stmt" "stmt" ...   (development aid)
        let disk = args.iter().any(|a| a == "--disk");
        if let Ok(r) = std::env::var("RLV_DISABLE_RULES") {
            risinglight::verif::set_disabled_rules(r.split(',').map(|x| x.trim().to_string()).filter(|x| !x.is_empty()).collect());
        }
        let stmts: Vec<String> = args[2..].iter().filter(|a| !a.starts_with("--")).cloned().collect();
        let r = sqlrun::block_on(async move {
            let dir = std::env::temp_dir().join(format!("rlv-sql-{}", std::process::id()));
            let db = if disk {
                sqlrun::open_disk(&sqlrun::DiskCfg::small(), &dir).await.unwrap()
            } else {
                risinglight::Database::new_in_memory()
            };
            for s in stmts {
                if s == "TICK" {
                    sqlrun::tick().await;
                    continue;
                }
                let o = sqlrun::exec(&db, &s).await;
                println!("{s}\n  => {}", o.brief());
                let p = sqlrun::take_panics();
                if !p.is_empty() {
                    println!("  panics: {p:?}");
                }
            }
            if disk {
                let _ = sqlrun::shutdown(&db).await;
                let _ = std::fs::remove_dir_all(&dir);
            }
        });
        if let Err(e) = r {
            println!("panic: {e}");
        }
        return;
    }
    if cmd == "c18-child" {
        props::c18::child_main(&args[2..]);
    }
    if args.len() < 3 {
        usage();
    }
    let prop = args[2].clone();
    let Some(def) = props::all().into_iter().find(|p| p.id == prop) else {
        eprintln!("unknown property {prop}");
        std::process::exit(2);
    };
    let tier = match arg_val(&args, "--tier").as_deref() {
        Some("thorough") => Tier::Thorough,
        _ => Tier::Quick,
    };
    let seed: u64 = arg_val(&args, "--seed")
        .or_else(|| std::env::var("VERIF_SEED").ok())
        .and_then(|s| s.parse().ok())
        .unwrap_or(1);
    let scale: f64 = arg_val(&args, "--scale")
        .or_else(|| std::env::var("VERIF_SCALE").ok())
        .and_then(|s| s.parse().ok())
        .unwrap_or(1.0);
    let known = Known::load(&verif_dir);
    match cmd {
        "check" => {
            let nworkers: usize = arg_val(&args, "--workers")
                .or_else(|| std::env::var("VERIF_WORKERS").ok())
                .and_then(|s| s.parse().ok())
                .unwrap_or_else(|| std::thread::available_parallelism().map(|n| n.get()).unwrap_or(8).min(16));
            let base = if std::path::Path::new("/dev/shm").is_dir() { PathBuf::from("/dev/shm") } else { std::env::temp_dir() };
            let scratch = base.join(format!("rlv-{}", std::process::id()));
            let _ = std::fs::remove_dir_all(&scratch);
            std::fs::create_dir_all(&scratch).unwrap();
            let ctx = Ctx { prop: prop.clone(), tier, seed, worker: 0, nworkers, scratch: scratch.clone(), verif_dir, known, strict: false, scale };
            let cfg = ParentCfg {
                exe: std::env::current_exe().unwrap(),
                nworkers,
                // per-case CPU cap; C04 enumerates hundreds of recoveries inside one case
                cpu_cap_s: std::env::var("VERIF_CPU_CAP").ok().and_then(|s| s.parse().ok()).unwrap_or(if prop == "C04" { 120 } else { 20 }),
                wall_cap_s: 300,
            };
            let out = parent_main(&def, &ctx, &cfg);
            let _ = std::fs::remove_dir_all(&scratch);
            match out {
                Outcome::Held => std::process::exit(0),
                Outcome::Violated(_) => std::process::exit(1),
                Outcome::Inconclusive(why) => {
                    println!("INCONCLUSIVE property={prop}: {why}");
                    std::process::exit(2)
                }
            }
        }
        "worker" => {
            let w = arg_val(&args, "--worker").unwrap();
            let (i, n) = w.split_once('/').unwrap();
            let scratch = PathBuf::from(arg_val(&args, "--scratch").unwrap());
            let out = PathBuf::from(arg_val(&args, "--out").unwrap());
            let hb = PathBuf::from(arg_val(&args, "--hb").unwrap());
            let r = arg_val(&args, "--resume").unwrap_or("0:0".into());
            let (rp, ri) = r.split_once(':').unwrap();
            let ctx = Ctx { prop, tier, seed, worker: i.parse().unwrap(), nworkers: n.parse().unwrap(), scratch, verif_dir, known, strict: false, scale };
            worker_main(&def, &ctx, &out, &hb, (rp.parse().unwrap(), ri.parse().unwrap()));
        }
        "replay" | "replay-inner" => {
            // replay <prop> <file> [--reps N]
            let file = PathBuf::from(args.get(3).cloned().unwrap_or_else(|| usage()));
            let reps: u32 = arg_val(&args, "--reps").and_then(|s| s.parse().ok()).unwrap_or(20);
            let rf: ReplayFile = serde_json::from_slice(&std::fs::read(&file).expect("cannot read replay file")).expect("bad replay file");
            let scratch = arg_val(&args, "--scratch").map(PathBuf::from).unwrap_or_else(|| {
                let base = if std::path::Path::new("/dev/shm").is_dir() { PathBuf::from("/dev/shm") } else { std::env::temp_dir() };
                base.join(format!("rlv-replay-{}", std::process::id()))
            });
            std::fs::create_dir_all(&scratch).unwrap();
            let ctx = Ctx { prop: prop.clone(), tier, seed: rf.seed, worker: 900 + (std::process::id() as usize % 100), nworkers: 1, scratch: scratch.clone(), verif_dir, known, strict: true, scale };
            let Some(part) = def.parts.iter().find(|p| p.name() == rf.part) else {
                eprintln!("unknown part {}", rf.part);
                std::process::exit(2);
            };
            set_mem_limit(8 << 30);
            let mut fails = 0;
            let mut last = String::new();
            for _ in 0..reps {
                if let Verdict::Fail(f) = part.replay(&ctx, &rf.case) {
                    fails += 1;
                    last = format!("[{}] {}", f.sig, f.msg);
                    if cmd == "replay-inner" {
                        println!("SIG={}", f.sig);
                    }
                }
            }
            if cmd == "replay" {
                let _ = std::fs::remove_dir_all(&scratch);
            }
            if fails > 0 {
                println!("replay: failed {fails}/{reps}: {last}");
                if cmd == "replay" {
                    println!("VIOLATION property={prop} replay={}", file.display());
                }
                std::process::exit(1);
            }
            println!("replay: passed {reps}/{reps}");
        }
        _ => usage(),
    }
}
