//! C13 — a key-range scan returns exactly the rows in the range.
//! SQL level: disk engine with the optimizer on vs off (full scan + filter) vs the memory engine.
//! Storage level: scan(filter = range) == filter(scan) through the public storage API.

use std::ops::Bound;

use proptest::prelude::*;
use risinglight::storage::{KeyRange, ScanOptions, Storage, StorageColumnRef, Table, Transaction, TxnIterator};
use risinglight::types::DataValue;
use serde::{Deserialize, Serialize};

use super::c16_db::{Mini, Store};
use crate::engine::*;
use crate::gens::tape::{Tape, tape_strategy};
use crate::sqlrun::*;

#[derive(Clone, Debug, Serialize, Deserialize)]
pub struct RangeCase {
    pub disk: DiskCfg,
    /// column definitions: (name, sql type); `key` is the index of the primary key column
    pub cols: Vec<(String, String)>,
    pub key: usize,
    /// literal printer for key values: the key domain is integers mapped into the key type
    pub key_ty: String,
    /// statements: inserts / deletes / "TICK"
    pub load: Vec<String>,
    /// (projection list, where clause) pairs
    pub queries: Vec<(String, String)>,
    /// storage-level ranges (only used when the key is an INT stored as column 0)
    pub ranges: Vec<(Option<(i32, bool)>, Option<(i32, bool)>)>,
}

fn key_lit(ty: &str, k: i64) -> String {
    match ty {
        "int" | "bigint" | "smallint" => k.to_string(),
        "varchar" => format!("'k{:05}'", k + 50000),
        "date" => {
            // days from 2000-01-01
            let base = 730_485i64 + k; // days from 0001-01-01 to 2000-01-01 is 730119; any fixed base works through arithmetic below
            let _ = base;
            let d = k.rem_euclid(28) + 1;
            let m = (k.div_euclid(28)).rem_euclid(12) + 1;
            let y = 2000 + k.div_euclid(28 * 12);
            format!("date '{y:04}-{m:02}-{d:02}'")
        }
        _ => k.to_string(),
    }
}

fn decode(tape: &[u32], disk: DiskCfg) -> RangeCase {
    let mut t = Tape::new(tape);
    let key_ty = ["int", "int", "int", "bigint", "smallint", "varchar", "date"][t.pick(7)].to_string();
    let ncols = t.range(1, 4);
    let key = if t.chance(1, 2) { t.pick(ncols) } else { 0 };
    let cols: Vec<(String, String)> = (0..ncols)
        .map(|i| {
            if i == key {
                ("k".to_string(), key_ty.clone())
            } else {
                (format!("v{i}"), ["int", "varchar", "int"][t.pick(3)].to_string())
            }
        })
        .collect();
    // keys: integers with gaps (distinct, or with repeated values), inserted in several statements, non-monotone
    let nkeys = [0usize, 1, 3, 10, 40, 120, 300][t.pick(7)];
    let mut keys: Vec<i64> = vec![];
    let mut cur = -20i64;
    // in one case of three some keys occur several times (the engine does not enforce uniqueness;
    // runs of equal keys then span block boundaries)
    let dups = t.chance(1, 3);
    for _ in 0..nkeys {
        cur += if dups && !keys.is_empty() && t.chance(1, 3) { 0 } else { 1 + t.pick(4) as i64 };
        keys.push(cur);
    }
    // an INT key sometimes reaches the ends of its type (bounds right at the limit)
    let at_limits = key_ty == "int" && t.chance(1, 6);
    if at_limits && !keys.is_empty() {
        keys.push(2147483646);
        keys.push(2147483647);
        keys.insert(0, -2147483647);
    }
    // split into 1..6 statements, rows of a statement in shuffled order
    let nst = t.range(1, 6).min(nkeys.max(1));
    let mut load = vec![];
    let mut stmts: Vec<Vec<i64>> = vec![vec![]; nst];
    for k in &keys {
        stmts[t.pick(nst)].push(*k);
    }
    let table_cols = cols.iter().map(|(n, ty)| if n == "k" { format!("{n} {ty} primary key") } else { format!("{n} {ty}") }).collect::<Vec<_>>().join(", ");
    load.push(format!("create table t({table_cols})"));
    for (si, ks) in stmts.iter_mut().enumerate() {
        if ks.is_empty() {
            continue;
        }
        // rotate to make the statement's order non-monotone
        let r = t.pick(ks.len());
        ks.rotate_left(r);
        let rows: Vec<String> = ks
            .iter()
            .map(|k| {
                let vals: Vec<String> = cols
                    .iter()
                    .enumerate()
                    .map(|(ci, (n, ty))| {
                        if n == "k" {
                            key_lit(&key_ty, *k)
                        } else if ty == "int" {
                            if (k + ci as i64) % 7 == 0 { "null".into() } else { ((k * 3 + ci as i64) % 5).to_string() }
                        } else {
                            format!("'s{}'", (k + ci as i64).rem_euclid(3))
                        }
                    })
                    .collect();
                format!("({})", vals.join(", "))
            })
            .collect();
        load.push(format!("insert into t values {}", rows.join(", ")));
        if t.chance(1, 4) {
            load.push("TICK".into());
        }
        if si > 0 && t.chance(1, 4) && !keys.is_empty() {
            let victim = keys[t.pick(keys.len())];
            load.push(format!("delete from t where k = {}", key_lit(&key_ty, victim)));
        }
    }
    // query constants: present, absent, below, above
    let consts = |t: &mut Tape| -> i64 {
        if at_limits && t.chance(1, 3) {
            return [2147483647i64, 2147483646, -2147483647][t.pick(3)];
        }
        match t.pick(5) {
            0 if !keys.is_empty() => keys[t.pick(keys.len())],
            1 if !keys.is_empty() => keys[t.pick(keys.len())] + 1,
            2 => -1000,
            3 => 5000,
            _ => t.pick(60) as i64 - 20,
        }
    };
    let nq = t.range(2, 6);
    let mut queries = vec![];
    for _ in 0..nq {
        // projection: a permutation / subset of the columns, key anywhere or absent
        let mut proj: Vec<String> = vec![];
        let np = t.range(1, cols.len());
        let startc = t.pick(cols.len());
        for j in 0..np {
            proj.push(cols[(startc + j) % cols.len()].0.clone());
        }
        let a = consts(&mut t);
        let b = consts(&mut t);
        // bounds of an integer key also come in other numeric widths / forms
        let bound = |t: &mut Tape, k: i64| -> String {
            if matches!(key_ty.as_str(), "int" | "bigint" | "smallint") {
                match t.pick(8) {
                    0 => format!("cast({k} as bigint)"),
                    1 => format!("cast({k} as smallint)"),
                    2 => format!("{}", if k >= 0 { 3_000_000_000i64 + k } else { -3_000_000_000i64 + k }),
                    3 => format!("{k}.5"),
                    _ => key_lit(&key_ty, k),
                }
            } else {
                key_lit(&key_ty, k)
            }
        };
        let (la, lb) = (bound(&mut t, a), bound(&mut t, b));
        let range = match t.pick(12) {
            0 => format!("k = {la}"),
            1 => format!("k < {la}"),
            2 => format!("k <= {la}"),
            3 => format!("k > {la}"),
            4 => format!("k >= {la}"),
            5 => format!("k between {la} and {lb}"),
            6 => format!("k > {la} and k <= {lb}"),
            7 => format!("{la} <= k and k < {lb}"),
            8 => format!("{la} > k"),
            9 => format!("k > {la} and k < {lb}"),
            10 => format!("k >= {la} and k <= {lb}"),
            _ => format!("k < {lb} and k >= {la}"),
        };
        let residual = cols.iter().find(|(n, ty)| n != "k" && ty == "int").map(|(n, _)| n.clone());
        let w = match (t.pick(3), residual) {
            (0, Some(r)) => format!("{range} and {r} <> 1"),
            (1, Some(r)) => format!("{r} is not null and {range}"),
            _ => range,
        };
        queries.push((proj.join(", "), w));
    }
    let mut ranges = vec![];
    for _ in 0..t.range(1, 4) {
        let a = consts(&mut t) as i32;
        let b = consts(&mut t) as i32;
        let s = match t.pick(3) {
            0 => None,
            1 => Some((a, true)),
            _ => Some((a, false)),
        };
        let e = match t.pick(3) {
            0 => None,
            1 => Some((b, true)),
            _ => Some((b, false)),
        };
        ranges.push((s, e));
    }
    RangeCase { disk, cols, key, key_ty, load, queries, ranges }
}

fn strat(_ctx: &Ctx) -> impl Strategy<Value = RangeCase> + use<> {
    (tape_strategy(500), disk_cfg_strategy(false)).prop_map(|(tape, mut disk)| {
        disk.inmem = false;
        decode(&tape, disk)
    })
}

fn in_range(k: i32, r: &(Option<(i32, bool)>, Option<(i32, bool)>)) -> bool {
    let lo = match r.0 {
        None => true,
        Some((a, incl)) => k > a || (incl && k == a),
    };
    let hi = match r.1 {
        None => true,
        Some((b, incl)) => k < b || (incl && k == b),
    };
    lo && hi
}

async fn storage_scan(mini: &Mini, ncols: usize, filter: Option<KeyRange>) -> Result<Vec<Row>, String> {
    let Store::Disk(s) = &mini.store else { return Err("not disk".into()) };
    let id = mini.catalog.get_table_id_by_name("postgres", "t").ok_or("no table")?;
    let table = s.get_table(id).map_err(|e| e.to_string())?;
    let txn = table.read().await.map_err(|e| e.to_string())?;
    let cols: Vec<StorageColumnRef> = (0..ncols as u32).map(StorageColumnRef::Idx).collect();
    let mut it = txn.scan(&cols, ScanOptions::default().with_filter_opt(filter)).await.map_err(|e| e.to_string())?;
    let mut rows = vec![];
    while let Some(chunk) = it.next_batch(None).await.map_err(|e| e.to_string())? {
        for r in chunk.rows() {
            rows.push(r.values().map(|v| Val::from_dv(&v)).collect());
        }
    }
    Ok(rows)
}

fn test(ctx: &Ctx, case: &RangeCase, st: &mut Stats) -> Verdict {
    risinglight::verif::reset();
    let r = block_on(async {
        let dir = ctx.case_dir("c13");
        let disk = match open_disk(&case.disk, &dir.join("db")).await {
            Ok(d) => d,
            Err(e) => return fail("setup:open", e),
        };
        let mem = risinglight::Database::new_in_memory();
        for s in &case.load {
            if s == "TICK" {
                tick().await;
                continue;
            }
            let a = exec(&disk, s).await;
            let b = exec(&mem, s).await;
            if !a.is_ok() || !b.is_ok() {
                let _ = shutdown(&disk).await;
                if a.class() == b.class() {
                    return Verdict::Discard("load statement not accepted (key type not supported as primary key)");
                }
                return fail("setup:load", format!("`{}`: disk {} vs memory {}", &s[..s.len().min(120)], a.brief(), b.brief()));
            }
        }
        let _ = take_panics();
        let mut verdict = Verdict::Pass;
        st.class(&format!("key-type-{}", case.key_ty));
        st.class(if case.key == 0 { "key-first-column" } else { "key-later-column" });
        for (proj, w) in &case.queries {
            let sql = format!("select {proj} from t where {w}");
            let opt = exec(&disk, &sql).await;
            let p1 = take_panics();
            let _ = exec(&disk, "pragma disable_optimizer").await;
            let reference = exec(&disk, &sql).await;
            let _ = exec(&disk, "pragma enable_optimizer").await;
            let m = exec(&mem, &sql).await;
            let _ = take_panics();
            st.evals(3);
            let (Out::Rows(rr), Out::Rows(mr)) = (&reference, &m) else {
                st.class("reference-failed");
                continue;
            };
            let total = match exec(&mem, "select count(*) from t").await {
                Out::Rows(r) => r.first().and_then(|x| x.first().cloned()),
                _ => None,
            };
            if let Some(Val::Int(n)) = total {
                if !rr.is_empty() && (rr.len() as i64) < n && n >= 10 {
                    st.nontrivial((case.key_ty.clone(), case.key, proj.split(',').count(), w.split(' ').nth(1).unwrap_or("").to_string(), case.disk.block, (n / 50).min(4)));
                }
            }
            if sorted(rr.clone()) != sorted(mr.clone()) {
                verdict = fail("sql:memory-vs-disk-unoptimized", format!("`{sql}`: disk (optimizer off) {} vs memory {}", fmt_rows(&sorted(rr.clone())), fmt_rows(&sorted(mr.clone()))));
                break;
            }
            match &opt {
                Out::Rows(or) => {
                    if sorted(or.clone()) != sorted(rr.clone()) {
                        let plan = exec(&disk, &format!("explain {sql}")).await;
                        let pushed = matches!(&plan, Out::Rows(r) if r.iter().flatten().any(|v| matches!(v, Val::Str(s) if s.contains("Scan") && !s.contains("filter: true"))));
                        verdict = fail(
                            if pushed { "sql:range-scan:wrong-rows" } else { "sql:optimized:wrong-rows" },
                            format!("`{sql}` on disk: optimized {} vs full scan + filter {}\n  key type {} at column {}; disk {:?}", fmt_rows(&sorted(or.clone())), fmt_rows(&sorted(rr.clone())), case.key_ty, case.key, case.disk),
                        );
                        break;
                    }
                }
                o => {
                    verdict = fail(
                        format!("sql:range-scan:error:{}", p1.first().map(|p| panic_sig(p)).unwrap_or_default()),
                        format!("`{sql}` on disk: optimized run {} but the full scan + filter returns {}\n  key type {} at column {}; panics {:?}", o.brief(), fmt_rows(rr), case.key_ty, case.key, p1),
                    );
                    break;
                }
            }
        }
        let _ = shutdown(&disk).await;
        // storage level: int key stored as column 0 (the documented contract)
        if matches!(verdict, Verdict::Pass) && case.key_ty == "int" && case.key == 0 {
            let mini = match Mini::disk(&case.disk, &dir.join("db")).await {
                Ok(m) => m,
                Err(e) => return fail("storage:reopen", e),
            };
            let ncols = case.cols.len();
            match storage_scan(&mini, ncols, None).await {
                Err(e) => verdict = fail("storage:scan-error", e),
                Ok(all) => {
                    for r in &case.ranges {
                        let kr = KeyRange {
                            start: match r.0 {
                                None => Bound::Unbounded,
                                Some((a, true)) => Bound::Included(DataValue::Int32(a)),
                                Some((a, false)) => Bound::Excluded(DataValue::Int32(a)),
                            },
                            end: match r.1 {
                                None => Bound::Unbounded,
                                Some((b, true)) => Bound::Included(DataValue::Int32(b)),
                                Some((b, false)) => Bound::Excluded(DataValue::Int32(b)),
                            },
                        };
                        st.eval();
                        st.class("storage-level-range");
                        let expect: Vec<Row> = all.iter().filter(|row| matches!(row[0], Val::Int(k) if in_range(k as i32, r))).cloned().collect();
                        match storage_scan(&mini, ncols, Some(kr)).await {
                            Ok(got) => {
                                if sorted(got.clone()) != sorted(expect.clone()) {
                                    verdict = fail("storage:range:wrong-rows", format!("scan(filter = {:?}) returned {} but filter(scan) is {}", r, fmt_rows(&sorted(got)), fmt_rows(&sorted(expect))));
                                    break;
                                }
                            }
                            Err(e) => {
                                verdict = fail("storage:range:error", format!("scan(filter = {:?}) failed: {e}", r));
                                break;
                            }
                        }
                    }
                }
            }
            mini.shutdown().await;
        }
        verdict
    });
    match r {
        Ok(v) => v,
        Err(p) => fail(format!("harness-panic:{}", panic_sig(&p)), p),
    }
}

pub fn def() -> PropDef {
    PropDef {
        id: "C13",
        level: "exploration",
        rule: "tape-generated table with a primary key of type int/bigint/smallint/varchar/date at any column position, 0-300 keys with gaps (distinct in two cases of three, else with runs of equal keys) loaded by 1-6 INSERTs in non-monotone order with interleaved deletes and compaction ticks, disk engine with generated block/row-set sizes on a real directory; 2-6 queries `select <permuted column subset> from t where <key range> [and residual]` with bound kinds =,<,<=,>,>=,between, two-sided, reversed operands and constants present/absent/below/above; oracle: optimized disk result == unoptimized disk result (full scan + filter) == memory engine; for an int key stored first also storage-level scan(filter=range) == filter(scan) through the public storage API; non-trivial = the range selects a non-empty proper subset of a table with >= 10 rows; distinct by (key type, key position, projection width, operator, block size, size class)",
        assumptions: vec!["the unoptimized plan (full scan followed by a filter) and the memory engine are the references", "the storage-level contract is: range on the first scanned column which is the INT primary key stored as column 0"],
        min_nontrivial: 20,
        parts: vec![part("range", 10_000, 200_000, strat, test)],
    }
}
