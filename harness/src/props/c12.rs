//! C12 — ORDER BY, LIMIT and OFFSET are honoured on every storage layout (metamorphic).

use std::cmp::Ordering;

use proptest::prelude::*;
use serde::{Deserialize, Serialize};

use super::sqlcase::*;
use crate::engine::*;
use crate::gens::sql::*;
use crate::gens::tape::{Tape, tape_strategy};
use crate::sqlrun::*;

#[derive(Clone, Debug, Serialize, Deserialize)]
pub struct OrdCase {
    pub db: DbSpec,
    /// statements after the load: deletes and "TICK"
    pub post: Vec<String>,
    pub query: Query,
    pub sql_base: String,
    pub sql_ordered: String,
    pub sql_full: String,
}

fn decode(ctx: &Ctx, tape: &[u32], disk: Option<DiskCfg>) -> OrdCase {
    let mut cfg = cfg_for(ctx, true);
    cfg.max_rows = 40;
    cfg.max_batches = 6;
    cfg.max_tables = 2;
    let mut t = Tape::new(tape);
    let db = gen_dbspec(&mut t, &cfg, disk);
    let mut post = vec![];
    for _ in 0..t.pick(4) {
        if t.chance(1, 3) {
            post.push("TICK".to_string());
        } else {
            let td = &db.schema[t.pick(db.schema.len())];
            let scope: Vec<ScopeCol> = td.cols.iter().map(|c| ScopeCol { alias: td.name.clone(), name: c.name.clone(), ty: c.ty }).collect();
            let mut c2 = cfg.clone();
            c2.subqueries = false;
            let mut g = Gen { t: &mut t, cfg: c2, schema: &db.schema, alias_no: 0 };
            let p = g.expr(&scope, &[], Ty::Bool, 2, false);
            post.push(format!("delete from {} where {}", td.name, p.print(Dialect::Rl)));
        }
    }
    // one in five (where a table has an INT key): a scan of one table, ordered by a key column
    // (the leading or another one of a composite key) or any column, with or without a key range
    let keyed: Vec<&TableDef> = db.schema.iter().filter(|td| td.cols.iter().any(|c| c.pk && c.ty == Ty::Int)).collect();
    let mut query = if !keyed.is_empty() && t.chance(1, 5) {
        let td = keyed[t.pick(keyed.len())];
        key_range_query(&mut t, td).unwrap()
    } else if db.schema.iter().any(|td| td.cols.len() >= 2) && t.chance(1, 12) {
        // sorting the output of a sorted derived table again
        let tds: Vec<&TableDef> = db.schema.iter().filter(|td| td.cols.len() >= 2).collect();
        let td = tds[t.pick(tds.len())];
        reorder_query(&mut t, td).unwrap()
    } else {
        let mut g = Gen { t: &mut t, cfg: cfg.clone(), schema: &db.schema, alias_no: 0 };
        g.query(0)
    };
    // this property is about ORDER BY / LIMIT / OFFSET: make sure most queries have them
    if cfg.distinct_complex || !query.distinct {
        // (not above a GROUP BY over an ordered derived table while that finding is open)
        let over_sortagg = !query.group_by.is_empty() && query.from.iter().any(|f| matches!(&f.source, Source::Derived(q) if !q.order_by.is_empty()));
        // (nor above an aggregation over a derived table with aggregate outputs: column-not-found family)
        let aggregating = !query.group_by.is_empty() || query.select.iter().any(|(e, _)| matches!(e, E::Agg(..)));
        let over_derived_agg = !cfg.derived_expr_items && aggregating && query.from.iter().any(|f| matches!(&f.source, Source::Derived(q) if q.select.iter().any(|(e, _)| matches!(e, E::Agg(..)))));
        let over_sortagg = over_sortagg || over_derived_agg;
        if query.order_by.is_empty() && t.chance(4, 5) && ((cfg.order_over_derived_sortagg && !over_derived_agg) || !over_sortagg) {
            let nk = t.range(1, query.select.len().min(3));
            for _ in 0..nk {
                let i = t.pick(query.select.len());
                if !query.order_by.iter().any(|(j, _)| *j == i) {
                    query.order_by.push((i, t.chance(1, 3)));
                }
            }
        }
        if query.limit.is_none() && t.chance(1, 2) {
            query.limit = Some([1u64, 0, 2, 3, 5, 12, 100][t.pick(7)]);
        }
        if query.offset.is_none() && t.chance(1, 3) {
            query.offset = Some([1u64, 0, 2, 7, 50][t.pick(5)]);
        }
    }
    OrdCase {
        // ORDER BY keys outside the select list are made visible in the first two variants
        sql_base: query.augmented().print_opts(Dialect::Rl, false, false),
        sql_ordered: query.augmented().print_opts(Dialect::Rl, true, false),
        sql_full: query.print(Dialect::Rl),
        db,
        post,
        query,
    }
}

fn strat(ctx: &Ctx) -> impl Strategy<Value = OrdCase> + use<> {
    let (off, strict, prop) = (ctx.off_switches(), ctx.strict, ctx.prop.clone());
    (tape_strategy(420), prop::option::weighted(0.8, disk_cfg_strategy(true))).prop_map(move |(tape, disk)| {
        let c = Ctx::switches_only(&prop, off.clone(), strict);
        decode(&c, &tape, disk)
    })
}

/// The order the property demands: NULL lowest, false < true, integers numerically, strings
/// bytewise — independent of risinglight's comparators.
pub fn cmp_val(a: &Val, b: &Val) -> Ordering {
    fn rank(v: &Val) -> u8 {
        match v {
            Val::Null => 0,
            _ => 1,
        }
    }
    match (a, b) {
        (Val::Bool(x), Val::Bool(y)) => x.cmp(y),
        (Val::Int(x), Val::Int(y)) => x.cmp(y),
        (Val::Str(x), Val::Str(y)) => x.as_bytes().cmp(y.as_bytes()),
        _ => rank(a).cmp(&rank(b)),
    }
}

fn cmp_keys(q: &Query, a: &Row, b: &Row) -> Ordering {
    for (i, desc) in &q.order_by {
        let o = cmp_val(&a[*i], &b[*i]);
        if o != Ordering::Equal {
            return if *desc { o.reverse() } else { o };
        }
    }
    Ordering::Equal
}

fn keys(q: &Query, rows: &[Row]) -> Vec<Row> {
    rows.iter().map(|r| q.order_by.iter().map(|(i, _)| r[*i].clone()).collect()).collect()
}

fn included(small: &[Row], big: &[Row]) -> bool {
    let mut b = sorted(big.to_vec());
    for r in sorted(small.to_vec()) {
        match b.binary_search(&r) {
            Ok(i) => {
                b.remove(i);
            }
            Err(_) => return false,
        }
    }
    true
}

fn test(ctx: &Ctx, case: &OrdCase, st: &mut Stats) -> Verdict {
    risinglight::verif::reset();
    let r = block_on(async {
        let db = match open_and_load(ctx, &case.db, "c12").await {
            Ok(db) => db,
            Err(e) => return fail("setup", e),
        };
        for s in &case.post {
            if s == "TICK" {
                if case.db.disk.is_some() {
                    tick().await;
                }
            } else {
                let _ = exec(&db, s).await;
            }
        }
        let _ = take_panics();
        // `q`: the query with every ORDER BY key selected (variants 1 and 2); the complete variant
        // is the original query, whose rows are the first `n` columns
        let aug = case.query.augmented();
        let q = &aug;
        let n = case.query.select.len();
        let hidden = !case.query.order_extra.is_empty();
        let cut = |rows: &[Row]| -> Vec<Row> { rows.iter().map(|r| r[..n.min(r.len())].to_vec()).collect() };
        let base = exec(&db, &case.sql_base).await;
        let ordered = exec(&db, &case.sql_ordered).await;
        let full = exec(&db, &case.sql_full).await;
        let panics = take_panics();
        st.evals(3);
        let v = match (&base, &ordered, &full) {
            (Out::Rejected(_), _, _) => Verdict::Discard("query rejected by the binder"),
            (Out::Rows(r0), Out::Rows(r1), Out::Rows(r2)) => {
                let has_order = !q.order_by.is_empty();
                if hidden {
                    st.class("order-by-non-selected");
                }
                // keys of a result of the complete variant: only the selected keys are visible
                let vis: Vec<(usize, bool)> = case.query.order_by.clone();
                let vkeys = |rows: &[Row]| -> Vec<Row> { rows.iter().map(|r| vis.iter().map(|(i, _)| r[*i].clone()).collect()).collect() };
                // is the order total on the ordered result (ties only between equal visible rows)?
                let total = has_order && r1.windows(2).all(|w| cmp_keys(q, &w[0], &w[1]) != Ordering::Equal || w[0][..n] == w[1][..n]);
                let limited = q.limit.is_some() || q.offset.is_some();
                if has_order {
                    st.class("order-by");
                }
                if limited {
                    st.class("limit-offset");
                }
                if q.order_by.iter().any(|(_, d)| *d) {
                    st.class("desc-key");
                }
                if q.order_by.len() >= 2 {
                    st.class("multi-key");
                }
                st.class(if case.db.disk.is_some() { "engine-disk" } else { "engine-memory" });
                if case.db.schema.iter().any(|td| td.table_pk.len() == 1) {
                    st.class("schema-has-table-level-key");
                }
                if case.db.schema.iter().any(|td| td.table_pk.len() >= 2) {
                    st.class("schema-has-composite-key");
                }
                // physical order differs from the requested order?
                let mut sorted_base = r0.clone();
                sorted_base.sort_by(|a, b| cmp_keys(q, a, b));
                let physical_differs = has_order && keys(q, &sorted_base) != keys(q, r0);
                if (has_order || limited) && !r0.is_empty() && (case.db.multi_rowset() || case.db.disk.is_none()) && (physical_differs || limited) {
                    st.nontrivial((q.features(), q.order_by.len(), q.order_by.iter().any(|(_, d)| *d), case.db.disk.is_some(), case.db.multi_rowset(), limited, r0.len().min(4)));
                }
                let n_total = r0.len();
                let mut err: Option<(&str, String)> = None;
                if has_order {
                    if sorted(r1.clone()) != sorted(r0.clone()) {
                        err = Some(("order:not-a-permutation", format!("ordered result is not a permutation of the un-ordered result: {} vs {}", fmt_rows(&sorted(r1.clone())), fmt_rows(&sorted(r0.clone())))));
                    } else if r1.windows(2).any(|w| cmp_keys(q, &w[0], &w[1]) == Ordering::Greater) {
                        err = Some(("order:not-sorted", format!("ordered result is not sorted on its keys: keys {}", fmt_rows(&keys(q, r1)))));
                    }
                }
                if err.is_none() && limited {
                    let m = q.offset.unwrap_or(0) as usize;
                    let expect = match q.limit {
                        Some(n) => (n as usize).min(n_total.saturating_sub(m)),
                        None => n_total.saturating_sub(m),
                    };
                    if r2.len() != expect {
                        err = Some(("limit:count", format!("LIMIT {:?} OFFSET {:?} over {} rows returned {} rows, expected {}", q.limit, q.offset, n_total, r2.len(), expect)));
                    } else if !included(r2, &cut(r0)) {
                        err = Some(("limit:invented-rows", format!("limited rows are not part of the full result: {}", fmt_rows(r2))));
                    } else if has_order {
                        let k1 = vkeys(r1);
                        let slice: Vec<Row> = k1.iter().skip(m).take(expect).cloned().collect();
                        let rows_slice: Vec<Row> = cut(r1).into_iter().skip(m).take(expect).collect();
                        if vkeys(r2) != slice {
                            err = Some(("limit:wrong-slice", format!("keys of the limited result {} are not rows {}..{} of the ordered result {}", fmt_rows(&vkeys(r2)), m, m + expect, fmt_rows(&k1))));
                        } else if total && *r2 != rows_slice {
                            err = Some(("limit:wrong-rows", format!("the order is total, but the limited result {} is not rows {}..{} of the ordered result {}", fmt_rows(r2), m, m + expect, fmt_rows(&cut(r1)))));
                        }
                    }
                } else if err.is_none() && has_order && total && *r2 != cut(r1) {
                    err = Some(("order:hidden-key", format!("the order is total, but the query ordered by non-selected keys returned {} and not {}", fmt_rows(r2), fmt_rows(&cut(r1)))));
                } else if err.is_none() && has_order && vkeys(r2) != vkeys(r1) {
                    err = Some(("order:unstable", "the same ordered query returned different key sequences".to_string()));
                }
                match err {
                    None => Verdict::Pass,
                    Some((sig, e)) => fail(sig, format!("{e}\n  sql: {}\n  engine: {:?}\n  post-load statements: {:?}", case.sql_full, case.db.disk, case.post)),
                }
            }
            _ => {
                // the variant that failed (the base query first: if it fails the others say nothing)
                let bad = [&base, &ordered, &full].into_iter().find(|o| !matches!(o, Out::Rows(_))).unwrap();
                match no_answer(bad, &panics) {
                    Ok(class) => {
                        st.class(&class);
                        Verdict::Discard("a variant returned an error (executability is decided by C17)")
                    }
                    Err(sig) => fail(
                        sig,
                        format!("a variant of the query fails outside planning: {} {:?}\n  sql: {}\n  engine: {:?}\n  post-load statements: {:?}", bad.brief(), panics, case.sql_full, case.db.disk, case.post),
                    ),
                }
            }
        };
        close(&case.db, &db).await;
        v
    });
    match r {
        Ok(v) => v,
        Err(p) => fail(format!("harness-panic:{}", panic_sig(&p)), p),
    }
}

pub fn def() -> PropDef {
    PropDef {
        id: "C12",
        level: "exploration",
        rule: "tape-generated tables (with and without primary key, up to 40 rows in up to 6 inserts = row-sets, keys in non-monotone order), deletes and compaction ticks after the load, disk engine with tiny block/row-set sizes (80 %) or memory engine; a generated query is run in three variants: without ORDER BY/LIMIT/OFFSET, with ORDER BY only, complete; the ordered result must be a permutation of the base result and sorted on its keys (NULL lowest, desc reversed), LIMIT n OFFSET m must return rows m..m+n of the ordered key sequence, min(n, max(0,N-m)) rows all contained in the base result; non-trivial = ORDER BY or LIMIT present, base result non-empty, several row-sets, and the physical order differs from the requested one or a limit applies; distinct by (features, key count, desc, engine, layout, size)",
        assumptions: vec!["the key order demanded is: NULL lowest, false < true, integers numerically, strings bytewise"],
        min_nontrivial: 20,
        parts: vec![part("metamorphic", 20_000, 400_000, strat, test)],
    }
}
