#!/bin/bash
# tools/fuzz_campaign.sh <Cxx> <part> <runs per job> <jobs>: coverage-guided campaign (libFuzzer, ASan) over one
# property part; the input bytes are the entropy of the part's generator, the oracle is the part's own test.
# Prints "VIOLATION property=<id> replay=<file>" and returns 1 if the oracle failed (the replay file is in the
# usual format); anything else (build problem, libFuzzer timeout / OOM) is reported as a note and returns 0 or 2:
#   0 = campaign ran, no violation     2 = campaign could not run (not a verdict)
# Writes a one-line JSON summary to $VERIF_DIR/evidence/.fuzz-<Cxx>-<part>.json
set -u
P=$1; PART=$2; RUNS=$3; JOBS=$4
VD="${VERIF_DIR:-/verif}"
cd "$VD/harness" || exit 2
export CARGO_NET_OFFLINE=true
SEED="${VERIF_SEED:-1}"
W=$(mktemp -d /tmp/rlv-fuzz-XXXXXX)
trap 'rm -rf "$W"' EXIT
if ! RUSTFLAGS="--cfg tokio_unstable" cargo fuzz build --fuzz-dir "$VD/fuzz" prop > "$W/build.log" 2>&1; then
  tail -5 "$W/build.log"; echo "fuzz: build failed (campaign skipped)"; exit 2
fi
BIN="$VD/fuzz/target/x86_64-unknown-linux-gnu/release/prop"
mkdir -p "$W/corpus" "$VD/replays/$P/fuzz-artifacts"
python3 - "$W/corpus" "$SEED" <<'PY'
import random,sys
random.seed(int(sys.argv[2]))
for i in range(12):
    open(f"{sys.argv[1]}/seed{i}","wb").write(bytes(random.getrandbits(8) for _ in range(1500 + 400*i)))
PY
pids=()
for j in $(seq 1 $JOBS); do
  RLV_FUZZ_PROP=$P RLV_FUZZ_PART=$PART VERIF_DIR="$VD" "$BIN" -runs=$RUNS -max_len=6144 -len_control=0 -seed=$((SEED*100+j)) \
     -timeout=120 -rss_limit_mb=6000 -artifact_prefix="$VD/replays/$P/fuzz-artifacts/$PART-" -print_final_stats=1 "$W/corpus" > "$W/job$j.log" 2>&1 &
  pids+=($!)
done
for p in "${pids[@]}"; do wait $p; done
python3 - "$W" "$P" "$PART" "$RUNS" "$JOBS" "$VD" <<'PY'
import sys,re,glob,json
W,P,PART,RUNS,JOBS,VD=sys.argv[1:]
execs=0; cov=0; ft=0; corp=0; viol=None; notes=[]
for f in sorted(glob.glob(W+'/job*.log')):
    t=open(f,errors='replace').read()
    m=re.search(r'stat::number_of_executed_units:\s*(\d+)',t)
    if m: execs+=int(m.group(1))
    for m in re.finditer(r'cov: (\d+) ft: (\d+) corp: (\d+)',t):
        cov=max(cov,int(m.group(1))); ft=max(ft,int(m.group(2))); corp=max(corp,int(m.group(3)))
    m=re.search(r'^VIOLATION property=\S+ replay=(\S+)',t,re.M)
    if m and not viol: viol=m.group(1)
    elif 'ERROR: AddressSanitizer' in t: notes.append('AddressSanitizer report in '+f.split('/')[-1])
    elif re.search(r'ERROR: libFuzzer: (timeout|out-of-memory)',t): notes.append('libFuzzer '+re.search(r'ERROR: libFuzzer: (\S+)',t).group(1)+' (inconclusive, not a verdict)')
    elif 'Done ' not in t and 'stat::' not in t: notes.append('job ended early: '+t.strip().splitlines()[-1][:160] if t.strip() else 'job produced no output')
s={'engine':'libFuzzer (cargo-fuzz, ASan) over the part\'s proptest strategy via the pass-through RNG','part':PART,'jobs':int(JOBS),'runs_per_job':int(RUNS),'executions':execs,'coverage_edges':cov,'features':ft,'corpus_units':corp,'violation':viol,'notes':notes}
json.dump(s,open(f'{VD}/evidence/.fuzz-{P}-{PART}.json','w'))
print('fuzz %s/%s: executions=%d edges=%d features=%d corpus=%d notes=%s'%(P,PART,execs,cov,ft,corp,notes))
if viol:
    print(f'VIOLATION property={P} replay={viol}'); sys.exit(1)
PY
