//! Registry of the property checks.
use crate::engine::*;

pub mod c01;
pub mod c01_rules;
pub mod c02;
pub mod c06;
mod c06_sql;
mod c06_vals;
pub mod c11;
mod c11_data;
pub mod c18;
pub mod c19;
mod c19_model;
pub mod c20;
pub mod selftest;
pub mod sqlcase;

pub fn all() -> Vec<PropDef> {
    vec![selftest::def(), c01::def(), c02::def(), c06::def(), c11::def(), c18::def(), c19::def(), c20::def()]
}
