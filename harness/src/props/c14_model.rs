//! C14 model: typed scalar-expression AST, SQL printer, row-at-a-time reference interpreter
//! (three-valued logic, checked arithmetic, range-checked casts). Independent of `array/ops.rs`.
use std::str::FromStr;

use chrono::{Datelike, NaiveDate};
use rust_decimal::Decimal;
use rust_decimal::prelude::ToPrimitive;
use serde::{Deserialize, Serialize};

use crate::sqlrun::Val;

/// Days from 0001-01-01 (CE day 1) to 1970-01-01.
const EPOCH_CE: i32 = 719_163;

#[derive(Clone, Copy, Debug, PartialEq, Eq, Hash, PartialOrd, Ord, Serialize, Deserialize)]
pub enum Ty {
    Null,
    Bool,
    I16,
    I32,
    I64,
    F64,
    Dec,
    Str,
    Date,
    Intv,
}

impl Ty {
    pub fn is_num(self) -> bool {
        matches!(self, Ty::I16 | Ty::I32 | Ty::I64 | Ty::F64 | Ty::Dec)
    }
    pub fn is_int(self) -> bool {
        matches!(self, Ty::I16 | Ty::I32 | Ty::I64)
    }
    pub fn sql(self) -> &'static str {
        match self {
            Ty::Null => "null",
            Ty::Bool => "boolean",
            Ty::I16 => "smallint",
            Ty::I32 => "int",
            Ty::I64 => "bigint",
            Ty::F64 => "double",
            Ty::Dec => "decimal",
            Ty::Str => "varchar",
            Ty::Date => "date",
            Ty::Intv => "interval",
        }
    }
    pub fn name(self) -> &'static str {
        match self {
            Ty::Null => "null",
            Ty::Bool => "bool",
            Ty::I16 => "int16",
            Ty::I32 => "int32",
            Ty::I64 => "int64",
            Ty::F64 => "float64",
            Ty::Dec => "decimal",
            Ty::Str => "string",
            Ty::Date => "date",
            Ty::Intv => "interval",
        }
    }
    pub fn int_range(self) -> (i128, i128) {
        match self {
            Ty::I16 => (i16::MIN as i128, i16::MAX as i128),
            Ty::I32 => (i32::MIN as i128, i32::MAX as i128),
            _ => (i64::MIN as i128, i64::MAX as i128),
        }
    }
}

/// A scalar value. Integers of all widths are `I`; the width comes from the static type.
#[derive(Clone, Debug, PartialEq, Serialize, Deserialize)]
pub enum V {
    Null,
    B(bool),
    I(i64),
    F(f64),
    /// decimal, as text
    D(String),
    S(String),
    /// days since 1970-01-01
    Dt(i32),
    /// (months, days)
    Iv(i32, i32),
}

impl V {
    pub fn is_null(&self) -> bool {
        matches!(self, V::Null)
    }
    pub fn dec(&self) -> Decimal {
        match self {
            V::D(s) => Decimal::from_str(s).unwrap(),
            _ => panic!("not a decimal"),
        }
    }
    pub fn of_dec(d: Decimal) -> V {
        V::D(d.to_string())
    }
    /// Canonical form for comparison with the engine's output.
    pub fn to_val(&self) -> Val {
        match self {
            V::Null => Val::Null,
            V::B(b) => Val::Bool(*b),
            V::I(i) => Val::Int(*i),
            V::F(f) => Val::f(if *f == 0.0 { 0.0 } else { *f }),
            V::D(_) => {
                let d = self.dec();
                Val::Other(if d.is_zero() { "dec:0".into() } else { format!("dec:{}", d.normalize()) })
            }
            V::S(s) => Val::Str(s.clone()),
            V::Dt(d) => Val::Other(format!("date:{}", date_str(*d))),
            V::Iv(m, d) => Val::Other(format!("interval:{m}m{d}d")),
        }
    }
}

/// Canonicalise an engine value the same way (`-0.0` and `0.0` are one value, so are `-0` / `0`).
pub fn canon(v: &Val) -> Val {
    match v {
        Val::F64(b) if f64::from_bits(*b) == 0.0 => Val::f(0.0),
        Val::Other(s) if s.starts_with("dec:") => {
            let d = Decimal::from_str(&s[4..]).map(|d| d.is_zero()).unwrap_or(false);
            if d { Val::Other("dec:0".into()) } else { v.clone() }
        }
        _ => v.clone(),
    }
}

pub fn date_str(days: i32) -> String {
    NaiveDate::from_num_days_from_ce_opt(days + EPOCH_CE)
        .map(|d| d.format("%Y-%m-%d").to_string())
        .unwrap_or_else(|| format!("<bad date {days}>"))
}

pub fn date_of(y: i32, m: u32, d: u32) -> i32 {
    NaiveDate::from_ymd_opt(y, m, d).unwrap().num_days_from_ce() - EPOCH_CE
}

#[derive(Clone, Copy, Debug, PartialEq, Eq, Hash, Serialize, Deserialize)]
pub enum Bop {
    Add,
    Sub,
    Mul,
    Div,
    Rem,
    Eq,
    Ne,
    Lt,
    Le,
    Gt,
    Ge,
    And,
    Or,
    Xor,
    Concat,
}

impl Bop {
    pub fn is_arith(self) -> bool {
        matches!(self, Bop::Add | Bop::Sub | Bop::Mul | Bop::Div | Bop::Rem)
    }
    pub fn is_cmp(self) -> bool {
        matches!(self, Bop::Eq | Bop::Ne | Bop::Lt | Bop::Le | Bop::Gt | Bop::Ge)
    }
    pub fn is_logic(self) -> bool {
        matches!(self, Bop::And | Bop::Or | Bop::Xor)
    }
    pub fn sql(self) -> &'static str {
        match self {
            Bop::Add => "+",
            Bop::Sub => "-",
            Bop::Mul => "*",
            Bop::Div => "/",
            Bop::Rem => "%",
            Bop::Eq => "=",
            Bop::Ne => "<>",
            Bop::Lt => "<",
            Bop::Le => "<=",
            Bop::Gt => ">",
            Bop::Ge => ">=",
            Bop::And => "and",
            Bop::Or => "or",
            Bop::Xor => "xor",
            Bop::Concat => "||",
        }
    }
    pub fn name(self) -> &'static str {
        match self {
            Bop::Add => "add",
            Bop::Sub => "sub",
            Bop::Mul => "mul",
            Bop::Div => "div",
            Bop::Rem => "rem",
            Bop::Eq => "eq",
            Bop::Ne => "ne",
            Bop::Lt => "lt",
            Bop::Le => "le",
            Bop::Gt => "gt",
            Bop::Ge => "ge",
            Bop::And => "and",
            Bop::Or => "or",
            Bop::Xor => "xor",
            Bop::Concat => "concat",
        }
    }
}

#[derive(Clone, Copy, Debug, PartialEq, Eq, Hash, Serialize, Deserialize)]
pub enum Uop {
    Neg,
    Not,
    IsNull,
    IsNotNull,
}

#[derive(Clone, Copy, Debug, PartialEq, Eq, Hash, Serialize, Deserialize)]
pub enum Field {
    Year,
    Month,
    Day,
}

#[derive(Clone, Debug, PartialEq, Serialize, Deserialize)]
pub enum E {
    Col(usize),
    Lit(Ty, V),
    /// the untyped literal NULL
    RawNull,
    Un(Uop, Box<E>),
    Bin(Bop, Box<E>, Box<E>),
    Cast(Ty, Box<E>),
    /// CASE WHEN c THEN a [ELSE b] END
    Case(Box<E>, Box<E>, Option<Box<E>>),
    In(Box<E>, Vec<E>, bool),
    Like(Box<E>, String, bool),
    Between(Box<E>, Box<E>, Box<E>, bool),
    Substr(Box<E>, Option<Box<E>>, Option<Box<E>>),
    Replace(Box<E>, String, String),
    Repeat(Box<E>, Box<E>),
    Extract(Field, Box<E>),
}

#[derive(Clone, Copy, Debug, PartialEq, Eq, Hash)]
pub enum RefErr {
    Overflow,
    CastRange,
    CastParse,
    /// the SQL answer is dialect-dependent or masked by lazy evaluation: not generated
    Ambiguous,
}

impl RefErr {
    pub fn name(self) -> &'static str {
        match self {
            RefErr::Overflow => "overflow",
            RefErr::CastRange => "cast-range",
            RefErr::CastParse => "cast-parse",
            RefErr::Ambiguous => "ambiguous",
        }
    }
}

pub fn sql_str(s: &str) -> String {
    format!("'{}'", s.replace('\'', "''"))
}

fn f64_text(f: f64) -> String {
    let s = format!("{:?}", f.abs());
    if f < 0.0 || (f == 0.0 && f.is_sign_negative()) { format!("-{s}") } else { s }
}

/// A literal as it is written inside an expression (typed exactly as `ty`).
pub fn lit_sql(ty: Ty, v: &V) -> String {
    match (ty, v) {
        (Ty::Null, _) => "NULL".into(),
        (_, V::Null) => format!("cast(NULL as {})", ty.sql()),
        (_, V::B(b)) => b.to_string(),
        (Ty::I32, V::I(i)) if *i >= 0 => i.to_string(),
        (Ty::I32, V::I(i)) if *i > i32::MIN as i64 => format!("(-{})", -i),
        (_, V::I(i)) => format!("cast({i} as {})", ty.sql()),
        (_, V::F(f)) => format!("cast({} as double)", f64_text(*f)),
        (_, V::D(s)) => {
            if let Some(p) = s.strip_prefix('-') { format!("(-{p})") } else { s.clone() }
        }
        (_, V::S(s)) => sql_str(s),
        (_, V::Dt(d)) => format!("date '{}'", date_str(*d)),
        (_, V::Iv(m, d)) => {
            if *d != 0 || *m == 0 {
                format!("interval '{d}' day")
            } else if m % 12 == 0 {
                format!("interval '{}' year", m / 12)
            } else {
                format!("interval '{m}' month")
            }
        }
    }
}

/// A value as it is written in INSERT ... VALUES (the column type does the conversion).
pub fn cell_sql(v: &V) -> String {
    match v {
        V::Null => "NULL".into(),
        V::B(b) => b.to_string(),
        V::I(i) => i.to_string(),
        V::F(f) => f64_text(*f),
        V::D(s) => s.clone(),
        V::S(s) => sql_str(s),
        V::Dt(d) => format!("date '{}'", date_str(*d)),
        V::Iv(..) => unreachable!(),
    }
}

impl E {
    pub fn b(self) -> Box<E> {
        Box::new(self)
    }

    pub fn children(&self) -> Vec<&E> {
        match self {
            E::Col(_) | E::Lit(..) | E::RawNull => vec![],
            E::Un(_, a) | E::Cast(_, a) | E::Like(a, _, _) | E::Replace(a, _, _) | E::Extract(_, a) => vec![a],
            E::Bin(_, a, b) | E::Repeat(a, b) => vec![a, b],
            E::Case(c, a, b) => {
                let mut v: Vec<&E> = vec![c, a];
                v.extend(b.as_deref());
                v
            }
            E::In(a, l, _) => std::iter::once(&**a).chain(l.iter()).collect(),
            E::Between(a, b, c, _) => vec![a, b, c],
            E::Substr(a, b, c) => {
                let mut v: Vec<&E> = vec![a];
                v.extend(b.as_deref());
                v.extend(c.as_deref());
                v
            }
        }
    }

    pub fn is_leaf(&self) -> bool {
        matches!(self, E::Col(_) | E::Lit(..) | E::RawNull)
    }

    /// All sub-expressions in post-order (children before parents), the root last.
    pub fn postorder<'a>(&'a self, out: &mut Vec<&'a E>) {
        for c in self.children() {
            c.postorder(out);
        }
        out.push(self);
    }

    pub fn size(&self) -> usize {
        1 + self.children().iter().map(|c| c.size()).sum::<usize>()
    }

    pub fn uses_cols(&self, out: &mut Vec<usize>) {
        if let E::Col(i) = self {
            if !out.contains(i) {
                out.push(*i);
            }
        }
        for c in self.children() {
            c.uses_cols(out);
        }
    }

    pub fn is_const(&self) -> bool {
        !matches!(self, E::Col(_)) && self.children().iter().all(|c| c.is_const())
    }

    /// Static type, mirroring `planner/rules/type_.rs`.
    pub fn ty(&self, cols: &[Ty]) -> Ty {
        match self {
            E::Col(i) => cols[*i],
            E::Lit(t, _) => *t,
            E::RawNull => Ty::Null,
            E::Un(Uop::Neg, a) => a.ty(cols),
            E::Un(..) => Ty::Bool,
            E::Bin(op, a, b) => {
                let (ta, tb) = (a.ty(cols), b.ty(cols));
                if op.is_arith() {
                    if ta == Ty::Null || tb == Ty::Null {
                        Ty::Null
                    } else if ta == Ty::Date {
                        Ty::Date
                    } else {
                        ta.max(tb)
                    }
                } else if *op == Bop::Concat {
                    Ty::Str
                } else {
                    Ty::Bool
                }
            }
            E::Cast(t, _) => *t,
            E::Case(_, a, _) => a.ty(cols),
            E::In(..) | E::Like(..) | E::Between(..) => Ty::Bool,
            E::Substr(..) | E::Replace(..) | E::Repeat(..) => Ty::Str,
            E::Extract(..) => Ty::I32,
        }
    }

    /// Name of the root operator and its operand types, for signatures.
    pub fn op_name(&self, cols: &[Ty]) -> (String, String) {
        let tys = |v: Vec<&E>| v.iter().map(|e| e.ty(cols).name()).collect::<Vec<_>>().join(",");
        let name = match self {
            E::Col(_) => "col".to_string(),
            E::Lit(..) | E::RawNull => "lit".to_string(),
            E::Un(Uop::Neg, _) => "neg".into(),
            E::Un(Uop::Not, _) => "not".into(),
            E::Un(Uop::IsNull, _) => "isnull".into(),
            E::Un(Uop::IsNotNull, _) => "isnotnull".into(),
            E::Bin(op, ..) => op.name().into(),
            E::Cast(t, _) => format!("cast-to-{}", t.name()),
            E::Case(_, _, Some(_)) => "case".into(),
            E::Case(_, _, None) => "case-noelse".into(),
            E::In(_, _, neg) => if *neg { "notin" } else { "in" }.into(),
            E::Like(_, _, neg) => if *neg { "notlike" } else { "like" }.into(),
            E::Between(_, _, _, neg) => if *neg { "notbetween" } else { "between" }.into(),
            E::Substr(..) => "substring".into(),
            E::Replace(..) => "replace".into(),
            E::Repeat(..) => "repeat".into(),
            E::Extract(f, _) => format!("extract-{f:?}").to_lowercase(),
        };
        (name, tys(self.children()))
    }

    pub fn sql(&self) -> String {
        match self {
            E::Col(i) => format!("c{i}"),
            E::Lit(t, v) => lit_sql(*t, v),
            E::RawNull => "NULL".into(),
            E::Un(Uop::Neg, a) => format!("(-{})", a.sql()),
            E::Un(Uop::Not, a) => format!("(not {})", a.sql()),
            E::Un(Uop::IsNull, a) => format!("({} is null)", a.sql()),
            E::Un(Uop::IsNotNull, a) => format!("({} is not null)", a.sql()),
            E::Bin(op, a, b) => format!("({} {} {})", a.sql(), op.sql(), b.sql()),
            E::Cast(t, a) => format!("cast({} as {})", a.sql(), t.sql()),
            E::Case(c, a, Some(b)) => format!("(case when {} then {} else {} end)", c.sql(), a.sql(), b.sql()),
            E::Case(c, a, None) => format!("(case when {} then {} end)", c.sql(), a.sql()),
            E::In(a, l, neg) => format!(
                "({} {}in ({}))",
                a.sql(),
                if *neg { "not " } else { "" },
                l.iter().map(|e| e.sql()).collect::<Vec<_>>().join(", ")
            ),
            E::Like(a, p, neg) => format!("({} {}like {})", a.sql(), if *neg { "not " } else { "" }, sql_str(p)),
            E::Between(a, lo, hi, neg) => {
                format!("({} {}between {} and {})", a.sql(), if *neg { "not " } else { "" }, lo.sql(), hi.sql())
            }
            E::Substr(a, f, l) => {
                let mut s = format!("substring({}", a.sql());
                if let Some(f) = f {
                    s += &format!(" from {}", f.sql());
                }
                if let Some(l) = l {
                    s += &format!(" for {}", l.sql());
                }
                s + ")"
            }
            E::Replace(a, f, t) => format!("replace({}, {}, {})", a.sql(), sql_str(f), sql_str(t)),
            E::Repeat(a, n) => format!("repeat({}, {})", a.sql(), n.sql()),
            E::Extract(f, a) => format!("extract({} from {})", format!("{f:?}").to_lowercase(), a.sql()),
        }
    }

    /// Replace every column by the literal of its value in `row` (the constant instance).
    /// With `untyped` (bit 0: under arithmetic / comparison, bit 1: under AND / OR), a NULL
    /// operand of such a node is written as the bare literal NULL.
    pub fn subst(&self, cols: &[Ty], row: &[V], untyped: u8) -> E {
        self.subst_in(cols, row, untyped, false)
    }

    fn subst_in(&self, cols: &[Ty], row: &[V], untyped: u8, here: bool) -> E {
        let s = |e: &E| e.subst_in(cols, row, untyped, false).b();
        match self {
            E::Col(i) => {
                if here && row[*i].is_null() {
                    E::RawNull
                } else {
                    E::Lit(cols[*i], row[*i].clone())
                }
            }
            E::Lit(..) | E::RawNull => self.clone(),
            E::Un(op, a) => E::Un(*op, s(a)),
            E::Bin(op, a, b) => {
                let h = (untyped & 1 != 0 && (op.is_arith() || op.is_cmp()))
                    || (untyped & 2 != 0 && matches!(op, Bop::And | Bop::Or));
                let su = |e: &E| e.subst_in(cols, row, untyped, h).b();
                E::Bin(*op, su(a), su(b))
            }
            E::Cast(t, a) => E::Cast(*t, s(a)),
            E::Case(c, a, b) => E::Case(s(c), s(a), b.as_ref().map(|b| s(b))),
            E::In(a, l, n) => E::In(s(a), l.iter().map(|e| e.subst_in(cols, row, untyped, false)).collect(), *n),
            E::Like(a, p, n) => E::Like(s(a), p.clone(), *n),
            E::Between(a, b, c, n) => E::Between(s(a), s(b), s(c), *n),
            E::Substr(a, b, c) => E::Substr(s(a), b.as_ref().map(|b| s(b)), c.as_ref().map(|c| s(c))),
            E::Replace(a, f, t) => E::Replace(s(a), f.clone(), t.clone()),
            E::Repeat(a, n) => E::Repeat(s(a), s(n)),
            E::Extract(f, a) => E::Extract(*f, s(a)),
        }
    }

    /// The SQL value of the expression on one row.
    pub fn eval(&self, cols: &[Ty], row: &[V]) -> Result<V, RefErr> {
        let ev = |e: &E| e.eval(cols, row);
        match self {
            E::Col(i) => Ok(row[*i].clone()),
            E::Lit(_, v) => Ok(v.clone()),
            E::RawNull => Ok(V::Null),
            E::Un(Uop::IsNull, a) => Ok(V::B(ev(a)?.is_null())),
            E::Un(Uop::IsNotNull, a) => Ok(V::B(!ev(a)?.is_null())),
            E::Un(Uop::Not, a) => Ok(match ev(a)? {
                V::B(b) => V::B(!b),
                _ => V::Null,
            }),
            E::Un(Uop::Neg, a) => {
                let t = a.ty(cols);
                Ok(match ev(a)? {
                    V::I(i) => {
                        let r = -(i as i128);
                        let (lo, hi) = t.int_range();
                        if r < lo || r > hi {
                            return Err(RefErr::Overflow);
                        }
                        V::I(r as i64)
                    }
                    V::F(f) => V::F(-f),
                    v @ V::D(_) => V::of_dec(-v.dec()),
                    _ => V::Null,
                })
            }
            E::Bin(op, a, b) if op.is_logic() => {
                let (ra, rb) = (ev(a), ev(b));
                let absorbing = |r: &Result<V, RefErr>| match (op, r) {
                    (Bop::And, Ok(V::B(false))) | (Bop::Or, Ok(V::B(true))) => true,
                    _ => false,
                };
                if ra.is_err() || rb.is_err() {
                    // SQL does not say whether FALSE AND <error> is FALSE or an error
                    return Err(if absorbing(&ra) || absorbing(&rb) {
                        RefErr::Ambiguous
                    } else {
                        ra.err().or(rb.err()).unwrap()
                    });
                }
                let tv = |v: V| match v {
                    V::B(b) => Some(b),
                    _ => None,
                };
                let (x, y) = (tv(ra.unwrap()), tv(rb.unwrap()));
                Ok(match op {
                    Bop::And => match (x, y) {
                        (Some(false), _) | (_, Some(false)) => V::B(false),
                        (Some(true), Some(true)) => V::B(true),
                        _ => V::Null,
                    },
                    Bop::Or => match (x, y) {
                        (Some(true), _) | (_, Some(true)) => V::B(true),
                        (Some(false), Some(false)) => V::B(false),
                        _ => V::Null,
                    },
                    _ => match (x, y) {
                        (Some(p), Some(q)) => V::B(p ^ q),
                        _ => V::Null,
                    },
                })
            }
            E::Bin(op, a, b) => {
                let (ta, tb) = (a.ty(cols), b.ty(cols));
                let (x, y) = (ev(a)?, ev(b)?);
                if op.is_arith() {
                    arith(*op, ta, &x, tb, &y)
                } else if op.is_cmp() {
                    Ok(compare(ta, &x, tb, &y).map(|o| V::B(cmp_holds(*op, o))).unwrap_or(V::Null))
                } else {
                    Ok(match (x, y) {
                        (V::S(p), V::S(q)) => V::S(p + &q),
                        _ => V::Null,
                    })
                }
            }
            E::Cast(to, a) => cast(a.ty(cols), *to, ev(a)?),
            E::Case(c, a, b) => {
                let rc = ev(c)?;
                let ra = ev(a);
                let rb = match b {
                    Some(b) => ev(b),
                    None => Ok(V::Null),
                };
                let take_then = rc == V::B(true);
                let (chosen, other) = if take_then { (ra, rb) } else { (rb, ra) };
                match (chosen, other) {
                    (Err(e), _) => Err(e),
                    // an error in the branch that is not selected: lazy or eager is dialect-dependent
                    (Ok(_), Err(_)) => Err(RefErr::Ambiguous),
                    (Ok(v), Ok(_)) => Ok(v),
                }
            }
            E::In(a, l, neg) => {
                let ta = a.ty(cols);
                let x = ev(a)?;
                let rs: Vec<Result<V, RefErr>> = l.iter().map(ev).collect();
                let mut any_true = false;
                let mut any_null = false;
                for (e, r) in l.iter().zip(&rs) {
                    if let Ok(y) = r {
                        match compare(ta, &x, e.ty(cols), y) {
                            Some(std::cmp::Ordering::Equal) => any_true = true,
                            None => any_null = true,
                            _ => {}
                        }
                    }
                }
                if let Some(e) = rs.iter().find_map(|r| r.as_ref().err()) {
                    return Err(if any_true { RefErr::Ambiguous } else { *e });
                }
                let r = if any_true {
                    Some(true)
                } else if any_null {
                    None
                } else {
                    Some(false)
                };
                Ok(r.map(|b| V::B(b != *neg)).unwrap_or(V::Null))
            }
            E::Like(a, p, neg) => Ok(match ev(a)? {
                V::S(s) => {
                    let (s, p): (Vec<char>, Vec<char>) = (s.chars().collect(), p.chars().collect());
                    V::B(like(&s, &p) != *neg)
                }
                _ => V::Null,
            }),
            E::Between(a, lo, hi, neg) => {
                let ge = E::Bin(Bop::Ge, a.clone(), lo.clone());
                let le = E::Bin(Bop::Le, a.clone(), hi.clone());
                let r = E::Bin(Bop::And, ge.b(), le.b());
                if *neg { E::Un(Uop::Not, r.b()).eval(cols, row) } else { r.eval(cols, row) }
            }
            E::Substr(a, f, l) => {
                let s = ev(a)?;
                let f = match f {
                    Some(f) => ev(f)?,
                    None => V::I(1),
                };
                let l = match l {
                    Some(l) => ev(l)?,
                    None => V::I(i32::MAX as i64),
                };
                Ok(match (s, f, l) {
                    (V::S(s), V::I(f), V::I(l)) => {
                        if f < 0 && l >= 0 {
                            // a negative position counts characters from the end of the string
                            // (tests/sql/substring.slt, taken from DuckDB, pins this for ASCII);
                            // positions before the start of the string are left open
                            let n = s.chars().count() as i64;
                            if -f > n {
                                return Err(RefErr::Ambiguous);
                            }
                            return Ok(V::S(s.chars().skip((n + f) as usize).take(l.min(n) as usize).collect()));
                        }
                        if f < 0 || l < 0 {
                            // negative length: dialects disagree
                            return Err(RefErr::Ambiguous);
                        }
                        let lo = f.max(1);
                        let hi = (f + l).max(lo);
                        V::S(s.chars().skip((lo - 1) as usize).take((hi - lo) as usize).collect())
                    }
                    _ => V::Null,
                })
            }
            E::Replace(a, f, t) => Ok(match ev(a)? {
                V::S(s) => V::S(s.replace(f.as_str(), t)),
                _ => V::Null,
            }),
            E::Repeat(a, n) => Ok(match (ev(a)?, ev(n)?) {
                (V::S(s), V::I(n)) => V::S(s.repeat(n.clamp(0, 1 << 20) as usize)),
                _ => V::Null,
            }),
            E::Extract(f, a) => Ok(match ev(a)? {
                V::Dt(d) => {
                    let nd = NaiveDate::from_num_days_from_ce_opt(d + EPOCH_CE).ok_or(RefErr::Ambiguous)?;
                    V::I(match f {
                        Field::Year => nd.year() as i64,
                        Field::Month => nd.month() as i64,
                        Field::Day => nd.day() as i64,
                    })
                }
                _ => V::Null,
            }),
        }
    }
}

fn like(s: &[char], p: &[char]) -> bool {
    match p.first() {
        None => s.is_empty(),
        Some('%') => (0..=s.len()).any(|k| like(&s[k..], &p[1..])),
        Some('_') => !s.is_empty() && like(&s[1..], &p[1..]),
        Some(c) => s.first() == Some(c) && like(&s[1..], &p[1..]),
    }
}

fn cmp_holds(op: Bop, o: std::cmp::Ordering) -> bool {
    use std::cmp::Ordering::*;
    match op {
        Bop::Eq => o == Equal,
        Bop::Ne => o != Equal,
        Bop::Lt => o == Less,
        Bop::Le => o != Greater,
        Bop::Gt => o == Greater,
        _ => o != Less,
    }
}

fn to_dec(v: &V) -> Option<Decimal> {
    match v {
        V::I(i) => Some(Decimal::from(*i)),
        V::F(f) => Decimal::from_f64_retain(*f),
        V::D(_) => Some(v.dec()),
        _ => None,
    }
}

fn to_f64(v: &V) -> Option<f64> {
    match v {
        V::I(i) => Some(*i as f64),
        V::F(f) => Some(*f),
        _ => None,
    }
}

/// None = NULL (an operand is NULL). Mixed numeric operands are promoted to the wider type.
fn compare(ta: Ty, x: &V, tb: Ty, y: &V) -> Option<std::cmp::Ordering> {
    if x.is_null() || y.is_null() {
        return None;
    }
    if ta.is_num() && tb.is_num() {
        let t = ta.max(tb);
        return match t {
            Ty::Dec => to_dec(x)?.partial_cmp(&to_dec(y)?),
            Ty::F64 => to_f64(x)?.partial_cmp(&to_f64(y)?),
            _ => match (x, y) {
                (V::I(p), V::I(q)) => Some(p.cmp(q)),
                _ => None,
            },
        };
    }
    match (x, y) {
        (V::B(p), V::B(q)) => Some(p.cmp(q)),
        (V::S(p), V::S(q)) => Some(p.as_str().cmp(q.as_str())),
        (V::Dt(p), V::Dt(q)) => Some(p.cmp(q)),
        _ => None,
    }
}

fn arith(op: Bop, ta: Ty, x: &V, tb: Ty, y: &V) -> Result<V, RefErr> {
    if x.is_null() || y.is_null() {
        return Ok(V::Null);
    }
    if ta == Ty::Date {
        let (V::Dt(d), V::Iv(m, dd)) = (x, y) else { return Ok(V::Null) };
        let (m, dd) = if op == Bop::Sub { (-m, -dd) } else { (*m, *dd) };
        return add_interval(*d, m, dd).map(V::Dt);
    }
    let t = ta.max(tb);
    match t {
        Ty::I16 | Ty::I32 | Ty::I64 => {
            let (V::I(p), V::I(q)) = (x, y) else { return Ok(V::Null) };
            let (p, q) = (*p as i128, *q as i128);
            let (lo, hi) = t.int_range();
            let r = match op {
                Bop::Add => p + q,
                Bop::Sub => p - q,
                Bop::Mul => p * q,
                Bop::Div | Bop::Rem if q == 0 => return Ok(V::Null),
                Bop::Div => p / q,
                // MIN % -1: the mathematical answer is 0, the machine instruction overflows
                _ if p == lo && q == -1 => return Err(RefErr::Ambiguous),
                _ => p % q,
            };
            if r < lo || r > hi { Err(RefErr::Overflow) } else { Ok(V::I(r as i64)) }
        }
        Ty::F64 => {
            let (p, q) = (to_f64(x).unwrap(), to_f64(y).unwrap());
            let r = match op {
                Bop::Add => p + q,
                Bop::Sub => p - q,
                Bop::Mul => p * q,
                Bop::Div | Bop::Rem if q == 0.0 => return Ok(V::Null),
                Bop::Div => p / q,
                _ => p % q,
            };
            if r.is_finite() { Ok(V::F(r)) } else { Err(RefErr::Ambiguous) }
        }
        _ => {
            let (p, q) = (to_dec(x).ok_or(RefErr::Ambiguous)?, to_dec(y).ok_or(RefErr::Ambiguous)?);
            let r = match op {
                Bop::Add => p.checked_add(q),
                Bop::Sub => p.checked_sub(q),
                Bop::Mul => p.checked_mul(q),
                Bop::Div | Bop::Rem if q.is_zero() => return Ok(V::Null),
                Bop::Div => p.checked_div(q),
                _ => p.checked_rem(q),
            };
            r.map(V::of_dec).ok_or(RefErr::Overflow)
        }
    }
}

fn add_interval(days: i32, months: i32, dd: i32) -> Result<i32, RefErr> {
    let d = NaiveDate::from_num_days_from_ce_opt(days + dd + EPOCH_CE).ok_or(RefErr::Ambiguous)?;
    let total = d.year() * 12 + d.month0() as i32 + months;
    let (y, m) = (total.div_euclid(12), total.rem_euclid(12) as u32 + 1);
    let last = (28..=31).rev().find(|k| NaiveDate::from_ymd_opt(y, m, *k).is_some()).ok_or(RefErr::Ambiguous)?;
    let r = NaiveDate::from_ymd_opt(y, m, d.day().min(last)).ok_or(RefErr::Ambiguous)?;
    if !(1000..=9000).contains(&y) {
        return Err(RefErr::Ambiguous);
    }
    Ok(r.num_days_from_ce() - EPOCH_CE)
}

fn int_in(t: Ty, r: i128) -> Result<V, RefErr> {
    let (lo, hi) = t.int_range();
    if r < lo || r > hi { Err(RefErr::CastRange) } else { Ok(V::I(r as i64)) }
}

pub fn cast(from: Ty, to: Ty, v: V) -> Result<V, RefErr> {
    if v.is_null() {
        return Ok(V::Null);
    }
    if from == to {
        return Ok(v);
    }
    Ok(match (&v, to) {
        (V::B(b), t) if t.is_int() => V::I(*b as i64),
        (V::B(b), Ty::F64) => V::F(*b as u8 as f64),
        (V::B(b), Ty::Dec) => V::of_dec(Decimal::from(*b as u8)),
        (V::B(b), Ty::Str) => V::S(b.to_string()),
        (V::I(i), Ty::Bool) => V::B(*i != 0),
        (V::I(i), t) if t.is_int() => return int_in(t, *i as i128),
        (V::I(i), Ty::F64) => V::F(*i as f64),
        (V::I(i), Ty::Dec) => V::of_dec(Decimal::from(*i)),
        (V::I(i), Ty::Str) => V::S(i.to_string()),
        (V::F(f), Ty::Bool) => V::B(*f != 0.0),
        (V::F(f), t) if t.is_int() => {
            if !f.is_finite() {
                return Err(RefErr::CastRange);
            }
            let tr = f.trunc();
            if tr.abs() >= 1e19 {
                return Err(RefErr::CastRange);
            }
            return int_in(t, tr as i128);
        }
        (V::F(f), Ty::Dec) => V::of_dec(Decimal::from_f64_retain(*f).ok_or(RefErr::Ambiguous)?),
        (V::F(f), Ty::Str) => {
            // the sign of a zero is not tracked (decimal -0.0 -> double, constants merged by value)
            if *f == 0.0 {
                return Err(RefErr::Ambiguous);
            }
            V::S(format!("{f}"))
        }
        (V::D(_), Ty::Bool) => V::B(!v.dec().is_zero()),
        (V::D(_), t) if t.is_int() => {
            let tr = v.dec().trunc();
            return int_in(t, tr.to_i128().ok_or(RefErr::CastRange)?);
        }
        (V::D(_), Ty::F64) => V::F(v.dec().to_f64().ok_or(RefErr::Ambiguous)?),
        (V::D(_), Ty::Str) => {
            // a decimal zero may carry a sign (-0.0) that this model's text form does not keep
            if v.dec().is_zero() {
                return Err(RefErr::Ambiguous);
            }
            V::S(v.dec().to_string())
        }
        (V::S(s), Ty::Bool) => V::B(s.parse::<bool>().map_err(|_| RefErr::CastParse)?),
        (V::S(s), Ty::I16) => V::I(s.parse::<i16>().map_err(|_| RefErr::CastParse)? as i64),
        (V::S(s), Ty::I32) => V::I(s.parse::<i32>().map_err(|_| RefErr::CastParse)? as i64),
        (V::S(s), Ty::I64) => V::I(s.parse::<i64>().map_err(|_| RefErr::CastParse)?),
        (V::S(s), Ty::F64) => {
            let f = s.parse::<f64>().map_err(|_| RefErr::CastParse)?;
            if !f.is_finite() {
                return Err(RefErr::Ambiguous);
            }
            V::F(f)
        }
        (V::S(s), Ty::Dec) => V::of_dec(Decimal::from_str(s).map_err(|_| RefErr::CastParse)?),
        (V::S(s), Ty::Date) => {
            let d = NaiveDate::parse_from_str(s, "%Y-%m-%d").map_err(|_| RefErr::CastParse)?;
            V::Dt(d.num_days_from_ce() - EPOCH_CE)
        }
        (V::Dt(d), Ty::Str) => V::S(date_str(*d)),
        _ => return Err(RefErr::Ambiguous),
    })
}
