//! C06 — column encodings round-trip every value exactly.
//!
//! A column is built with the real column builders from generated arrays (hook
//! `verif_column::build`) and read back with the real `ColumnIteratorImpl`
//! (`verif_column::scan`) from a generated start row with a generated sequence of
//! `next_batch` / `skip` calls. The oracle is the input array itself plus a cursor model.
//!
//! Two parts:
//! * `protocol` — the calls `RowSetIterator::next_batch_inner` makes: before every call it asks
//!   `fetch_hint`, then issues `next_batch(Some(n))` or `skip(n)` with `1 <= n <= min(hint, 2048)`
//!   (`n < hint` happens when another column of the row-set has a smaller hint or the caller
//!   passed an `expected_size`), `n = 2048` when the hint is 0 and the iterator is not finished.
//! * `sql` (in `c06_sql.rs`) — the same arrays through CREATE TABLE / INSERT / compaction /
//!   SELECT on the disk engine with tiny blocks.
//! * `free` — any sizes: `next_batch(None)`, `next_batch(Some(n))` with any `n >= 1`, `skip(n)`
//!   with any `n` that stays inside the column.
use std::collections::BTreeMap;

use proptest::prelude::*;
use risinglight::array::{ArrayBuilderImpl, ArrayImpl};
use risinglight::storage::verif_column::{self as vc, ColumnSpec, ScanEvent, ScanOp};
use risinglight::types::DataValue;
use serde::{Deserialize, Serialize};

use super::c06_vals::*;
use crate::engine::*;
use crate::sqlrun::{block_on, panic_sig};

const MAX_ROWS: usize = 3000;
const ROWSET_MAX_OUTPUT: usize = 2048;

// generator restrictions (bits of `Case::lim`), set while an open finding lists the switch
pub const L_INTERVAL_TIME: u16 = 1;
/// free regime: next_batch(Some(n)) on a plain nullable column is cut at the end of the block
pub const L_PLAIN_NULLABLE_SPAN: u16 = 2;
/// rle / dict: no two values that compare equal but are represented differently (1.0 / 1.00, 0.0 / -0.0)
pub const L_EQUAL_REPR: u16 = 4;
/// char(w): no NUL character inside a string
pub const L_CHAR_NUL: u16 = 8;
pub const SWITCHES: [(&str, u16); 4] = [
    ("gen.char_embedded_nul", L_CHAR_NUL),
    ("gen.interval_time_part", L_INTERVAL_TIME),
    ("gen.free_plain_nullable_batch_over_block_boundary", L_PLAIN_NULLABLE_SPAN),
    ("gen.rle_dict_equal_values_with_distinct_representation", L_EQUAL_REPR),
];

#[derive(Clone, Debug, Serialize, Deserialize)]
pub enum Sel {
    Null,
    /// pool value
    P(u8),
    /// every item of the run is distinct, derived from the pool value and the row number
    Seq(u8),
}

#[derive(Clone, Debug, Serialize, Deserialize)]
pub struct Run {
    n: u16,
    v: Sel,
}

/// One call. `k`: 0 = next_batch(Some(n)), 1 = next_batch(None), 2 = skip(n); the size is
/// resolved from (`m`, `r`) against the cursor model when the case runs (see `size_free` /
/// `resolve`), so that preconditions hold by construction and shrinking keeps them.
#[derive(Clone, Debug, Serialize, Deserialize)]
pub struct Op {
    k: u8,
    m: u8,
    r: u16,
}

#[derive(Clone, Debug, Serialize, Deserialize)]
pub struct Case {
    pub ty: u8,
    pub nullable: bool,
    /// 0 plain, 1 run-length, 2 dictionary (sql part: != 0 means "run a compaction pass")
    pub enc: u8,
    /// char(w) width / vector dimension
    pub width: u16,
    pub block: u32,
    pub checksum: bool,
    pub first_key: bool,
    pool: Vec<Atom>,
    runs: Vec<Run>,
    /// split points of the appended pieces (fractions of the length)
    pub cuts: Vec<u16>,
    /// start row: (mode, fraction)
    start: (u8, u16),
    ops: Vec<Op>,
    drain: u8,
    /// generator restrictions that were in force (known findings)
    pub lim: u16,
}

pub fn def() -> PropDef {
    PropDef {
        id: "C06",
        level: "exploration",
        rule: "a case = (type, nullable, encoding, char width / vector dim, block size, checksum, array built from runs / NULL runs / distinct sequences over a boundary-biased value pool, piece split points, start row, call sequence); non-trivial when the built column has >= 2 blocks and (the start row is inside a block, or a skip is issued, or a returned batch spans a block boundary); distinct by (type, nullable, encoding, block-count bucket, start class, call-shape summary, data class). Part sql: (type, nullable, block size, rows in 1-4 INSERTs, optional compaction pass); non-trivial when the values alone exceed two blocks",
        assumptions: vec![
            "the hook verif_column::{build,scan} is a thin wrapper over the real builders / ColumnIteratorImpl",
            "preconditions every caller obeys: non-nullable columns get no NULL; char(w) strings fit w bytes and contain no trailing NUL; next_batch(Some(n)) has n >= 1; skip(n) stays inside the column; start row <= row count; target_block_size >= 17; all vectors of a column have the declared dimension (>= 1); a VectorArray cannot hold NULL",
            "exactness = same NULL-ness and same representation (double by bits, decimal incl. scale, interval incl. time part)",
            "a reader never opens a column without rows (RowsetWriter::flush refuses an empty row-set): zero-row arrays are only built, not scanned",
            "part sql: the in-memory engine must return the literals' values unchanged, otherwise the case is discarded (the SQL front end is not C06's subject)",
            "fetch_hint values and batch lengths beyond 1 <= len <= min(n, remaining) are not part of the property; they only drive the protocol regime",
        ],
        min_nontrivial: 200,
        parts: vec![
            part("protocol", 40_000, 500_000, |ctx| strategy(ctx, 0), |ctx, c, st| test(ctx, c, st, true)),
            part("free", 40_000, 500_000, |ctx| strategy(ctx, 1), |ctx, c, st| test(ctx, c, st, false)),
            part("sql", 1_500, 30_000, |ctx| strategy(ctx, 2), super::c06_sql::test),
        ],
    }
}

// ---------------------------------------------------------------------------------------------
// generator

type RawAtom = (u8, u64, u16);
type RawRun = (u16, u8, u16, u8);

/// `mode`: 0 = protocol part, 1 = free part, 2 = sql part
pub fn strategy(ctx: &Ctx, mode: u8) -> impl Strategy<Value = Case> + use<> {
    let mut lim = 0u16;
    for (name, bit) in SWITCHES {
        if ctx.off(name) {
            lim |= bit;
        }
    }
    let thorough = ctx.tier == Tier::Thorough;
    (
        (0u8..20, any::<bool>(), 0u8..3, any::<u8>(), (0u8..10, any::<u16>()), any::<bool>(), any::<bool>()),
        (prop::collection::vec((any::<u8>(), any::<u64>(), any::<u16>()), 1..=24), any::<u8>(), 0u8..6),
        prop::collection::vec((any::<u16>(), any::<u8>(), any::<u16>(), any::<u8>()), 0..=40),
        prop::collection::vec(any::<u16>(), 0..=3),
        (0u8..8, any::<u16>()),
        prop::collection::vec((0u8..8, any::<u8>(), any::<u16>()), 0..=12),
        any::<u8>(),
    )
        .prop_map(move |(cfg, (rawpool, style, null_mode), rawruns, cuts, start, rawops, drain)| {
            make_case(cfg, rawpool, style, null_mode, rawruns, cuts, start, rawops, drain, lim, mode, thorough)
        })
}

#[allow(clippy::too_many_arguments)]
fn make_case(
    (tsel, nullable, enc, wsel, (bsel, braw), checksum, first_key): (u8, bool, u8, u8, (u8, u16), bool, bool),
    rawpool: Vec<RawAtom>,
    style: u8,
    null_mode: u8,
    rawruns: Vec<RawRun>,
    cuts: Vec<u16>,
    start: (u8, u16),
    rawops: Vec<(u8, u8, u16)>,
    drain: u8,
    lim: u16,
    mode: u8,
    thorough: bool,
) -> Case {
    let protocol = mode == 0;
    let max_rows = if mode == 2 { super::c06_sql::MAX_SQL_ROWS } else { MAX_ROWS };
    // int, varchar, char weighted up
    let ty = match tsel {
        _ if mode == 2 => super::c06_sql::SQL_TYPES[tsel as usize % super::c06_sql::SQL_TYPES.len()],
        0..=13 => tsel,
        14 => T_INT,
        15 | 16 => T_VARCHAR,
        17 | 18 => T_CHAR,
        _ => T_BIGINT,
    };
    let width = match ty {
        T_CHAR => [1u16, 2, 3, 6, 10, 40, 200][wsel as usize % 7],
        T_VECTOR => [1u16, 2, 3, 8][wsel as usize % 4],
        _ => 0,
    };
    let block = match bsel {
        0 => 17,
        1 => 17 + braw as u32 % 16,
        2 | 3 => 33 + braw as u32 % 32,
        4 | 5 => 65 + braw as u32 % 64,
        6 | 7 => 129 + braw as u32 % 128,
        8 => 1024,
        _ => 4096,
    };
    let k = [1usize, 2, 3, 5, 24][style as usize % 5].min(rawpool.len());
    let canon = lim & L_EQUAL_REPR != 0 && enc % 3 != 0;
    let pool: Vec<Atom> = rawpool[..k].iter().map(|&(p, r, l)| make_atom(ty, width, p, r, l, lim, canon)).collect();
    let len_style = [0u8, 0, 0, 1, 1, 1, 2, 3][(style as usize / 5) % 8];
    let all_seq = (style / 20) % 6 == 5;
    let can_null = nullable && ty != T_VECTOR;
    let mut total = 0usize;
    let mut runs = vec![];
    for (lraw, lmode, sel, seqf) in rawruns {
        let lm = match len_style {
            0 => lmode % 6,
            1 => lmode % 8,
            2 => 4 + lmode % 4,
            _ => if lmode % 4 == 0 { 7 } else { lmode % 8 },
        };
        let mut n = match lm {
            0..=3 => 1,
            4 | 5 => 1 + lraw as usize % 6,
            6 => 1 + lraw as usize % 40,
            _ => 1 + lraw as usize % if thorough { 1200 } else { 400 },
        };
        n = n.min(max_rows - total);
        if n == 0 {
            break;
        }
        total += n;
        let is_null = can_null
            && match null_mode {
                0 => false,
                1 => sel % 16 == 0,
                2 => sel % 4 == 0,
                3 | 4 => sel % 2 == 0,
                _ => true,
            };
        let idx = ((sel >> 4) as usize % k) as u8;
        let v = if is_null {
            Sel::Null
        } else if all_seq || seqf % 8 == 0 {
            Sel::Seq(idx)
        } else {
            Sel::P(idx)
        };
        runs.push(Run { n: n as u16, v });
    }
    let ops = rawops
        .into_iter()
        .map(|(k, m, r)| {
            let k = if protocol {
                if k >= 5 { 2 } else { 0 }
            } else {
                match k {
                    0..=3 => 0,
                    4 => 1,
                    _ => 2,
                }
            };
            Op { k, m, r }
        })
        .collect();
    Case { ty, nullable, enc, width, block, checksum, first_key, pool, runs, cuts, start, ops, drain, lim }
}

pub fn expand(c: &Case) -> Vec<Option<Atom>> {
    let mut a = vec![];
    for r in &c.runs {
        for _ in 0..r.n {
            if a.len() >= MAX_ROWS {
                return a;
            }
            let j = a.len();
            a.push(match &r.v {
                Sel::Null => None,
                Sel::P(i) => Some(c.pool[*i as usize % c.pool.len()].clone()),
                Sel::Seq(i) => Some(seq_atom(c.ty, c.width, &c.pool[*i as usize % c.pool.len()], j)),
            });
        }
    }
    a
}

// ---------------------------------------------------------------------------------------------
// the cursor model and the resolution of call sizes

struct Layout {
    /// first row of every block, then the row count
    bounds: Vec<usize>,
    len: usize,
}

impl Layout {
    fn block_of(&self, row: usize) -> usize {
        self.bounds.partition_point(|&b| b <= row).saturating_sub(1).min(self.bounds.len().saturating_sub(2))
    }
    /// rows from `row` to the end of its block (0 at the end of the column)
    fn left_in_block(&self, row: usize) -> usize {
        if row >= self.len { 0 } else { self.bounds[self.block_of(row) + 1] - row }
    }
    fn nblocks(&self) -> usize {
        self.bounds.len() - 1
    }
}

#[derive(Clone, Debug)]
struct Step {
    op: ScanOp,
    /// cursor before the call
    at: usize,
    /// predicted (or previously observed) number of rows consumed
    adv: usize,
    /// protocol: the hint the size was derived from
    hint: Option<usize>,
}

/// Sizes of the free regime. `rem` rows remain in the column, `bl` in the current block.
fn size_free(m: u8, r: u16, rem: usize, bl: usize) -> usize {
    let r = r as usize;
    match m % 8 {
        0 => r % 4,
        1 => 1 + r % 64,
        2 => bl,
        3 => bl + 1 + r % 8,
        4 => 1 + ((r * rem) >> 16),
        5 => rem + r % 3,
        6 => [ROWSET_MAX_OUTPUT, 5000, 1, 2][r % 4],
        _ => 1 + r % 7,
    }
}

/// Observations that replace the model's predictions on a re-run (index = position in the plan).
#[derive(Default)]
struct Observed {
    adv: BTreeMap<usize, usize>,
    hint: BTreeMap<usize, usize>,
}

fn resolve(c: &Case, lay: &Layout, start: usize, protocol: bool, obs: &Observed) -> Vec<Step> {
    let len = lay.len;
    let mut cur = start;
    let mut plan: Vec<Step> = vec![];
    let cap = 2 * MAX_ROWS + 64;
    let no_span = c.lim & L_PLAIN_NULLABLE_SPAN != 0 && c.nullable && (c.enc % 3 == 0 || c.ty == T_VECTOR);
    let push = |plan: &mut Vec<Step>, cur: &mut usize, op: ScanOp, pred: usize, hint: Option<usize>| {
        let i = plan.len();
        let adv = match op {
            ScanOp::Skip(n) => n,
            _ => obs.adv.get(&i).copied().unwrap_or(pred),
        };
        plan.push(Step { op, at: *cur, adv, hint });
        *cur = (*cur + adv).min(len);
    };
    let proto_step = |plan: &Vec<Step>, cur: usize, want_skip: bool, m: u8, r: u16| -> (ScanOp, usize, Option<usize>) {
        let rem = len - cur;
        let h = obs.hint.get(&plan.len()).copied().unwrap_or(lay.left_in_block(cur));
        let mut n = if h == 0 { ROWSET_MAX_OUTPUT } else { h.min(ROWSET_MAX_OUTPUT) };
        if h != 0 && m % 4 != 0 {
            // another column's smaller hint / the caller's expected_size
            n = 1 + (((n - 1) * r as usize) >> 16);
        }
        if want_skip && h != 0 && n <= rem {
            (ScanOp::Skip(n), n, Some(h))
        } else {
            (ScanOp::Next(Some(n)), n.min(rem), Some(h))
        }
    };
    for o in &c.ops {
        if plan.len() >= cap {
            break;
        }
        let rem = len - cur;
        let bl = lay.left_in_block(cur);
        if protocol {
            if rem == 0 {
                break;
            }
            let (op, pred, h) = proto_step(&plan, cur, o.k == 2, o.m, o.r);
            push(&mut plan, &mut cur, op, pred, h);
            continue;
        }
        match o.k {
            0 => {
                let mut n = size_free(o.m, o.r, rem, bl).max(1);
                if no_span && bl > 0 {
                    n = n.min(bl);
                }
                push(&mut plan, &mut cur, ScanOp::Next(Some(n)), n.min(rem), None);
            }
            1 => push(&mut plan, &mut cur, ScanOp::Next(None), bl, None),
            _ => {
                if rem == 0 {
                    continue; // nothing left to skip
                }
                let n = size_free(o.m, o.r, rem, bl).min(rem);
                push(&mut plan, &mut cur, ScanOp::Skip(n), n, None);
            }
        }
    }
    // drain: read everything that is left, so that the concatenation is compared in full
    while cur < len && plan.len() < cap {
        let rem = len - cur;
        let bl = lay.left_in_block(cur);
        if protocol {
            let (op, pred, h) = proto_step(&plan, cur, false, 0, 0);
            push(&mut plan, &mut cur, op, pred, h);
        } else {
            match c.drain % 4 {
                0 | 1 => push(&mut plan, &mut cur, ScanOp::Next(None), bl, None),
                2 | 3 if no_span => push(&mut plan, &mut cur, ScanOp::Next(Some(bl)), bl, None),
                2 => {
                    let n = 1 + (c.drain as usize / 4) % 50;
                    push(&mut plan, &mut cur, ScanOp::Next(Some(n)), n.min(rem), None);
                }
                _ => push(&mut plan, &mut cur, ScanOp::Next(Some(rem + 1)), rem, None),
            }
        }
    }
    // after the end: only None
    if cur >= len {
        let n = if protocol { ROWSET_MAX_OUTPUT } else { 1 + c.drain as usize % 5 };
        push(&mut plan, &mut cur, ScanOp::Next(Some(n)), 0, if protocol { Some(0) } else { None });
        let last = if protocol || c.drain % 2 == 0 { ScanOp::Next(Some(1)) } else { ScanOp::Next(None) };
        push(&mut plan, &mut cur, last, 0, None);
    }
    plan
}

fn start_row(c: &Case, lay: &Layout) -> usize {
    let f = c.start.1 as usize;
    let nb = lay.nblocks();
    match c.start.0 {
        0 | 1 => 0,
        2 => lay.len,
        3 | 4 if nb > 0 => {
            // around a block boundary
            let b = lay.bounds[(f >> 2) * (nb + 1) >> 14];
            match f % 4 {
                0 => b.saturating_sub(1),
                1 => (b + 1).min(lay.len),
                _ => b,
            }
        }
        _ => (f * (lay.len + 1)) >> 16,
    }
}

// ---------------------------------------------------------------------------------------------
// the check

fn enc_name(c: &Case) -> &'static str {
    ["plain", "rle", "dict"][c.enc as usize % 3]
}

fn sig(part: &str, c: &Case, what: &str) -> String {
    format!(
        "{part}:{}{}:{}:{what}",
        enc_name(c),
        if c.nullable { "-nullable" } else { "" },
        type_class(c.ty)
    )
}

fn describe(c: &Case, len: usize, nblocks: usize, start: usize) -> String {
    format!(
        "{}{} {} block_size={} rows={len} blocks={nblocks} start_row={start}",
        TYPES[c.ty as usize],
        match c.ty {
            T_CHAR | T_VECTOR => format!("({})", c.width),
            _ => String::new(),
        },
        format_args!("{}{}", enc_name(c), if c.nullable { " nullable" } else { " not-null" }),
        c.block
    )
}

fn show_ops(plan: &[Step], upto: usize) -> String {
    let from = upto.saturating_sub(5);
    let mut s = String::new();
    if from > 0 {
        s.push_str(&format!("…{from} earlier calls… "));
    }
    for st in &plan[from..=upto.min(plan.len() - 1)] {
        s.push_str(&match st.op {
            ScanOp::Next(Some(n)) => format!("next({n})@{} ", st.at),
            ScanOp::Next(None) => format!("next(None)@{} ", st.at),
            ScanOp::Skip(n) => format!("skip({n})@{} ", st.at),
            ScanOp::Hint => "hint ".into(),
        });
    }
    s
}

enum Walk {
    Done,
    Rerun,
    Fail(String, String),
}

fn test(ctx: &Ctx, c: &Case, st: &mut Stats, protocol: bool) -> Verdict {
    let part = if protocol { "protocol" } else { "free" };
    for (name, bit) in SWITCHES {
        let applies = match bit {
            L_INTERVAL_TIME => c.ty == T_INTERVAL,
            L_EQUAL_REPR => c.enc % 3 != 0 && (c.ty == T_DECIMAL || c.ty == T_DOUBLE),
            L_CHAR_NUL => c.ty == T_CHAR,
            _ => !protocol && c.nullable && (c.enc % 3 == 0 || c.ty == T_VECTOR),
        };
        if c.lim & bit != 0 && applies && ctx.off(name) {
            st.excluded(name);
        }
    }
    let a = expand(c);
    let len = a.len();
    let dvs: Vec<DataValue> = a.iter().map(|x| to_dv(c.ty, x)).collect();
    let dt = data_type(c.ty, c.width);
    let spec = ColumnSpec {
        data_type: dt.clone(),
        nullable: c.nullable,
        encode: c.enc,
        char_width: if c.ty == T_CHAR { Some(c.width as u64) } else { None },
        block_size: c.block as usize,
        checksum: c.checksum,
        record_first_key: c.first_key,
    };
    // pieces
    let mut cutpos: Vec<usize> = c.cuts.iter().map(|&f| (f as usize * (len + 1)) >> 16).collect();
    cutpos.sort();
    cutpos.push(len);
    let mut pieces: Vec<ArrayImpl> = vec![];
    let mut from = 0;
    for &to in &cutpos {
        let mut b = ArrayBuilderImpl::with_capacity(to - from, &dt);
        for v in &dvs[from..to] {
            b.push(v);
        }
        pieces.push(b.finish());
        from = to;
    }

    // ---- build
    st.eval();
    let built = match block_on(async { vc::build(&spec, &pieces) }) {
        Ok(b) => b,
        Err(p) => {
            return fail(
                sig(part, c, &format!("build-panic:{}", panic_sig(&p))),
                format!("building the column panicked: {p}; {}", describe(c, len, 0, 0)),
            );
        }
    };

    // ---- the block index tiles the rows and the data file
    let mut bounds = vec![];
    let (mut row, mut off) = (0u64, 0u64);
    for (i, &(first, cnt, offset, length)) in built.blocks.iter().enumerate() {
        let bad = if first as u64 != row {
            Some("first_rowid")
        } else if cnt == 0 {
            Some("empty-block")
        } else if offset != off {
            Some("offset")
        } else {
            None
        };
        if let Some(w) = bad {
            return fail(
                sig(part, c, &format!("index:{w}")),
                format!(
                    "block index entry #{i} = (first_rowid {first}, row_count {cnt}, offset {offset}, length {length}) but the previous entries end at row {row}, byte {off}; {}",
                    describe(c, len, built.blocks.len(), 0)
                ),
            );
        }
        bounds.push(first as usize);
        row += cnt as u64;
        off += length;
    }
    if row != len as u64 || off != built.data.len() as u64 {
        return fail(
            sig(part, c, "index:total"),
            format!(
                "block index covers {row} rows / {off} bytes, the column has {len} rows / {} bytes; {}",
                built.data.len(),
                describe(c, len, built.blocks.len(), 0)
            ),
        );
    }
    bounds.push(len);
    let lay = Layout { bounds, len };
    let nb = lay.nblocks();
    if len == 0 {
        // `RowsetWriter::flush` refuses an empty row-set ("empty rowset"), so no reader ever
        // opens a column without rows: only the builder side is in the domain.
        st.class("rows:0 (build only)");
        return Verdict::Pass;
    }
    let start = start_row(c, &lay);
    if std::env::var("C06_DEBUG").is_ok() {
        eprintln!("{} block bounds {:?}", describe(c, len, nb, start), &lay.bounds[..lay.bounds.len().min(40)]);
    }

    // ---- scan, re-resolving the call sizes when an observation differs from the model's
    //      prediction (batch length, hint): the property fixes neither
    let mut obs = Observed::default();
    let mut rounds = 0;
    let (plan, crossed) = loop {
        let plan = resolve(c, &lay, start, protocol, &obs);
        let mut ops: Vec<ScanOp> = vec![];
        for s in &plan {
            if s.hint.is_some() {
                ops.push(ScanOp::Hint);
            }
            ops.push(s.op);
        }
        st.eval();
        let events = match block_on(vc::scan(&built, start as u32, &ops)) {
            Ok(Ok(ev)) => ev,
            Ok(Err(e)) => {
                let e = e.to_string();
                return fail(
                    sig(part, c, "scan-error"),
                    format!("scan returned an error on intact data: {}; {}; calls: {}", e.lines().next().unwrap_or(""), describe(c, len, nb, start), show_ops(&plan, plan.len() - 1)),
                );
            }
            Err(p) => {
                return fail(
                    sig(part, c, &format!("scan-panic:{}", panic_sig(&p))),
                    format!("scan panicked: {p}; {}; calls: {}", describe(c, len, nb, start), show_ops(&plan, plan.len() - 1)),
                );
            }
        };
        let mut crossed = 0usize;
        match walk(part, c, &lay, &a, &dvs, start, &plan, &events, &mut obs, &mut crossed) {
            Walk::Done => break (plan, crossed),
            Walk::Fail(s, m) => return fail(s, m),
            Walk::Rerun => {
                rounds += 1;
                st.class("rerun-after-unpredicted-length-or-hint");
                if rounds > 24 {
                    return Verdict::Discard("batch lengths / hints keep diverging from the model");
                }
            }
        }
    };

    // ---- coverage bookkeeping
    let nskip = plan.iter().filter(|s| matches!(s.op, ScanOp::Skip(_))).count();
    let skip_cross = plan.iter().any(|s| matches!(s.op, ScanOp::Skip(n) if n > 0 && n >= lay.left_in_block(s.at)));
    let start_mid = start < len && nb > 0 && lay.bounds[lay.block_of(start)] != start;
    let nulls = a.iter().filter(|x| x.is_none()).count();
    let distinct = {
        let mut d: Vec<&Option<Atom>> = a.iter().collect();
        d.sort_by_key(|x| format!("{x:?}"));
        d.dedup();
        d.len()
    };
    st.class(&format!("type:{}", TYPES[c.ty as usize]));
    st.class(&format!("enc:{}{}", enc_name(c), if c.nullable { "-nullable" } else { "" }));
    st.class(match nb {
        0 => "blocks:0",
        1 => "blocks:1",
        2..=9 => "blocks:2-9",
        10..=99 => "blocks:10-99",
        _ => "blocks:100+",
    });
    st.class(match len {
        0 => "rows:0",
        1..=9 => "rows:1-9",
        10..=99 => "rows:10-99",
        100..=999 => "rows:100-999",
        _ => "rows:1000+",
    });
    let start_class = if len == 0 {
        "start:empty"
    } else if start == 0 {
        "start:0"
    } else if start == len {
        "start:len"
    } else if start_mid {
        "start:inside-block"
    } else {
        "start:block-boundary"
    };
    st.class(start_class);
    if nskip > 0 {
        st.class("op:skip");
    }
    if skip_cross {
        st.class("op:skip-to-or-over-block-end");
    }
    if crossed > 0 {
        st.class("op:batch-spans-blocks");
    }
    if nulls > 0 {
        st.class("data:has-null");
    }
    if nulls == len && len > 0 {
        st.class("data:all-null");
    }
    if distinct == 1 && len > 1 {
        st.class("data:all-equal");
    }
    if distinct == len && len > 1 {
        st.class("data:all-distinct");
    }
    if pieces.len() > 1 && cutpos.iter().any(|&p| p > 0 && p < len) {
        st.class("data:several-pieces");
    }
    // runs / NULL runs that continue over a block boundary
    for w in 1..nb {
        let b = lay.bounds[w];
        if a[b - 1] == a[b] {
            st.class(if a[b].is_none() { "data:null-run-over-block-boundary" } else { "data:run-over-block-boundary" });
            break;
        }
    }
    if a.iter().any(|x| matches!(x, Some(Atom::S(s)) if s.len() + 20 > c.block as usize) || matches!(x, Some(Atom::B(s)) if s.len() + 20 > c.block as usize)) {
        st.class("data:value-longer-than-block");
    }
    if c.enc % 3 == 2 && c.ty != T_VECTOR && (0..nb).any(|b| lay.bounds[b + 1] - lay.bounds[b] > 1) {
        st.class("data:dict-block-with-several-rows");
    }
    if c.enc == 1 && plan.iter().any(|s| matches!(s.op, ScanOp::Skip(n) if n > 0 && s.at + n < len && a[s.at + n - 1] == a[s.at + n])) || (start_mid && a[start - 1] == a[start]) {
        st.class("op:lands-inside-a-run");
    }
    if nb >= 2 && (start_mid || nskip > 0 || crossed > 0) {
        st.nontrivial((
            (c.ty, c.nullable, c.enc % 3, nb.min(40), start_class),
            (nskip.min(6), skip_cross, crossed.min(6), plan.len().min(30)),
            (nulls.min(5), distinct.min(8), len / 16),
        ));
    }
    Verdict::Pass
}

#[allow(clippy::too_many_arguments)]
fn walk(
    part: &str,
    c: &Case,
    lay: &Layout,
    a: &[Option<Atom>],
    dvs: &[DataValue],
    start: usize,
    plan: &[Step],
    events: &[ScanEvent],
    obs: &mut Observed,
    crossed: &mut usize,
) -> Walk {
    let len = lay.len;
    let nb = lay.nblocks();
    let mut cur = start;
    let mut ev = events.iter();
    let mut prev_skip = false;
    let (mut returned, mut skipped) = (0usize, 0usize);
    for (i, s) in plan.iter().enumerate() {
        let ctxs = |what: &str| -> String {
            format!("{what}; {}; calls: {}", describe(c, len, nb, start), show_ops(plan, i))
        };
        if cur != s.at {
            // an earlier observation moved the cursor: resolve again from there
            return Walk::Rerun;
        }
        if let Some(h) = s.hint {
            match ev.next() {
                Some(ScanEvent::Hint(hr, _)) => {
                    if *hr != h && cur < len {
                        obs.hint.insert(i, *hr);
                        return Walk::Rerun;
                    }
                }
                other => return Walk::Fail(format!("{part}:harness"), ctxs(&format!("expected a hint event, got {other:?}"))),
            }
        }
        let e = ev.next();
        match (s.op, e) {
            (ScanOp::Skip(n), Some(ScanEvent::RowId(x))) => {
                if *x as usize != cur + n {
                    return Walk::Fail(
                        sig(part, c, "row-id-after-skip"),
                        ctxs(&format!("after skip({n}) at row {cur} the iterator reports row {x}, expected {}", cur + n)),
                    );
                }
                cur += n;
                skipped += n;
                prev_skip = true;
            }
            (ScanOp::Next(n), Some(ScanEvent::End)) => {
                if cur < len {
                    return Walk::Fail(
                        sig(part, c, &format!("early-end{}", if prev_skip { ":after-skip" } else { "" })),
                        ctxs(&format!("next_batch({n:?}) at row {cur} returned None although {} rows remain", len - cur)),
                    );
                }
            }
            (ScanOp::Next(n), Some(ScanEvent::Batch(row_id, arr))) => {
                let l = arr.len();
                // the request reaches beyond the current block
                let req_cross = n.is_some_and(|n| n > lay.left_in_block(cur));
                let tags = |_: bool| format!("{}{}", if req_cross { ":request-spans-blocks" } else { "" }, if prev_skip { ":after-skip" } else { "" });
                if cur >= len {
                    return Walk::Fail(
                        sig(part, c, "batch-after-end"),
                        ctxs(&format!("next_batch({n:?}) after the end returned {l} rows at row id {row_id}")),
                    );
                }
                let cross = l > 0 && lay.block_of(cur) != lay.block_of((cur + l - 1).min(len - 1));
                if *row_id as usize != cur {
                    return Walk::Fail(
                        sig(part, c, &format!("row-id{}", tags(cross))),
                        ctxs(&format!("next_batch({n:?}) returned row id {row_id}, the cursor is at {cur}")),
                    );
                }
                let bad_len = if l == 0 {
                    Some("empty-batch")
                } else if n.is_some_and(|n| l > n) {
                    Some("batch-longer-than-requested")
                } else if l > len - cur {
                    Some("batch-longer-than-column")
                } else {
                    None
                };
                if let Some(w) = bad_len {
                    return Walk::Fail(
                        sig(part, c, &format!("{w}{}", tags(cross))),
                        ctxs(&format!("next_batch({n:?}) at row {cur} returned {l} rows ({} remain)", len - cur)),
                    );
                }
                for j in 0..l {
                    let got = arr.get(j);
                    if let Err(kind) = same(&dvs[cur + j], &got) {
                        return Walk::Fail(
                            sig(part, c, &format!("{kind}{}", tags(cross))),
                            ctxs(&format!(
                                "row {} was written as {} and read back as {} (batch of {l} rows at row id {row_id}, item {j}; blocks of the batch: {}..={})",
                                cur + j,
                                show(&a[cur + j]),
                                show_dv(&got),
                                lay.block_of(cur),
                                lay.block_of(cur + l - 1)
                            )),
                        );
                    }
                }
                if cross {
                    *crossed += 1;
                }
                cur += l;
                returned += l;
                prev_skip = false;
                if l != s.adv {
                    obs.adv.insert(i, l);
                    if i + 1 < plan.len() {
                        return Walk::Rerun;
                    }
                }
            }
            (op, e) => return Walk::Fail(format!("{part}:harness"), ctxs(&format!("call {op:?} produced event {e:?}"))),
        }
    }
    if cur < len {
        // the plan was cut short by its cap; cannot happen with MAX_ROWS
        return Walk::Fail(format!("{part}:harness"), format!("plan ended at row {cur} of {len}"));
    }
    if start + returned + skipped != len {
        return Walk::Fail(
            sig(part, c, "concatenation"),
            format!("start {start} + returned {returned} + skipped {skipped} != {len}; {}", describe(c, len, nb, start)),
        );
    }
    Walk::Done
}
