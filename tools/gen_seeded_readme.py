#!/usr/bin/env python3
"""seeded/README.md: one row per seeded change (what it breaks, what it needs, confirmation, which checks caught it)."""
import json, os, glob
V='/verif'
rows=[]
for d in sorted(glob.glob(f'{V}/seeded/*/')):
    n=os.path.basename(d.rstrip('/'))
    def j(f):
        try: return json.load(open(d+f))
        except Exception: return {}
    m=j('meta.json'); c=j('confirm.json'); r=j('result.json')
    conf='not yet confirmed'
    if c:
        ok = c.get('applies') and c.get('cargo_check_exit')==0 and c.get('cargo_check_verif_exit')==0 and c.get('demo_without_change_exit')==0
        failing=[x for x in c.get('failing_tests_with_change',[]) if x]
        only_demo = all('demo' in x for x in failing) and len(failing)>0
        conf=('confirmed: compiles (with/without verif), '+c.get('suite_with_change_summary','').replace('Summary','suite')+', failing = demo only, demo passes without the change') if ok and only_demo else f'PROBLEM: {c}'
    caught=', '.join(r.get('caught_by',[])) or ('MISSED' if r else 'not run')
    note=r.get('note','')
    rows.append((n,m.get('property',''),(m.get('summary','') or '')[:220].replace('\n',' ').replace('|','/'),(m.get('needs_to_manifest','') or '')[:200].replace('\n',' ').replace('|','/'),conf,caught+((' — '+note) if note else '')))
out=['# Seeded changes','',
'Each directory holds a change to risinglight written by a sub-agent that saw only the property text and a scratch worktree: `patch.diff`, its demonstration `demo.rs`, `meta.json` (author), `confirm.json` (my confirmation in a scratch worktree: applies, compiles with and without the feature, the 211-test suite passes with it, the demonstration fails with it and passes without it) and `result.json` (quick tier of my check(s) run against /repo with the patch applied, then undone).','',
'| change | property | what | needs to manifest | confirmation | caught by (quick tier) |','|---|---|---|---|---|---|']
for r in rows: out.append('| '+' | '.join(r)+' |')
open(f'{V}/seeded/README.md','w').write('\n'.join(out)+'\n')
print(len(rows),'seeded changes')
