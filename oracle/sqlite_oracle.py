#!/usr/bin/env python3
"""SQLite reference for C02. Reads one JSON object per line:
   {"setup": [sql, ...], "queries": [sql, ...]}
and answers one JSON line: {"results": [ {"rows": [[...], ...]} | {"error": "..."} , ...]}.
A fresh in-memory database per request. Values: null, int, str (bool columns hold 0/1)."""
import json, sqlite3, sys

def main():
    for line in sys.stdin:
        line = line.strip()
        if not line:
            continue
        try:
            req = json.loads(line)
            con = sqlite3.connect(":memory:")
            res = []
            ok = True
            for s in req.get("setup", []):
                try:
                    con.execute(s)
                except Exception as e:  # setup must work, report it
                    res.append({"error": "setup: %s: %s" % (s, e)})
                    ok = False
                    break
            if ok:
                for q in req.get("queries", []):
                    try:
                        cur = con.execute(q)
                        rows = [list(r) for r in cur.fetchall()]
                        res.append({"rows": rows})
                    except Exception as e:
                        res.append({"error": str(e)})
            con.close()
            sys.stdout.write(json.dumps({"results": res}) + "\n")
        except Exception as e:
            sys.stdout.write(json.dumps({"fatal": str(e)}) + "\n")
        sys.stdout.flush()

if __name__ == "__main__":
    main()
