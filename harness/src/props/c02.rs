//! C02 — query answers follow standard SQL semantics on the core relational subset.
//! Differential against SQLite (python3 sqlite3) on a common dialect.

use std::io::{BufRead, BufReader, Write};
use std::process::{Child, ChildStdin, ChildStdout, Command, Stdio};
use std::sync::Mutex;

use proptest::prelude::*;
use serde::{Deserialize, Serialize};

use super::sqlcase::*;
use crate::engine::*;
use crate::gens::sql::*;
use crate::gens::tape::{Tape, tape_strategy};
use crate::sqlrun::*;

#[derive(Clone, Debug, Serialize, Deserialize)]
pub struct LiteCase {
    pub db: DbSpec,
    pub query: Query,
    pub sql: String,
    pub lite_setup: Vec<String>,
    pub lite_sql: String,
    pub lite_sql_unlimited: String,
}

struct Oracle {
    child: Child,
    stdin: ChildStdin,
    stdout: BufReader<ChildStdout>,
}

static ORACLE: Mutex<Option<Oracle>> = Mutex::new(None);

fn oracle_script(ctx: &Ctx) -> std::path::PathBuf {
    let p = ctx.verif_dir.join("oracle/sqlite_oracle.py");
    if p.exists() { p } else { std::path::PathBuf::from("/verif/oracle/sqlite_oracle.py") }
}

/// Ask SQLite. Err = the oracle process is not usable (run is inconclusive for this case).
fn ask(ctx: &Ctx, setup: &[String], queries: &[String]) -> Result<Vec<Result<Vec<Row>, String>>, String> {
    let mut g = ORACLE.lock().unwrap();
    for attempt in 0..2 {
        if g.is_none() {
            let mut child = Command::new("python3")
                .arg(oracle_script(ctx))
                .stdin(Stdio::piped())
                .stdout(Stdio::piped())
                .stderr(Stdio::null())
                .spawn()
                .map_err(|e| format!("cannot start python3: {e}"))?;
            let stdin = child.stdin.take().unwrap();
            let stdout = BufReader::new(child.stdout.take().unwrap());
            *g = Some(Oracle { child, stdin, stdout });
        }
        let o = g.as_mut().unwrap();
        let req = serde_json::json!({"setup": setup, "queries": queries}).to_string();
        let mut line = String::new();
        let ok = o.stdin.write_all(req.as_bytes()).is_ok() && o.stdin.write_all(b"\n").is_ok() && o.stdin.flush().is_ok() && o.stdout.read_line(&mut line).is_ok() && !line.is_empty();
        if !ok {
            let _ = o.child.kill();
            let _ = o.child.wait();
            *g = None;
            if attempt == 0 {
                continue;
            }
            return Err("oracle process died".into());
        }
        let v: serde_json::Value = serde_json::from_str(&line).map_err(|e| e.to_string())?;
        if let Some(f) = v.get("fatal") {
            return Err(format!("oracle: {f}"));
        }
        let mut out = vec![];
        for r in v["results"].as_array().cloned().unwrap_or_default() {
            if let Some(e) = r.get("error") {
                out.push(Err(e.as_str().unwrap_or("").to_string()));
            } else {
                let rows = r["rows"]
                    .as_array()
                    .unwrap()
                    .iter()
                    .map(|row| {
                        row.as_array()
                            .unwrap()
                            .iter()
                            .map(|c| match c {
                                serde_json::Value::Null => Val::Null,
                                serde_json::Value::Number(n) if n.is_i64() => Val::Int(n.as_i64().unwrap()),
                                serde_json::Value::Number(n) => Val::f(n.as_f64().unwrap()),
                                serde_json::Value::String(s) => Val::Str(s.clone()),
                                serde_json::Value::Bool(b) => Val::Bool(*b),
                                x => Val::Other(x.to_string()),
                            })
                            .collect()
                    })
                    .collect();
                out.push(Ok(rows));
            }
        }
        return Ok(out);
    }
    Err("oracle unavailable".into())
}

fn lite_cfg(ctx: &Ctx) -> GenCfg {
    let mut c = cfg_for(ctx, true);
    c.sqlite = true;
    c.semi_anti = false;
    c.case_string = false;
    c
}

fn decode(ctx: &Ctx, tape: &[u32], disk: Option<DiskCfg>) -> LiteCase {
    let cfg = lite_cfg(ctx);
    let mut t = Tape::new(tape);
    let db = gen_dbspec(&mut t, &cfg, disk);
    let query = {
        let mut g = Gen { t: &mut t, cfg: cfg.clone(), schema: &db.schema, alias_no: 0 };
        g.query(0)
    };
    let mut lite_setup = vec![];
    for td in &db.schema {
        lite_setup.push(td.create_sqlite());
    }
    for (ti, td) in db.schema.iter().enumerate() {
        for b in &db.data[ti] {
            lite_setup.push(insert_sql(&td.name, b));
        }
    }
    LiteCase {
        sql: query.print(Dialect::Rl),
        lite_sql: query.print(Dialect::Lite),
        lite_sql_unlimited: query.print_unlimited(Dialect::Lite),
        lite_setup,
        db,
        query,
    }
}

fn strat(ctx: &Ctx) -> impl Strategy<Value = LiteCase> + use<> {
    let (off, strict, prop) = (ctx.off_switches(), ctx.strict, ctx.prop.clone());
    (tape_strategy(260), prop::option::weighted(0.4, disk_cfg_strategy(true))).prop_map(move |(tape, disk)| {
        let c = Ctx::switches_only(&prop, off.clone(), strict);
        decode(&c, &tape, disk)
    })
}

/// SQLite has no boolean type: map 0/1 in boolean-typed columns.
fn normalise(rows: &[Row], q: &Query) -> Vec<Row> {
    rows.iter()
        .map(|r| {
            r.iter()
                .enumerate()
                .map(|(i, v)| match (q.select.get(i).map(|s| s.1), v) {
                    (Some(Ty::Bool), Val::Int(x)) => Val::Bool(*x != 0),
                    _ => v.clone(),
                })
                .collect()
        })
        .collect()
}

fn feature_sig(q: &Query) -> String {
    // coarse shape of the query, to key findings by construct
    let f = q.features();
    let mut v: Vec<&str> = f.iter().copied().filter(|x| x.starts_with("join-") || x.starts_with("subquery") || *x == "aggregate" || *x == "group-by" || *x == "distinct" || *x == "having").collect();
    v.sort();
    v.dedup();
    if v.is_empty() { "plain".into() } else { v.join("+") }
}

fn test(ctx: &Ctx, case: &LiteCase, st: &mut Stats) -> Verdict {
    risinglight::verif::reset();
    let limited = case.query.limit.is_some() || case.query.offset.is_some();
    let mut qs = vec![case.lite_sql.clone()];
    if limited {
        qs.push(case.lite_sql_unlimited.clone());
    }
    let lite = match ask(ctx, &case.lite_setup, &qs) {
        Ok(r) => r,
        Err(_) => return Verdict::Discard("sqlite oracle not available"),
    };
    let Some(Ok(lrows)) = lite.first() else {
        // the reference does not accept the statement: outside the common dialect
        return Verdict::Discard("rejected by sqlite (outside the common dialect)");
    };
    let lrows = normalise(lrows, &case.query);
    let lunl: Option<Vec<Row>> = if limited {
        match lite.get(1) {
            Some(Ok(r)) => Some(normalise(r, &case.query)),
            _ => None,
        }
    } else {
        None
    };
    let r = block_on(async {
        let db = match open_and_load(ctx, &case.db, "c02").await {
            Ok(db) => db,
            Err(e) => return fail("setup", e),
        };
        let _ = take_panics();
        let out = exec(&db, &case.sql).await;
        let panics = take_panics();
        st.eval();
        // rows although an operator task panicked at a site of the "plan not executable" kind (the
        // nested-loop join's todo!() for RIGHT/FULL joins can end a statement with Ok and no rows:
        // F-C11-nl-right-full): no answer, not an answer to compare
        let plan_panic = matches!(out, Out::Rows(_)) && !panics.is_empty() && no_answer(&Out::Panicked(String::new()), &panics).is_ok();
        let v = match &out {
            Out::Rejected(_) => Verdict::Discard("rejected by the risinglight binder"),
            Out::Rows(_) if plan_panic => {
                st.class(&format!("rows-despite-panic:{}", panic_sig(&panics[0])));
                Verdict::Discard("risinglight returned an error (executability is decided by C17)")
            }
            Out::Rows(rows) => {
                for f in case.query.features() {
                    st.class(f);
                }
                st.class(if case.db.disk.is_some() { "engine-disk" } else { "engine-memory" });
                if case.db.has_null() {
                    st.class("data-has-null");
                }
                if !lrows.is_empty() && case.query.is_nontrivial_shape() && case.db.has_null() {
                    st.nontrivial(shape_fp(&case.query, &case.db));
                }
                match compare_results(&case.query, &lrows, rows, lunl.as_deref()) {
                    Ok(()) => Verdict::Pass,
                    Err(e) => {
                        // attribution to the listed unsound rewrite rules (C01 findings)
                        let ablate = ctx.ablate_rules();
                        if !ctx.strict && !ablate.is_empty() {
                            risinglight::verif::set_disabled_rules(ablate);
                            let o2 = exec(&db, &case.sql).await;
                            let p2 = take_panics();
                            risinglight::verif::set_disabled_rules(vec![]);
                            if let Out::Rows(r2) = &o2 {
                                if compare_results(&case.query, &lrows, r2, lunl.as_deref()).is_ok() {
                                    st.class("mismatch-attributed-to-listed-unsound-rules");
                                    close(&case.db, &db).await;
                                    return Verdict::Pass;
                                }
                            }
                            // without the listed rules the statement has no executable plan (a
                            // listed C17 finding, e.g. the nested-loop FULL join): the mismatch can
                            // neither be attributed to the unsound rules nor be separated from them
                            let no_plan = match &o2 {
                                Out::Rows(_) => !p2.is_empty() && no_answer(&Out::Panicked(String::new()), &p2).is_ok(),
                                o => no_answer(o, &p2).is_ok(),
                            };
                            if no_plan {
                                st.class("mismatch-not-separable-from-listed-unsound-rules");
                                close(&case.db, &db).await;
                                return Verdict::Discard("mismatch with the listed unsound rules on, no executable plan with them off");
                            }
                        }
                        fail(
                        format!("rows:{}", feature_sig(&case.query)),
                        format!("{e}\n  risinglight: {}\n  sqlite:      {}\n  engine: {}", case.sql, case.lite_sql, if case.db.disk.is_some() { "disk" } else { "memory" }),
                    )
                    }
                }
            }
            _ => {
                // No answer at all (planning/execution error or panic): whether every accepted
                // statement gets an executable plan is C17's question, not this one's.
                match no_answer(&out, &panics) {
                    Ok(class) => {
                        st.class(&class);
                        Verdict::Discard("risinglight returned an error (executability is decided by C17)")
                    }
                    Err(sig) => fail(
                        sig,
                        format!(
                            "SQLite answers, risinglight does not, and the failure is not one of planning: {} {:?}\n  risinglight: {}\n  sqlite:      {}\n  engine: {}",
                            out.brief(),
                            panics,
                            case.sql,
                            case.lite_sql,
                            if case.db.disk.is_some() { "disk" } else { "memory" }
                        ),
                    ),
                }
            }
        };
        close(&case.db, &db).await;
        v
    });
    match r {
        Ok(v) => v,
        Err(p) => fail(format!("harness-panic:{}", panic_sig(&p)), p),
    }
}

pub fn def() -> PropDef {
    PropDef {
        id: "C02",
        level: "exploration",
        rule: "tape-generated schema/data (int, boolean, varchar; NULLs, duplicates; several insert batches) and query over the core subset (selection, projection, inner/left/right/full/cross joins with equi and non-equi conditions, IN/NOT IN/EXISTS/scalar subqueries, GROUP BY with COUNT/SUM/MIN/MAX/COUNT DISTINCT, HAVING, DISTINCT, ORDER BY, LIMIT/OFFSET), optimizer on, both engines; the same AST is printed in both dialects and the result compared with SQLite's; non-trivial = join/aggregate/subquery present, SQLite result non-empty and the data holds a NULL; distinct by (feature set, engine, multi-row-set, size class)",
        assumptions: vec![
            "SQLite 3.40 (python3 sqlite3) is the reference on the common dialect: integer / and % truncate and give NULL on zero, NULLs sort first ascending, bytewise string order, no floats, no implicit casts",
            "a statement SQLite rejects is outside the dialect and discarded",
        ],
        min_nontrivial: 20,
        parts: vec![part("sqlite", 40_000, 600_000, strat, test)],
    }
}
