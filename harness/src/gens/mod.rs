pub mod sql;
pub mod tape;
