//! C15 — a failing statement reports an error, never a partial answer.
//!
//! For a generated statement (SELECT, INSERT … SELECT, DELETE, COPY … TO; memory and disk
//! engine; optimizer on and off) a clean run with the fault hook in recording mode and the
//! consumer-side observation point yields the operator tree, the number of items each operator
//! produced and which of them its consumer received. Then every (operator, position, kind ∈
//! {error, panic}) is injected in a run of its own and the outcome is judged.

use std::collections::{BTreeMap, BTreeSet};
use std::sync::{Arc, Mutex};

use proptest::prelude::*;
use risinglight::Database;
use risinglight::verif::Fault;
use serde::{Deserialize, Serialize};

use super::sqlcase::*;
use crate::engine::*;
use crate::gens::sql::*;
use crate::gens::tape::{Tape, tape_strategy};
use crate::sqlrun::*;

#[derive(Clone, Copy, Debug, PartialEq, Eq, Hash, Serialize, Deserialize)]
pub enum StmtKind {
    Select,
    Insert,
    Delete,
    Copy,
}

impl StmtKind {
    fn name(self) -> &'static str {
        match self {
            StmtKind::Select => "select",
            StmtKind::Insert => "insert",
            StmtKind::Delete => "delete",
            StmtKind::Copy => "copy",
        }
    }
    fn is_dml(self) -> bool {
        self != StmtKind::Select
    }
}

/// `{FILE}` in a statement stands for the output file of COPY (chosen per run).
const FILE: &str = "{FILE}";

#[derive(Clone, Debug, Serialize, Deserialize)]
pub struct FaultCase {
    pub db: DbSpec,
    pub kind: StmtKind,
    pub optimize: bool,
    /// the SELECT part (None for DELETE)
    pub query: Option<Query>,
    /// the statement that gets the faults
    pub sql: String,
    /// the same without LIMIT/OFFSET (used instead when INSERT/COPY would not be deterministic)
    pub sql_nolimit: String,
    /// the SELECT part alone, ordered, without LIMIT/OFFSET
    pub sel_unlimited: Option<String>,
    /// table whose content must be unchanged by a failed INSERT/DELETE
    pub target: Option<String>,
    /// generator switches (of open findings) that changed this case
    #[serde(default)]
    pub steered: Vec<String>,
}

fn is_pred(e: &E) -> bool {
    !matches!(e, E::Col(..) | E::Lit(..) | E::Null(..) | E::Case(..) | E::Scalar(..))
}

pub fn decode(ctx: &Ctx, tape: &[u32]) -> FaultCase {
    let mut t = Tape::new(tape);
    let disk = if t.chance(1, 2) { Some(DiskCfg::small()) } else { None };
    let optimize = !t.chance(1, 3);
    let kind = [StmtKind::Select, StmtKind::Insert, StmtKind::Delete, StmtKind::Copy][t.weighted(&[5, 4, 4, 2])];
    // subqueries only run through the optimizer (it rewrites them into joins)
    let mut cfg = cfg_for(ctx, optimize);
    // non-equi RIGHT/FULL joins are not implemented by the nested-loop join: no clean run
    cfg.nonequi_outer = false;
    // NOT IN (subquery) makes the optimizer panic or spin for minutes (C17's subject)
    cfg.not_in_subq = false;
    let mut db = gen_dbspec(&mut t, &cfg, disk);
    // sometimes one table arrives in many single-row batches: its scan then emits more items
    // than the operator channel holds (16)
    if t.chance(1, 12) {
        let td = db.schema[0].clone();
        let mut rows: Vec<Vec<Val>> = db.data[0].drain(..).flatten().collect();
        let want = 17 + t.pick(8);
        let mut next_pk = 100;
        while rows.len() < want {
            rows.push(
                td.cols
                    .iter()
                    .map(|c| {
                        if c.pk {
                            next_pk += 1;
                            Val::Int(next_pk)
                        } else {
                            gen_val(&mut t, c.ty, c.nullable)
                        }
                    })
                    .collect(),
            );
        }
        db.data[0] = rows.into_iter().map(|r| vec![r]).collect();
        db.tick_after_load = false;
    }
    // rarely the table of a DELETE, or the source of an INSERT .. SELECT, is large (5 inserts of 1100
    // rows, values from a counter): the statement then fails after thousands of rows have gone
    // through its operators (on disk the INSERT has spilled several row-sets by then)
    let bulk = matches!(kind, StmtKind::Delete | StmtKind::Insert) && t.chance(1, 15);
    if bulk {
        let td = db.schema[0].clone();
        let mut n = 0i64;
        db.data[0] = (0..5)
            .map(|_| {
                (0..1100)
                    .map(|_| {
                        n += 1;
                        td.cols
                            .iter()
                            .enumerate()
                            .map(|(ci, c)| {
                                let k = n + ci as i64;
                                match c.ty {
                                    _ if c.pk => Val::Int(n),
                                    _ if c.nullable && k % 7 == 0 => Val::Null,
                                    Ty::Int => Val::Int(INT_DOM[(k % 5) as usize]),
                                    Ty::Bool => Val::Bool(k % 2 == 0),
                                    Ty::Str => Val::Str(STR_DOM[(k % 5) as usize].to_string()),
                                }
                            })
                            .collect()
                    })
                    .collect()
            })
            .collect();
        db.tick_after_load = false;
    }
    let mut case = FaultCase { db, kind, optimize, query: None, sql: String::new(), sql_nolimit: String::new(), sel_unlimited: None, target: None, steered: vec![] };
    if kind == StmtKind::Delete {
        let td = if bulk { case.db.schema[0].clone() } else { case.db.schema[t.pick(case.db.schema.len())].clone() };
        case.target = Some(td.name.clone());
        case.sql = format!("delete from {}", td.name);
        if !bulk && !t.chance(1, 8) {
            let scope: Vec<ScopeCol> = td.cols.iter().map(|c| ScopeCol { alias: td.name.clone(), name: c.name.clone(), ty: c.ty }).collect();
            let mut g = Gen { t: &mut t, cfg: cfg.clone(), schema: &case.db.schema, alias_no: 0 };
            let mut p = g.expr(&scope, &[], Ty::Bool, 0, cfg.subqueries);
            for _ in 0..3 {
                if is_pred(&p) {
                    break;
                }
                p = g.expr(&scope, &[], Ty::Bool, 1, cfg.subqueries);
            }
            if !is_pred(&p) {
                let c = &scope[0];
                p = E::IsNull(Box::new(E::Col(c.alias.clone(), c.name.clone(), c.ty)), true);
            }
            case.sql = format!("delete from {} where {}", td.name, p.print(Dialect::Rl));
        }
        case.sql_nolimit = case.sql.clone();
        return case;
    }
    let mut query = if bulk {
        // INSERT INTO tgt SELECT * FROM <the large table>
        let td = case.db.schema[0].clone();
        Query {
            distinct: false,
            select: td.cols.iter().map(|c| (E::Col("t1".into(), c.name.clone(), c.ty), c.ty)).collect(),
            from: vec![FromItem { source: Source::Table(td.name.clone()), alias: "t1".into(), join: None }],
            where_: None,
            group_by: vec![],
            having: None,
            order_by: vec![],
            order_extra: vec![],
            limit: None,
            offset: None,
        }
    } else {
        let mut g = Gen { t: &mut t, cfg: cfg.clone(), schema: &case.db.schema, alias_no: 0 };
        g.query(0)
    };
    if query.limit == Some(0) && ctx.off("gen.c15.limit_zero") {
        query.limit = Some(1);
        case.steered.push("gen.c15.limit_zero".into());
    }
    let (full, nolimit) = (query.print(Dialect::Rl), query.print_opts(Dialect::Rl, true, false));
    case.sel_unlimited = Some(query.print_unlimited(Dialect::Rl));
    match kind {
        StmtKind::Select => (case.sql, case.sql_nolimit) = (full, nolimit),
        StmtKind::Copy => {
            case.sql = format!("copy ({full}) to '{FILE}'");
            case.sql_nolimit = format!("copy ({nolimit}) to '{FILE}'");
        }
        _ => {
            // the target table takes the types of the select list
            let cols = (query.select.iter().enumerate()).map(|(i, (_, ty))| ColDef { name: format!("x{i}"), ty: *ty, nullable: true, pk: false }).collect();
            let td = TableDef { name: "tgt".into(), cols, table_pk: vec![] };
            let n = t.pick(4);
            let rows: Vec<Vec<Val>> = (0..n).map(|_| td.cols.iter().map(|c| gen_val(&mut t, c.ty, true)).collect()).collect();
            case.db.data.push(if rows.is_empty() { vec![] } else { vec![rows] });
            case.db.schema.push(td);
            case.target = Some("tgt".into());
            case.sql = format!("insert into tgt {full}");
            case.sql_nolimit = format!("insert into tgt {nolimit}");
            if !bulk && t.chance(1, 10) {
                // INSERT … VALUES: the child is the values operator
                let n = 1 + t.pick(3);
                let td = case.db.schema.last().unwrap();
                let rows: Vec<Vec<Val>> = (0..n).map(|_| td.cols.iter().map(|c| gen_val(&mut t, c.ty, true)).collect()).collect();
                case.sql = insert_sql("tgt", &rows);
                case.sql_nolimit = case.sql.clone();
                case.sel_unlimited = None;
                return case;
            }
        }
    }
    case.query = Some(query);
    case
}

fn strat(ctx: &Ctx) -> impl Strategy<Value = FaultCase> + use<> {
    let (off, strict, prop) = (ctx.off_switches(), ctx.strict, ctx.prop.clone());
    tape_strategy(300).prop_map(move |tape| decode(&Ctx::switches_only(&prop, off.clone(), strict), &tape))
}

// ---------------------------------------------------------------------------------------------
// trace of one run, collected through the hooks

#[derive(Default, Clone, Debug)]
struct Trace {
    /// (operator id, name, child ids) per spawned operator task
    spawns: Vec<(usize, String, Vec<usize>)>,
    /// operator id -> number of items its stream produced (largest over its instances)
    produced: BTreeMap<usize, usize>,
    /// operator id -> item indices its consumer received (the end of the stream counts as an item)
    recv: BTreeMap<usize, BTreeSet<usize>>,
    /// operator id -> number of consumers that saw the end of its stream
    recv_end: BTreeMap<usize, usize>,
    /// operator ids whose consumer received an error item
    recv_err: Vec<usize>,
    fired: bool,
}

static TRACE: Mutex<Option<Trace>> = Mutex::new(None);

/// Arm the hooks: record everything; inject `fault` at (operator id, item index | usize::MAX).
fn arm(fault: Option<(usize, usize, Fault)>) {
    *TRACE.lock().unwrap() = Some(Trace::default());
    risinglight::verif::set_observer(Some(Arc::new(|kind, detail| {
        let mut g = TRACE.lock().unwrap();
        let Some(tr) = g.as_mut() else { return };
        let mut w = detail.splitn(3, ' ');
        let (Some(a), Some(b), Some(c)) = (w.next(), w.next(), w.next()) else { return };
        let Ok(id) = a.parse::<usize>() else { return };
        match kind {
            "op.spawn" => {
                let ch = c.trim_matches(|x| x == '[' || x == ']').split(',').filter_map(|x| x.trim().parse().ok()).collect();
                tr.spawns.push((id, b.to_string(), ch));
            }
            "op.recv" => {
                tr.recv.entry(id).or_default().insert(b.parse().unwrap_or(usize::MAX));
                match c {
                    "end" => *tr.recv_end.entry(id).or_default() += 1,
                    "err" => tr.recv_err.push(id),
                    _ => {}
                }
            }
            _ => {}
        }
    })));
    risinglight::verif::set_fault(Some(Arc::new(move |id, _name, k| {
        let mut g = TRACE.lock().unwrap();
        let tr = g.as_mut()?;
        if k != usize::MAX {
            let e = tr.produced.entry(id).or_default();
            *e = (*e).max(k + 1);
        } else {
            tr.produced.entry(id).or_default();
        }
        match fault {
            Some((fid, fk, f)) if fid == id && fk == k => {
                tr.fired = true;
                Some(f)
            }
            _ => None,
        }
    })));
}

fn disarm() -> Trace {
    risinglight::verif::reset();
    TRACE.lock().unwrap().take().unwrap_or_default()
}

impl Trace {
    fn ids(&self) -> BTreeSet<usize> {
        self.spawns.iter().map(|s| s.0).collect()
    }
    fn name(&self, id: usize) -> &str {
        self.spawns.iter().find(|s| s.0 == id).map(|s| s.1.as_str()).unwrap_or("?")
    }
    fn instances(&self, id: usize) -> usize {
        self.spawns.iter().filter(|s| s.0 == id).count()
    }
    fn parents(&self, id: usize) -> BTreeSet<usize> {
        self.spawns.iter().filter(|s| s.2.contains(&id)).map(|s| s.0).collect()
    }
    fn ancestors(&self, id: usize) -> BTreeSet<usize> {
        let (mut seen, mut todo) = (BTreeSet::new(), vec![id]);
        while let Some(x) = todo.pop() {
            for p in self.parents(x) {
                if seen.insert(p) {
                    todo.push(p);
                }
            }
        }
        seen
    }
    /// every consumer of the operator read its stream to the end
    fn drained(&self, id: usize) -> bool {
        self.recv_end.get(&id).copied().unwrap_or(0) >= self.instances(id)
    }
    fn consumed(&self, id: usize, k: usize) -> bool {
        self.recv.get(&id).is_some_and(|s| s.contains(&k))
    }
}

// ---------------------------------------------------------------------------------------------

const HANG_S: u64 = 600;
const MAX_FAULTS: usize = 64;

/// Run a statement; a statement that leaves the (paused-clock) runtime idle for 600 virtual
/// seconds is stuck.
async fn exec_t(db: &Database, sql: &str) -> Option<Out> {
    tokio::time::timeout(std::time::Duration::from_secs(HANG_S), exec(db, sql)).await.ok()
}

async fn table_rows(db: &Database, table: &str) -> Result<Vec<Row>, String> {
    match exec_t(db, &format!("select * from {table}")).await {
        Some(Out::Rows(r)) => Ok(sorted(r)),
        Some(o) => Err(o.brief()),
        None => Err("does not return".into()),
    }
}

fn file_lines(p: &std::path::Path) -> Vec<String> {
    let mut v: Vec<String> = std::fs::read_to_string(p).unwrap_or_default().lines().map(|s| s.to_string()).collect();
    v.sort();
    v
}

fn positions(items: usize) -> Vec<usize> {
    if items <= 6 {
        return (0..=items).collect();
    }
    let mut v: Vec<usize> = [0, 1, 2, 15, 16, 17, items - 2, items - 1, items].into_iter().filter(|k| *k <= items).collect();
    v.sort();
    v.dedup();
    v
}

struct Run<'a> {
    ctx: &'a Ctx,
    case: &'a FaultCase,
    db: Database,
    file: std::path::PathBuf,
}

impl Run<'_> {
    async fn open(ctx: &Ctx, case: &FaultCase) -> Result<Database, String> {
        let db = open_and_load(ctx, &case.db, "c15").await?;
        if !case.optimize {
            let _ = exec(&db, "pragma disable_optimizer").await;
        }
        let _ = take_panics();
        Ok(db)
    }
    async fn reopen(&mut self) -> Result<(), String> {
        close(&self.case.db, &self.db).await;
        self.db = Self::open(self.ctx, self.case).await?;
        Ok(())
    }
    fn sql(&self, s: &str) -> String {
        s.replace(FILE, &self.file.to_string_lossy())
    }
}

fn test(ctx: &Ctx, case: &FaultCase, st: &mut Stats) -> Verdict {
    risinglight::verif::reset();
    let (t0, e0) = (std::time::Instant::now(), st.evaluations);
    let r = block_on(run_case(ctx, case, st));
    risinglight::verif::reset();
    if std::env::var("RLV_C15_DEBUG").is_ok() && t0.elapsed().as_millis() > 500 {
        eprintln!("[c15] slow case {:?}: {} runs, {} {:?} disk={} opt={} {}", t0.elapsed(), st.evaluations - e0, case.db.total_rows(), case.kind, case.db.disk.is_some(), case.optimize, case.sql);
    }
    *TRACE.lock().unwrap() = None;
    match r {
        Ok(v) => v,
        Err(p) => fail(format!("harness-panic:{}", panic_sig(&p)), p),
    }
}

async fn run_case(ctx: &Ctx, case: &FaultCase, st: &mut Stats) -> Verdict {
    let db = match Run::open(ctx, case).await {
        Ok(db) => db,
        Err(e) => return fail("setup", e),
    };
    let file = ctx.scratch.join(format!("w{}-c15.csv", ctx.worker));
    let mut run = Run { ctx, case, db, file };
    let v = run_faults(&mut run, st).await;
    close(&case.db, &run.db).await;
    let _ = std::fs::remove_file(&run.file);
    let _ = take_panics();
    v
}

async fn run_faults(run: &mut Run<'_>, st: &mut Stats) -> Verdict {
    let case = run.case;
    let kind = case.kind;
    let engine = if case.db.disk.is_some() { "disk" } else { "memory" };
    // 1. the statement: LIMIT/OFFSET stays in INSERT/COPY only if the selected rows are unique
    let limited = case.query.as_ref().is_some_and(|q| q.limit.is_some() || q.offset.is_some());
    let mut unlimited: Option<Vec<Row>> = None;
    let mut stmt = case.sql.clone();
    if limited {
        match exec_t(&run.db, case.sel_unlimited.as_ref().unwrap()).await {
            Some(Out::Rows(r)) => {
                if kind != StmtKind::Select && !order_is_total(case.query.as_ref().unwrap(), &r) {
                    stmt = case.sql_nolimit.clone();
                    st.class("limit-dropped:order-not-total");
                }
                unlimited = Some(r);
            }
            Some(Out::Rejected(_)) => return Verdict::Discard("statement rejected by the binder"),
            _ => return Verdict::Discard("clean run fails"),
        }
        let _ = take_panics();
    }
    let limited = limited && stmt == case.sql;
    let stmt = run.sql(&stmt);
    let pre = match &case.target {
        Some(t) => match table_rows(&run.db, t).await {
            Ok(r) => r,
            Err(_) => return Verdict::Discard("target table cannot be read"),
        },
        None => vec![],
    };
    // 2. clean run, recorded
    arm(None);
    let clean = exec_t(&run.db, &stmt).await;
    let tr = disarm();
    st.eval();
    let clean_rows = match clean {
        Some(Out::Rows(r)) if take_panics().is_empty() => r,
        Some(Out::Rejected(_)) => return Verdict::Discard("statement rejected by the binder"),
        o => {
            if std::env::var("RLV_C15_DEBUG").is_ok() {
                eprintln!("[c15] clean run fails: {stmt}\n   opt={} {engine} -> {:?} panics {:?}", case.optimize, o.map(|o| o.brief()), take_panics());
            }
            let _ = take_panics();
            return Verdict::Discard("clean run fails");
        }
    };
    let post = match &case.target {
        Some(t) => match table_rows(&run.db, t).await {
            Ok(r) => r,
            Err(_) => return Verdict::Discard("target table cannot be read"),
        },
        None => vec![],
    };
    let clean_file = if kind == StmtKind::Copy { file_lines(&run.file) } else { vec![] };
    let mut dirty = kind == StmtKind::Insert || kind == StmtKind::Delete;
    // results of a SELECT must be reproducible for the comparison below to mean anything
    if !dirty {
        match exec_t(&run.db, &stmt).await {
            Some(Out::Rows(r)) if same_result(case, limited, &clean_rows, &r, unlimited.as_deref()).is_ok() => {}
            _ => return Verdict::Discard("clean result is not reproducible"),
        }
        let _ = take_panics();
    }
    for sw in &case.steered {
        st.excluded(sw);
    }
    let ids = tr.ids();
    if ids.is_empty() {
        return Verdict::Discard("no operator in the plan");
    }
    st.class(&format!("stmt-{}", kind.name()));
    st.class(&format!("engine-{engine}"));
    st.class(if case.optimize { "optimizer-on" } else { "optimizer-off" });
    for f in case.query.iter().flat_map(|q| q.features()) {
        st.class(f);
    }
    st.class(&format!("plan-ops-{}", match ids.len() { 1 => "1", 2..=3 => "2-3", 4..=6 => "4-6", _ => "7+" }));
    let max_items = tr.produced.values().copied().max().unwrap_or(0);
    st.class(&format!("max-items-per-op-{}", match max_items { 0 => "0", 1 => "1", 2..=4 => "2-4", 5..=16 => "5-16", _ => "17+" }));
    if ids.iter().any(|i| !tr.drained(*i)) {
        st.class("plan-has-undrained-operator");
    }
    for id in &ids {
        st.class(&format!("op-{}", tr.name(*id)));
    }
    // 3. every fault (plans with more than MAX_FAULTS fault points: an evenly spread subset)
    let dml_root = |id: usize| kind.is_dml() && tr.parents(id).is_empty();
    let planned: usize = ids.iter().filter(|i| !dml_root(**i)).map(|i| 2 * positions(tr.produced.get(i).copied().unwrap_or(0)).len()).sum();
    let stride = planned.div_ceil(MAX_FAULTS).max(1);
    if stride > 1 {
        st.class("faults-subsampled");
    }
    let mut fault_no = stmt.len() % stride;
    for &id in &ids {
        let name = tr.name(id).to_string();
        let ancestors = tr.ancestors(id);
        if kind.is_dml() && ancestors.is_empty() {
            continue; // the DML operator itself emits its row count after committing
        }
        let items = tr.produced.get(&id).copied().unwrap_or(0);
        let above_drained = ancestors.iter().all(|a| tr.drained(*a));
        for k in positions(items) {
            let at = if k == items { usize::MAX } else { k };
            let pos = if k == items { "end" } else if k == 0 { "first" } else if k + 1 == items { "last" } else { "mid" };
            for f in [Fault::Error, Fault::Panic] {
                let fname = if f == Fault::Error { "error" } else { "panic" };
                fault_no += 1;
                if fault_no % stride != 0 {
                    continue;
                }
                if dirty {
                    if let Err(e) = run.reopen().await {
                        return fail("setup", e);
                    }
                    dirty = false;
                }
                if kind == StmtKind::Copy {
                    let _ = std::fs::remove_file(&run.file);
                }
                arm(Some((id, at, f)));
                let out = exec_t(&run.db, &stmt).await;
                let ft = disarm();
                st.eval();
                let panics: Vec<String> = take_panics().into_iter().filter(|p| !p.starts_with("verif: injected panic")).collect();
                let consumed = tr.consumed(id, k);
                let must_err = consumed && above_drained && ft.fired;
                st.class(&format!("fault-{fname}"));
                st.class(if !ft.fired { "fault-not-reached" } else if must_err { "fault-must-surface" } else if consumed { "fault-consumed-below-early-stop" } else { "fault-not-consumed" });
                if consumed {
                    st.nontrivial((kind, engine, case.optimize, name.clone(), pos, fname, above_drained, tr.parents(id).iter().map(|p| tr.name(*p).to_string()).collect::<Vec<_>>()));
                }
                if !panics.is_empty() {
                    st.class("fault-run-secondary-panic");
                }
                let wher = format!(
                    "{fname} injected in operator {id}.{name} at item {k} of {items}{}\n  sql: {stmt}\n  engine: {engine}, optimizer {}\n  plan operators (id.name[children]): {}\n  consumers that received an error item in this run: {:?}\n  other panics: {panics:?}",
                    if k == items { " (end of stream)" } else { "" },
                    if case.optimize { "on" } else { "off" },
                    tr.spawns.iter().map(|s| format!("{}.{}{:?}", s.0, s.1, s.2.iter().filter(|c| ids.contains(c)).collect::<Vec<_>>())).collect::<Vec<_>>().join(" "),
                    ft.recv_err.iter().map(|i| format!("{i}.{}", ft.name(*i))).collect::<Vec<_>>(),
                );
                let sig = |sym: &str| format!("{}:{fname}:{name}:{sym}", kind.name());
                let ok = match out {
                    None => return fail(sig("statement-hangs"), format!("the statement does not return (runtime idle for {HANG_S} virtual seconds)\n  {wher}")),
                    Some(Out::Panicked(p)) => return fail(sig("panic-escapes-run"), format!("Database::run panicked instead of returning Err: {p}\n  {wher}")),
                    Some(Out::Rejected(e)) => return fail(sig("rejected"), format!("statement rejected in the fault run only: {e}\n  {wher}")),
                    Some(Out::Failed(_)) => None,
                    Some(Out::Rows(r)) => Some(r),
                };
                st.class(if ok.is_some() { "outcome-ok" } else { "outcome-err" });
                if let Some(r) = &ok {
                    if must_err {
                        // the operator that received an error item and did not pass it on
                        let lost: BTreeSet<usize> = ft.recv_err.iter().filter(|i| !ft.parents(**i).iter().any(|p| ft.recv_err.contains(p))).copied().collect();
                        let by: Vec<String> = lost.iter().flat_map(|i| if ft.parents(*i).is_empty() { vec!["Database::run".to_string()] } else { ft.parents(*i).iter().map(|p| ft.name(*p).to_string()).collect() }).collect();
                        let by = if by.is_empty() { format!("channel-of:{name}") } else { by.join("+") };
                        return fail(
                            format!("{fname}-swallowed-by:{by}"),
                            format!("Database::run returned {} although the failing item was consumed (clean run: the consumer received item {k} and every operator above was read to its end)\n  {wher}", Out::Rows(r.clone()).brief()),
                        );
                    }
                    if let Err(e) = same_result(case, limited, &clean_rows, r, unlimited.as_deref()) {
                        return fail(sig("ok-with-different-rows"), format!("Database::run returned Ok with a result that differs from the clean run: {e}\n  {wher}"));
                    }
                    if kind == StmtKind::Copy && file_lines(&run.file) != clean_file {
                        return fail(sig("ok-with-different-file"), format!("COPY returned Ok but the file differs from the clean run: {:?} vs clean {:?}\n  {wher}", file_lines(&run.file), clean_file));
                    }
                }
                if let Some(t) = &case.target {
                    let now = match table_rows(&run.db, t).await {
                        Ok(r) => r,
                        Err(e) => return fail(sig("table-unreadable-afterwards"), format!("after the statement, `select * from {t}` -> {e}\n  {wher}")),
                    };
                    let _ = take_panics();
                    let (want, what) = if ok.is_some() { (&post, "the content after the clean run") } else { (&pre, "its pre-statement content") };
                    if now != *want {
                        let sym = if ok.is_some() { "ok-but-table-differs" } else { "failed-statement-changed-table" };
                        return fail(
                            sig(sym),
                            format!("statement returned {}, table {t} is {} but {what} is {}\n  {wher}", if ok.is_some() { "Ok" } else { "Err" }, fmt_rows(&now), fmt_rows(want)),
                        );
                    }
                    dirty = now != pre;
                }
            }
        }
    }
    Verdict::Pass
}

/// Is `got` the clean result? Multisets; ORDER BY key sequence; under LIMIT/OFFSET without a
/// total order any right-sized selection with the right keys is the clean result.
fn same_result(case: &FaultCase, limited: bool, clean: &[Row], got: &[Row], unlimited: Option<&[Row]>) -> Result<(), String> {
    match &case.query {
        Some(q) if case.kind == StmtKind::Select => {
            if limited {
                compare_results(q, clean, got, unlimited)
            } else {
                let mut q = q.clone();
                (q.limit, q.offset) = (None, None);
                compare_results(&q, clean, got, None)
            }
        }
        // row count of INSERT / DELETE / COPY
        _ if clean == got => Ok(()),
        _ => Err(format!("clean {} vs {}", fmt_rows(clean), fmt_rows(got))),
    }
}

// ---------------------------------------------------------------------------------------------
// part "copy-from": natural failures of COPY .. FROM (no hook involved)

#[derive(Clone, Debug, Serialize, Deserialize)]
pub struct CopyFromCase {
    pub disk: bool,
    /// column types: 0 = int, 1 = varchar, 2 = boolean
    pub cols: Vec<u8>,
    /// rows in the table before the statement
    pub pre: usize,
    /// well-formed lines of the file
    pub good: usize,
    /// a malformed line: (position among the good lines, kind: 0 = text in an int / boolean column,
    /// 1 = one field too few, 2 = one field too many)
    pub bad: Option<(usize, u8)>,
}

fn copyfrom_strategy(_ctx: &Ctx) -> impl Strategy<Value = CopyFromCase> + use<> {
    (any::<bool>(), prop::collection::vec(0u8..3, 1..4), 0usize..4, prop::sample::select(vec![0usize, 1, 5, 1023, 1024, 1025, 2047, 2048, 3000]), prop::option::weighted(0.7, (0usize..4000, 0u8..3))).prop_map(
        |(disk, cols, pre, good, bad)| {
            let bad = bad.map(|(p, k)| (p % (good + 1), k));
            CopyFromCase { disk, cols, pre, good, bad }
        },
    )
}

fn copyfrom_row(cols: &[u8], i: usize) -> Vec<Val> {
    cols.iter()
        .map(|c| match c {
            0 => Val::Int(i as i64),
            1 => Val::Str(format!("s{i}")),
            _ => Val::Bool(i % 2 == 0),
        })
        .collect()
}

fn copyfrom_test(ctx: &Ctx, case: &CopyFromCase, st: &mut Stats) -> Verdict {
    risinglight::verif::reset();
    let dir = ctx.case_dir("c15cf");
    let file = dir.join("in.csv");
    // the file
    let mut lines: Vec<String> = (0..case.good)
        .map(|i| copyfrom_row(&case.cols, 1000 + i).iter().map(|v| match v {
            Val::Int(x) => x.to_string(),
            Val::Str(x) => x.clone(),
            Val::Bool(b) => b.to_string(),
            _ => String::new(),
        }).collect::<Vec<_>>().join(","))
        .collect();
    let mut bad_kind = None;
    if let Some((pos, kind)) = case.bad {
        let mut f: Vec<String> = copyfrom_row(&case.cols, 7).iter().map(|v| match v {
            Val::Int(x) => x.to_string(),
            Val::Str(x) => x.clone(),
            Val::Bool(b) => b.to_string(),
            _ => String::new(),
        }).collect();
        let kind = match kind {
            0 => match case.cols.iter().position(|c| *c != 1) {
                Some(i) => {
                    f[i] = "x?y".into();
                    0
                }
                None => 2,
            },
            1 if f.len() > 1 => 1,
            k => k.max(2),
        };
        match kind {
            1 => {
                f.pop();
            }
            2 => f.push("extra".into()),
            _ => {}
        }
        bad_kind = Some(kind);
        lines.insert(pos.min(lines.len()), f.join(","));
    }
    std::fs::write(&file, lines.join("\n") + if lines.is_empty() { "" } else { "\n" }).unwrap();
    let r = block_on(async {
        let db = if case.disk {
            match open_disk(&DiskCfg::small(), &dir.join("db")).await {
                Ok(db) => db,
                Err(e) => return fail("setup:open", e),
            }
        } else {
            Database::new_in_memory()
        };
        let decl: Vec<String> = case.cols.iter().enumerate().map(|(i, c)| format!("c{i} {}", ["int", "varchar", "boolean"][*c as usize])).collect();
        let pre: Vec<Vec<Val>> = (0..case.pre).map(|i| copyfrom_row(&case.cols, i)).collect();
        let mut setup = vec![format!("create table t({})", decl.join(", "))];
        if !pre.is_empty() {
            setup.push(insert_sql("t", &pre));
        }
        for s in &setup {
            if !exec(&db, s).await.is_ok() {
                return fail("setup", format!("{s} failed"));
            }
        }
        let _ = take_panics();
        let stmt = format!("copy t from '{}'", file.display());
        let out = exec_t(&db, &stmt).await;
        let panics = take_panics();
        st.evals(1);
        let after = table_rows(&db, "t").await;
        let mut want: Vec<Row> = pre.clone();
        let ctxt = || format!("\n  table t({}) with {} rows, file of {} good lines, malformed line: {:?} (kind {:?}), engine {}\n  statement: {stmt}\n  panics: {panics:?}", decl.join(", "), case.pre, case.good, case.bad.map(|b| b.0), bad_kind, if case.disk { "disk" } else { "memory" });
        st.class(if case.disk { "engine-disk" } else { "engine-memory" });
        let v = match (bad_kind, &out) {
            (_, None) => fail("copyfrom:does-not-return", format!("COPY FROM does not return{}", ctxt())),
            (Some(k), Some(o)) => {
                st.class(["bad-line:unparsable-field", "bad-line:too-few-fields", "bad-line:too-many-fields"][k as usize]);
                if case.bad.is_some_and(|b| b.0 >= 1024) {
                    st.class("bad-line-after-first-batch");
                }
                st.nontrivial((case.disk, k, case.good.min(2000) / 1000, case.bad.map(|b| b.0.min(2048) / 1024)));
                match (o, &after) {
                    (Out::Rows(r), _) => fail(format!("copyfrom:ok-despite-malformed-line:{k}"), format!("COPY FROM of a file with a malformed line returned Ok{}{}", fmt_rows(r), ctxt())),
                    (_, Ok(rows)) if *rows != sorted(want.clone()) => fail(format!("copyfrom:table-changed-by-failed-statement:{k}"), format!("the failed COPY FROM left {} rows in the table (before: {}){}", rows.len(), case.pre, ctxt())),
                    (_, Err(e)) => fail("copyfrom:table-unreadable", format!("select after the failed COPY FROM: {e}{}", ctxt())),
                    _ => Verdict::Pass,
                }
            }
            (None, Some(o)) => {
                st.class("well-formed-file");
                want.extend((0..case.good).map(|i| copyfrom_row(&case.cols, 1000 + i)));
                match (o, &after) {
                    (Out::Rows(r), Ok(rows)) if *r == vec![vec![Val::Int(case.good as i64)]] && *rows == sorted(want.clone()) => Verdict::Pass,
                    (Out::Rows(r), Ok(rows)) => fail("copyfrom:rows-differ", format!("COPY FROM reported {} and the table has {} rows, expected {}{}", fmt_rows(r), rows.len(), want.len(), ctxt())),
                    (o, _) => fail(format!("copyfrom:well-formed-file-fails:{}", o.class()), format!("COPY FROM of a well-formed file: {}{}", o.brief(), ctxt())),
                }
            }
        };
        if case.disk {
            let _ = shutdown(&db).await;
        }
        v
    });
    let _ = std::fs::remove_dir_all(&dir);
    match r {
        Ok(v) => v,
        Err(p) => fail(format!("harness-panic:{}", panic_sig(&p)), p),
    }
}

pub fn def() -> PropDef {
    PropDef {
        id: "C15",
        level: "fault_enumeration",
        rule: "tape-generated schema/data (several insert batches = several chunks per scan; 1 in 12 cases one table in 17-24 single-row batches, more than the operator channel holds), engine (memory / disk), optimizer on or off, statement (SELECT with joins, aggregates, DISTINCT, ORDER BY, LIMIT/OFFSET, subqueries; INSERT INTO tgt SELECT | VALUES; DELETE [WHERE pred, with subqueries]; COPY (SELECT) TO file). A recorded clean run gives the operator tree, items per operator and which items each consumer received; then every (operator below the DML node, position 0..=items [items = end of stream; at most 9 positions for long streams incl. 15/16/17], kind in {error, panic}) is injected in a run of its own (plans with more than 64 such fault points: an evenly spread subset of about 64). non-trivial = the injected item (or the end of stream) was received by the operator's consumer in the clean run; distinct by (statement kind, engine, optimizer, operator, position class, fault kind, operators above fully read, parent operator). Part copy-from (no hook): COPY t FROM a generated CSV file of 0-3000 well-formed lines with, in 70 %, one malformed line (unparsable field, a field too few / too many) at any position: the statement must fail and leave the table as it was; a well-formed file must be imported completely",
        assumptions: vec![
            "operators are deterministic: a consumer that received item k in the clean run asks for it again when the preceding items are the same",
            "a fault must surface as Err when the clean run's consumer received the item and every operator above was read to its end; otherwise Ok with the clean result is accepted as 'the consumer had stopped listening'",
            "LIMIT/OFFSET without a total order: any selection of the right size and key sequence from the un-limited result is the clean result; INSERT/COPY keep a LIMIT only under a total order",
            "a statement that leaves the paused-clock runtime idle for 600 virtual seconds does not return",
        ],
        min_nontrivial: 300,
        parts: vec![part("faults", 6000, 150_000, strat, test), part("copy-from", 600, 12_000, copyfrom_strategy, copyfrom_test)],
    }
}
