//! A choice tape: all random choices of the imperative generators are read from a
//! `Vec<u32>` produced by a proptest strategy, so proptest shrinks the tape (shorter, smaller
//! numbers) and the decoders map smaller numbers to simpler choices. An exhausted tape yields 0.

use proptest::prelude::*;

pub struct Tape<'a> {
    data: &'a [u32],
    pos: usize,
}

impl<'a> Tape<'a> {
    pub fn new(data: &'a [u32]) -> Self {
        Tape { data, pos: 0 }
    }
    pub fn raw(&mut self) -> u32 {
        let v = self.data.get(self.pos).copied().unwrap_or(0);
        self.pos += 1;
        v
    }
    /// A choice in `0..n`, monotone in the raw value (0 = first = simplest).
    pub fn pick(&mut self, n: usize) -> usize {
        if n <= 1 {
            self.raw();
            return 0;
        }
        ((self.raw() as u64 * n as u64) >> 32) as usize
    }
    /// true with probability num/den; raw 0 gives false.
    pub fn chance(&mut self, num: u32, den: u32) -> bool {
        let r = self.raw();
        (r as u64 * den as u64 >> 32) as u32 >= den - num
    }
    pub fn range(&mut self, lo: usize, hi_incl: usize) -> usize {
        lo + self.pick(hi_incl - lo + 1)
    }
    pub fn choose<'b, T>(&mut self, xs: &'b [T]) -> &'b T {
        &xs[self.pick(xs.len())]
    }
    /// weighted pick: index of the chosen weight (first entry should be the simplest)
    pub fn weighted(&mut self, ws: &[u32]) -> usize {
        let total: u32 = ws.iter().sum();
        let mut x = self.pick(total as usize) as u32;
        for (i, w) in ws.iter().enumerate() {
            if x < *w {
                return i;
            }
            x -= w;
        }
        ws.len() - 1
    }
    pub fn exhausted(&self) -> bool {
        self.pos >= self.data.len()
    }
}

/// Strategy for a fixed-length tape with a shrinker made for tapes: zero out blocks of
/// decreasing size, then halve individual values.
#[derive(Debug, Clone)]
pub struct TapeStrategy(pub usize);

pub fn tape_strategy(len: usize) -> TapeStrategy {
    TapeStrategy(len)
}

impl Strategy for TapeStrategy {
    type Tree = TapeTree;
    type Value = Vec<u32>;
    fn new_tree(&self, runner: &mut proptest::test_runner::TestRunner) -> proptest::strategy::NewTree<Self> {
        use proptest::prelude::RngCore;
        let rng = runner.rng();
        let mut v = Vec::with_capacity(self.0);
        for _ in 0..self.0 {
            // bias: a quarter of the entries are 0 (simplest choice), the rest uniform
            let r = rng.next_u32();
            v.push(if r & 3 == 0 { 0 } else { rng.next_u32() });
        }
        Ok(TapeTree {
            block: (self.0 / 2).max(1),
            cur: v,
            prev: None,
            pos: 0,
            phase: 0,
            progress: false,
            rounds: 0,
        })
    }
}

pub struct TapeTree {
    cur: Vec<u32>,
    prev: Option<Vec<u32>>,
    block: usize,
    pos: usize,
    phase: u8,
    progress: bool,
    rounds: u8,
}

impl TapeTree {
    fn next_candidate(&mut self) -> bool {
        let n = self.cur.len();
        loop {
            match self.phase {
                0 => {
                    // zero a block
                    if self.pos >= n {
                        self.pos = 0;
                        if self.block == 1 {
                            self.phase = 1;
                        } else {
                            self.block /= 2;
                        }
                        continue;
                    }
                    let end = (self.pos + self.block).min(n);
                    let start = self.pos;
                    self.pos = end;
                    if self.cur[start..end].iter().any(|x| *x != 0) {
                        let mut c = self.cur.clone();
                        c[start..end].iter_mut().for_each(|x| *x = 0);
                        self.prev = Some(std::mem::replace(&mut self.cur, c));
                        return true;
                    }
                }
                1 => {
                    // halve a value
                    if self.pos >= n {
                        self.pos = 0;
                        self.rounds += 1;
                        if self.progress && self.rounds < 3 {
                            self.progress = false;
                            self.phase = 0;
                            self.block = 4.min(n.max(1));
                        } else {
                            self.phase = 2;
                        }
                        continue;
                    }
                    let i = self.pos;
                    if self.cur[i] == 0 {
                        self.pos += 1;
                        continue;
                    }
                    let mut c = self.cur.clone();
                    c[i] /= 2;
                    self.prev = Some(std::mem::replace(&mut self.cur, c));
                    return true;
                }
                _ => return false,
            }
        }
    }
}

impl proptest::strategy::ValueTree for TapeTree {
    type Value = Vec<u32>;
    fn current(&self) -> Vec<u32> {
        self.cur.clone()
    }
    fn simplify(&mut self) -> bool {
        // the previous candidate (if any) was accepted
        if self.prev.take().is_some() {
            self.progress = true;
        }
        self.next_candidate()
    }
    fn complicate(&mut self) -> bool {
        // the previous candidate was rejected: revert, and in phase 1 move on to the next slot
        if let Some(p) = self.prev.take() {
            self.cur = p;
            if self.phase == 1 {
                self.pos += 1;
            }
        }
        self.next_candidate()
    }
}
