//! Registry of the property checks.
use crate::engine::*;

pub mod c01;
pub mod c01_rules;
pub mod c02;
pub mod c03;
pub mod c04;
pub mod c05;
pub mod c06;
mod c06_sql;
mod c06_vals;
pub mod c07;
pub mod c08;
pub mod c09;
pub mod c10;
mod c10_model;
pub mod c11;
mod c11_data;
pub mod c12;
pub mod c13;
pub mod c14;
mod c14_gen;
mod c14_model;
pub mod c15;
pub mod c16;
pub mod c16_db;
mod c16_ins;
mod c16_q;
pub mod c17;
pub mod c18;
pub mod c19;
mod c19_model;
pub mod c20;
mod hist;
pub mod sched;
pub mod selftest;
pub mod sqlcase;

pub fn all() -> Vec<PropDef> {
    vec![selftest::def(), c01::def(), c02::def(), c03::def(), c04::def(), c05::def(), c06::def(), c07::def(), c08::def(), c09::def(), c10::def(), c11::def(), c12::def(), c13::def(), c14::def(), c15::def(), c16::def(), c17::def(), c18::def(), c19::def(), c20::def()]
}
