//! C20 — CSV export followed by import reproduces the table.
//!
//! One case = one table `t` (1–5 columns over every column type the CSV path knows), its rows
//! (boundary-biased per type, loaded by 1–4 INSERTs, optionally replicated beyond the 1024-row
//! processing window), one set of COPY options and one source form. The oracle is the round trip
//! itself: `COPY <src> TO f (opts)`; `CREATE TABLE u (same types)`; `COPY u FROM f (opts)`; the rows
//! of the source and of `u`, both read back through `SELECT`, must be equal as multisets and the
//! export must report |t| rows. Nothing of the CSV code is re-implemented here.
use std::collections::BTreeSet;
use std::path::Path;

use proptest::prelude::*;
use risinglight::Database;
use serde::{Deserialize, Serialize};

use crate::engine::*;
use crate::sqlrun::*;

const SW_NULL: &str = "gen.csv_null_cells";
const SW_EMPTY: &str = "gen.csv_empty_string";
const SW_HEADER: &str = "gen.csv_header";
const SW_ZERO_IV: &str = "gen.csv_zero_interval";
const SW_BLOBVEC: &str = "gen.csv_blob_vector_columns";
const SW_BLOB_ESC: &str = "gen.csv_blob_backslash_quote";
const SW_BOM: &str = "gen.csv_bom_first_cell";
const SW_BC_CARRY: &str = "gen.csv_tstz_bc_year_carry";
const SWITCHES: [&str; 8] = [SW_NULL, SW_EMPTY, SW_HEADER, SW_ZERO_IV, SW_BLOBVEC, SW_BLOB_ESC, SW_BOM, SW_BC_CARRY];

#[derive(Clone, Debug, Serialize, Deserialize)]
pub struct Case {
    /// on-disk engine (DiskCfg::small) instead of the in-memory engine
    disk: bool,
    /// SQL column types of `t`; the columns are named c0, c1, …
    cols: Vec<String>,
    /// SQL literals, one row per entry
    rows: Vec<Vec<String>>,
    /// the rows are inserted `rep` times (cycled), split over `stmts` INSERT statements
    rep: u16,
    stmts: u8,
    delim: Option<char>,
    quote: Option<char>,
    /// 0 absent, 1 `header false`, 2 `header true`, 3 `header`
    header: u8,
    format: bool,
    /// rotation of the option list
    rot: u8,
    /// 0 `COPY t TO`, 1 `COPY t(cols…) TO`, 2 `COPY (select * from t) TO`,
    /// 3 `COPY (select cols… from t) TO` (cols = prefix of the permutation),
    /// 4 `COPY t TO` and `COPY u(c0,…) FROM` into a `u` declared in permuted column order
    src: u8,
    /// sort keys defining the column permutation
    perm: Vec<u16>,
    /// length of the projected prefix for src = 3
    take: u8,
    /// bit i set: the generator wanted shape SWITCHES[i] here but steered away (open finding)
    excl: u8,
}

// ---------------------------------------------------------------------------------------------
// generator

#[derive(Clone, Copy, Debug, PartialEq)]
enum Ty {
    Bool,
    Small,
    Int,
    Big,
    Double,
    Dec(Option<(u8, u8)>),
    Varchar,
    Char(u8),
    Text,
    Date,
    Ts,
    TsTz,
    Interval,
    Blob,
    Vector(u8),
}

impl Ty {
    fn sql(&self) -> String {
        match self {
            Ty::Bool => "boolean".into(),
            Ty::Small => "smallint".into(),
            Ty::Int => "int".into(),
            Ty::Big => "bigint".into(),
            Ty::Double => "double".into(),
            Ty::Dec(None) => "decimal".into(),
            Ty::Dec(Some((p, s))) => format!("decimal({p},{s})"),
            Ty::Varchar => "varchar".into(),
            Ty::Char(n) => format!("char({n})"),
            Ty::Text => "text".into(),
            Ty::Date => "date".into(),
            Ty::Ts => "timestamp".into(),
            Ty::TsTz => "timestamptz".into(),
            Ty::Interval => "interval".into(),
            Ty::Blob => "blob".into(),
            Ty::Vector(n) => format!("vector({n})"),
        }
    }
}

/// Which shapes are switched off by open findings, and (per case) which of them the generator
/// actually had to steer away from.
struct Flags {
    /// indexed like SWITCHES
    off: [bool; 8],
    disk: bool,
    steered: std::cell::Cell<u8>,
}

impl Flags {
    /// Is shape `i` (index into SWITCHES) switched off? Records that the case wanted it.
    fn avoid(&self, i: usize) -> bool {
        if self.off[i] {
            self.steered.set(self.steered.get() | 1 << i);
        }
        self.off[i]
    }
}
const NULLS: usize = 0;
const EMPTY: usize = 1;
const HEADER: usize = 2;
const ZERO_IV: usize = 3;
const BLOBVEC: usize = 4;
const BLOB_ESC: usize = 5;
const BOM: usize = 6;
const BC_CARRY: usize = 7;

/// Monotone map of the low 16 bits of `i` onto `xs`.
fn pick<T: Copy>(xs: &[T], i: u64) -> T {
    xs[((i & 0xffff) as usize * xs.len()) >> 16]
}

fn ty_of(sel: u8, par: u8, fl: &Flags) -> Ty {
    const DEC: [(u8, u8); 6] = [(10, 2), (5, 0), (28, 10), (9, 1), (20, 5), (28, 28)];
    let sel = sel as usize * 100 / 256;
    match sel {
        0..=9 => Ty::Int,
        10..=15 => Ty::Big,
        16..=20 => Ty::Small,
        21..=26 => Ty::Bool,
        27..=38 => Ty::Double,
        39..=43 => Ty::Dec(None),
        44..=51 => Ty::Dec(Some(DEC[par as usize % DEC.len()])),
        52..=65 => Ty::Varchar,
        66..=68 => Ty::Char([1u8, 5, 25][par as usize % 3]),
        69..=71 => Ty::Text,
        72..=77 => Ty::Date,
        78..=82 => Ty::Ts,
        83..=86 => Ty::TsTz,
        87..=91 => Ty::Interval,
        92..=96 if !fl.avoid(BLOBVEC) => Ty::Blob,
        97..=99 if !fl.avoid(BLOBVEC) => Ty::Vector(1 + par % 3),
        _ => Ty::Varchar,
    }
}

/// D and Q stand for the delimiter and quote characters in effect.
const ATOMS: &[&str] = &[
    "D", "Q", "a", "b", "Z", "0", " ", ",", "|", ";", "\t", "\"", "'", "\n", "\r", "\r\n", "\\", "é", "☃", "NULL", "#",
    "`", ":", "-", ".", "\"\"", "null", "\\N", "e", "~", "D", "Q", "\n", " ",
];
const BLOB_ATOMS: &[&str] = &[
    "D", "Q", "a", "B", "0", " ", ",", "|", ";", "\"", "\\x00", "\\xFF", "\\x0A", "\\x0D", "\\x09", "\\x80", "\\x7F", "-",
    "\\", "'", // the last two are dropped while gen.csv_blob_backslash_quote is off
];

type Seed = (u8, u16, u64, [u8; 6], u8);

fn sql_str(s: &str) -> String {
    format!("'{}'", s.replace('\'', "''"))
}

fn f64_text(x: f64) -> String {
    if x.is_nan() {
        "NaN".into()
    } else if x.is_infinite() {
        if x > 0.0 { "inf".into() } else { "-inf".into() }
    } else {
        format!("{x:e}")
    }
}

fn float_of(idx: u64, bits: u64) -> f64 {
    const B: [f64; 22] = [
        0.0,
        -0.0,
        1.0,
        -1.5,
        0.1,
        0.30000000000000004,
        f64::NAN,
        f64::INFINITY,
        f64::NEG_INFINITY,
        f64::MAX,
        f64::MIN,
        f64::MIN_POSITIVE,
        5e-324,
        1e22,
        1e23,
        123456789.12345679,
        1.0 / 3.0,
        9007199254740993.0,
        1e-7,
        1e300,
        -2.2250738585072009e-308,
        4.35,
    ];
    if idx & 1 == 0 {
        pick(&B, idx & !1)
    } else {
        match (idx >> 1) & 3 {
            0 => f64::from_bits(bits),
            1 => (bits as i64 >> (bits & 63)) as f64,
            2 => (bits as i64 >> 20) as f64 / 1e6,
            _ => f64::from_bits(bits).recip(),
        }
    }
}

fn int_of(idx: u64, bits: u64, min: i64, max: i64) -> i64 {
    let b = [min, min + 1, -1, 0, 1, 10, max - 1, max, -10, 100];
    if idx & 1 == 0 {
        pick(&b, idx & !1)
    } else {
        let sh = (bits & 63) as u32;
        let v = (bits as i64) >> sh;
        v.clamp(min, max)
    }
}

/// A decimal literal that is a value of DECIMAL(p,s): at most p-s integer digits and at most s
/// fraction digits (plain DECIMAL: at most 28 digits in total).
fn dec_text(idx: u64, bits: u64, ps: Option<(u8, u8)>) -> String {
    let (p, s) = match ps {
        Some((p, s)) => (p as u32, s as u32),
        None => (28, 28),
    };
    if idx & 3 == 0 {
        let fixed: &[&str] = match ps {
            None => &[
                "0",
                "1",
                "-1",
                "1.0",
                "1.10",
                "0.1",
                "79228162514264337593543950335",
                "-79228162514264337593543950335",
                "0.0000000000000000000000000001",
                "7.9228162514264337593543950335",
                "100",
                "-0.50",
            ],
            Some(_) => &["0", "1", "-1", "100", "-99999", "10"],
        };
        let t = pick(fixed, idx & !3);
        let int_digits = t.trim_start_matches('-').split('.').next().unwrap().len() as u32;
        if ps.is_none() || int_digits <= p - s {
            return t.to_string();
        }
        return "0".into();
    }
    let (nint, nfrac) = match ps {
        Some(_) => {
            let nfrac = if idx & 4 == 0 { s } else { ((bits >> 3) % (s as u64 + 1)) as u32 };
            (((bits >> 8) % (p - s + 1) as u64) as u32, nfrac)
        }
        None => {
            let nint = ((bits >> 8) % 29) as u32;
            (nint, ((bits >> 3) % (29 - nint) as u64) as u32)
        }
    };
    if nint + nfrac == 0 {
        return "0".into();
    }
    let wide = (bits as u128).wrapping_mul(0x9E37_79B9_7F4A_7C15_F39C_C060_5CED_C835) ^ (bits as u128) << 61;
    let m = wide % 10u128.pow(nint + nfrac);
    let digits = format!("{m:0>width$}", width = nfrac as usize + 1);
    let (i, f) = digits.split_at(digits.len() - nfrac as usize);
    let mut t = String::new();
    if bits & 1 == 1 {
        t.push('-');
    }
    t.push_str(i);
    if nfrac > 0 {
        t.push('.');
        t.push_str(f);
    }
    t
}

fn ymd(idx: u64, bits: u64) -> String {
    const B: [&str; 14] = [
        "1970-01-01",
        "2020-02-29",
        "2000-02-29",
        "1900-02-28",
        "0001-01-01",
        "9999-12-31",
        "1969-12-31",
        "0000-01-01",
        "+10000-01-01",
        "-0001-12-31",
        "0000-12-31",
        "2038-01-19",
        "1582-10-10",
        "0100-03-01",
    ];
    if idx & 1 == 0 {
        pick(&B, idx & !1).to_string()
    } else {
        format!("{:04}-{:02}-{:02}", 1 + bits % 9999, 1 + (bits >> 16) % 12, 1 + (bits >> 24) % 28)
    }
}

fn hms(bits: u64) -> String {
    match bits & 3 {
        0 => "00:00:00".into(),
        1 => "23:59:59".into(),
        _ => format!("{:02}:{:02}:{:02}", (bits >> 2) % 24, (bits >> 8) % 60, (bits >> 16) % 60),
    }
}

fn ts_text(idx: u64, bits: u64, tz: bool, fl: &Flags) -> String {
    let mut d = ymd(idx, bits);
    let mut bc = false;
    if d.starts_with('-') {
        // written with the BC suffix instead of a negative year
        d = format!("{:04}{}", 1 + bits % 4713, &d[5..]);
        bc = true;
    } else if (bits >> 40) % 8 == 0 && !d.starts_with('+') && !d.starts_with("0000") {
        bc = true;
    }
    if bc && tz && d.starts_with("9999-12") && fl.avoid(BC_CARRY) {
        // 9999-12-31 BC with a negative offset is stored as the year 10000 BC
        d = format!("4713{}", &d[4..]);
    }
    let mut t = format!("{d} {}", hms(bits >> 32));
    if bc {
        t.push_str(" BC");
    }
    if tz {
        const OFF: [&str; 7] = ["", " +00:00", " +08:00", " -03:30", " +1400", " -1200", " +05:45"];
        t.push_str(pick(&OFF, bits >> 44));
    }
    t
}

fn interval_text(idx: u64, bits: u64, fl: &Flags) -> String {
    const B: [&str; 14] = [
        "0 days",
        "1 day",
        "-1 day",
        "1 year",
        "13 months",
        "-14 months -3 days",
        "2147483647 days",
        "-2147483648 days",
        "2147483647 months",
        "-2147483648 months",
        "596 hours 31 minutes 23 seconds",
        "1 second",
        "-1 year 1 second",
        "1 year 2 months 3 days 4 hours 5 minutes 6 seconds",
    ];
    let t = if idx & 1 == 0 {
        pick(&B, idx & !1).to_string()
    } else {
        let units = ["years", "months", "days", "hours", "minutes", "seconds"];
        let lim = [1000i64, 100, 100000, 500, 60, 60];
        let mut t = String::new();
        for (k, u) in units.iter().enumerate() {
            if (bits >> k) & 1 == 1 {
                let v = ((bits >> (8 + 8 * k)) & 0xffff) as i64 % (2 * lim[k] + 1) - lim[k];
                if !t.is_empty() {
                    t.push(' ');
                }
                t.push_str(&format!("{v} {u}"));
            }
        }
        if t.is_empty() { "0 days".into() } else { t }
    };
    // zero as stored: the disk engine keeps months and days only
    let zero = t.split(' ').collect::<Vec<_>>().chunks(2).all(|p| {
        p[0].parse::<i64>() == Ok(0) || (fl.disk && ["hour", "minute", "second"].iter().any(|u| p[1].starts_with(u)))
    });
    if zero && fl.avoid(ZERO_IV) { "3 days".into() } else { t }
}

fn atoms_text(table: &[&str], atoms: &[u8; 6], alen: u8, d: char, q: char, fl: &Flags) -> String {
    let mut n = (alen as usize * 7) >> 8;
    if n == 0 && fl.avoid(EMPTY) {
        n = 1;
    }
    let mut s = String::new();
    for a in &atoms[..n.min(6)] {
        match table[(*a as usize * table.len()) >> 8] {
            "D" => s.push(d),
            "Q" => s.push(q),
            x => s.push_str(x),
        }
    }
    s
}

fn lit(ty: &Ty, seed: &Seed, d: char, q: char, fl: &Flags) -> String {
    let (sel, idx, bits, atoms, alen) = *seed;
    let idx = idx as u64;
    if sel < 32 && !matches!(ty, Ty::Vector(_)) && !fl.avoid(NULLS) {
        return "NULL".into();
    }
    match ty {
        Ty::Bool => if bits & 1 == 0 { "true" } else { "false" }.into(),
        Ty::Small => int_of(idx, bits, i16::MIN as i64, i16::MAX as i64).to_string(),
        Ty::Int => int_of(idx, bits, i32::MIN as i64, i32::MAX as i64).to_string(),
        Ty::Big => int_of(idx, bits, i64::MIN, i64::MAX).to_string(),
        Ty::Double => sql_str(&f64_text(float_of(idx, bits))),
        Ty::Dec(ps) => dec_text(idx, bits, *ps),
        Ty::Varchar | Ty::Char(_) | Ty::Text => {
            let mut s = atoms_text(ATOMS, &atoms, alen, d, q, fl);
            if sel >= 250 && !fl.avoid(BOM) {
                s.insert(0, '\u{feff}');
            }
            sql_str(&s)
        }
        Ty::Date => sql_str(&ymd(idx, bits)),
        Ty::Ts => sql_str(&ts_text(idx, bits, false, fl)),
        Ty::TsTz => sql_str(&ts_text(idx, bits, true, fl)),
        Ty::Interval => sql_str(&interval_text(idx, bits, fl)),
        Ty::Blob => {
            let table = if fl.off[BLOB_ESC] { &BLOB_ATOMS[..BLOB_ATOMS.len() - 2] } else { BLOB_ATOMS };
            let q = if fl.off[BLOB_ESC] && q == '\'' { 'q' } else { q };
            sql_str(&atoms_text(table, &atoms, alen, d, q, fl))
        }
        Ty::Vector(n) => {
            let xs: Vec<String> = (0..*n as u64)
                .map(|k| f64_text(float_of(idx.rotate_left(5 * k as u32) ^ k, bits.rotate_left(21 * k as u32))))
                .collect();
            sql_str(&format!("[{}]", xs.join(",")))
        }
    }
}

fn strategy(ctx: &Ctx) -> impl Strategy<Value = Case> + use<> {
    let mut off = [false; 8];
    for (o, s) in off.iter_mut().zip(SWITCHES) {
        *o = ctx.off(s);
    }
    let seed = || (any::<u8>(), any::<u16>(), any::<u64>(), any::<[u8; 6]>(), any::<u8>());
    let shape = (
        any::<u8>(),                                           // engine
        1usize..=5,                                            // ncols
        prop::array::uniform5((any::<u8>(), any::<u8>())),     // types
        prop::collection::vec(prop::array::uniform5(seed()), 0..=10),
        any::<u8>(),                                           // rep selector
        1u8..=4,                                               // stmts
    );
    let opts = (
        any::<u8>(), // delimiter selector
        any::<u8>(), // quote selector
        any::<u8>(), // header
        any::<bool>(),
        any::<u8>(), // rot
        any::<u8>(), // src
        prop::collection::vec(any::<u16>(), 5),
        any::<u8>(), // take
    );
    (shape, opts).prop_map(move |((eng, ncols, tys, seeds, repsel, stmts), (ds, qs, hs, format, rot, srcs, perm, take))| {
        let disk = eng >= 154;
        let fl = Flags { off, disk, steered: Default::default() };
        let fl = &fl;
        const DELIMS: [char; 4] = [',', '|', ';', '\t'];
        const XDELIMS: [char; 8] = [' ', ':', '-', '.', '0', 'e', '#', '~'];
        let delim = match ds {
            0..=39 => None,
            40..=199 => Some(pick(&DELIMS, (ds as u64 - 40) * 65536 / 160)),
            _ => Some(pick(&XDELIMS, (ds as u64 - 200) * 65536 / 56)),
        };
        let quote = match qs {
            0..=79 => None,
            80..=139 => Some('"'),
            140..=219 => Some('\''),
            _ => Some('`'),
        };
        let (d, q) = (delim.unwrap_or(','), quote.unwrap_or('"'));
        let header = match hs >> 6 {
            h @ 2..=3 if fl.avoid(HEADER) => h - 2,
            h => h,
        };
        let tys: Vec<Ty> = tys[..ncols].iter().map(|(s, p)| ty_of(*s, *p, fl)).collect();
        let rows: Vec<Vec<String>> =
            seeds.iter().map(|r| tys.iter().zip(r.iter()).map(|(t, s)| lit(t, s, d, q, fl)).collect()).collect();
        let rep = match repsel {
            0..=224 => 1,
            225..=239 => 103,
            _ => 257,
        };
        Case {
            disk,
            cols: tys.iter().map(|t| t.sql()).collect(),
            rows,
            rep,
            stmts,
            delim,
            quote,
            header,
            format,
            rot,
            src: (srcs as usize * 6 / 256) as u8,
            perm: perm[..ncols].to_vec(),
            take: 1 + take % ncols as u8,
            excl: fl.steered.get(),
        }
    })
}

// ---------------------------------------------------------------------------------------------
// the check

fn opt_char(c: char) -> String {
    if c == '\'' { "''''".into() } else { format!("'{c}'") }
}

impl Case {
    fn options(&self) -> String {
        let mut o = vec![];
        if self.format {
            o.push("format csv".to_string());
        }
        if let Some(d) = self.delim {
            o.push(format!("delimiter {}", opt_char(d)));
        }
        if let Some(q) = self.quote {
            o.push(format!("quote {}", opt_char(q)));
        }
        match self.header {
            1 => o.push("header false".into()),
            2 => o.push("header true".into()),
            3 => o.push("header".into()),
            _ => {}
        }
        if o.is_empty() {
            return String::new();
        }
        let k = self.rot as usize % o.len();
        o.rotate_left(k);
        format!(" ({})", o.join(", "))
    }
    fn permutation(&self) -> Vec<usize> {
        let mut p: Vec<usize> = (0..self.cols.len()).collect();
        p.sort_by_key(|&i| (self.perm.get(i).copied().unwrap_or(0), i));
        p
    }
    fn header_on(&self) -> bool {
        self.header >= 2
    }
}

fn names(ix: &[usize]) -> String {
    ix.iter().map(|i| format!("c{i}")).collect::<Vec<_>>().join(", ")
}

/// What the round trip did, as far as the verdict needs it.
struct Trip {
    /// rows of the exported source (projected / permuted like the file)
    t: Vec<Row>,
    /// SQL types of the file's columns
    tys: Vec<String>,
    export: Out,
    import: Out,
    u: Out,
    panics: Vec<String>,
    file: Vec<u8>,
    /// value probes: (column type, literal, count of rows of t equal to it, the same for u) —
    /// equality is evaluated by the engine on the stored values, not on their printed form
    probes: Vec<(String, String, Out, Out)>,
}

enum Run {
    Setup(&'static str),
    Done(Trip),
}

async fn round_trip(db: &Database, c: &Case, csv: &Path) -> Run {
    let n = c.cols.len();
    let decl = |ix: &[usize]| ix.iter().map(|&i| format!("c{i} {}", c.cols[i])).collect::<Vec<_>>().join(", ");
    let all: Vec<usize> = (0..n).collect();
    if !exec(db, &format!("create table t({})", decl(&all))).await.is_ok() {
        return Run::Setup("setup:create-table");
    }
    // load
    let total = c.rows.len() * c.rep as usize;
    if total > 0 {
        let per = total.div_ceil(c.stmts.max(1) as usize);
        let mut k = 0;
        while k < total {
            let m = per.min(total - k);
            let mut sql = String::from("insert into t values ");
            for j in k..k + m {
                if j > k {
                    sql.push_str(", ");
                }
                sql.push('(');
                sql.push_str(&c.rows[j % c.rows.len()].join(", "));
                sql.push(')');
            }
            match exec(db, &sql).await {
                Out::Rows(r) if r == vec![vec![Val::Int(m as i64)]] => {}
                _ => return Run::Setup("setup:insert"),
            }
            k += m;
        }
    }
    let p = c.permutation();
    let file_cols: Vec<usize> = match c.src {
        1 => p.clone(),
        3 => p[..(c.take as usize).clamp(1, n)].to_vec(),
        _ => all.clone(),
    };
    // source form 5: a filtered query. The predicate rejects the rows that equal one generated row in
    // one column, so whole INSERT batches (= chunks of the scan) can come out of the filter empty.
    let filter = if c.src == 5 && !c.rows.is_empty() {
        let i = file_cols[c.take as usize % file_cols.len()];
        let lit = &c.rows[c.rot as usize % c.rows.len()][i];
        Some(if lit.eq_ignore_ascii_case("null") { format!(" where c{i} is not null") } else { format!(" where c{i} <> cast({lit} as {})", c.cols[i]) })
    } else {
        None
    };
    let wh = filter.clone().unwrap_or_default();
    let Out::Rows(t) = exec(db, &format!("select {} from t{wh}", names(&file_cols))).await else {
        return Run::Setup("setup:select");
    };
    if t.len() != total && filter.is_none() {
        return Run::Setup("setup:row-count");
    }
    let _ = take_panics();
    let f = csv.display();
    let o = c.options();
    let to = match c.src {
        1 => format!("copy t({}) to '{f}'{o}", names(&file_cols)),
        2 => format!("copy (select * from t) to '{f}'{o}"),
        3 => format!("copy (select {} from t) to '{f}'{o}", names(&file_cols)),
        5 => format!("copy (select {} from t{wh}) to '{f}'{o}", names(&file_cols)),
        _ => format!("copy t to '{f}'{o}"),
    };
    let export = exec(db, &to).await;
    let file = std::fs::read(csv).unwrap_or_default();
    let (u_decl, from, sel) = if c.src == 4 {
        (decl(&p), format!("copy u({}) from '{f}'{o}", names(&all)), format!("select {} from u", names(&all)))
    } else {
        (decl(&file_cols), format!("copy u from '{f}'{o}"), "select * from u".to_string())
    };
    if !exec(db, &format!("create table u({u_decl})")).await.is_ok() {
        return Run::Setup("setup:create-table-u");
    }
    let import = if export.is_ok() { exec(db, &from).await } else { Out::Failed("not run".into()) };
    let u = exec(db, &sel).await;
    let panics = take_panics();
    // Up to four cells of the types whose printed form could hide a difference (the comparison of
    // `select` results sees both tables through the same printer): how many rows equal the
    // literal that was inserted, in t and in u?
    let mut probes = vec![];
    if import.is_ok() {
        let u_has = |i: usize| c.src == 4 || file_cols.contains(&i);
        'outer: for row in &c.rows {
            for &i in &file_cols {
                let tag = ty_tag(&c.cols[i]).to_string();
                if !matches!(tag.as_str(), "interval" | "timestamp" | "timestamptz" | "date" | "decimal" | "double") || !u_has(i) {
                    continue;
                }
                let lit = &row[i];
                if lit.eq_ignore_ascii_case("null") || probes.iter().any(|(_, l, _, _): &(String, String, Out, Out)| l == lit) {
                    continue;
                }
                let q = |t: &str| format!("select count(*) from {t} where c{i} = cast({lit} as {})", c.cols[i]);
                // (the rows of t that were exported: the filter of source form 5 applies)
                let qt = match &filter {
                    Some(f) => format!("{} and ({})", q("t"), f.trim_start().trim_start_matches("where ")),
                    None => q("t"),
                };
                let a = exec(db, &qt).await;
                let b = exec(db, &q("u")).await;
                probes.push((c.cols[i].clone(), lit.clone(), a, b));
                if probes.len() >= 4 {
                    break 'outer;
                }
            }
        }
        let _ = take_panics();
    }
    Run::Done(Trip {
        t,
        tys: file_cols.iter().map(|&i| c.cols[i].clone()).collect(),
        export,
        import,
        u,
        panics,
        file,
        probes,
    })
}

fn is_str_ty(t: &str) -> bool {
    t == "varchar" || t == "text" || t.starts_with("char")
}

fn ty_tag(t: &str) -> &str {
    t.split('(').next().unwrap_or(t)
}

/// Narrow description of how one cell changed.
fn cell_sig(ty: &str, a: &Val, b: &Val, c: &Case) -> String {
    let tag = ty_tag(ty);
    match (a, b) {
        (Val::Null, Val::Str(s)) if s == "NULL" => "null->text-NULL".into(),
        (Val::Null, _) => format!("{tag}:null->value"),
        (Val::Str(s), Val::Null) if s.is_empty() => "empty-string->null".into(),
        (Val::Other(s), Val::Null) if s == "blob:" => "empty-blob->null".into(),
        (Val::Other(s), Val::Null) if s == "interval:" => "zero-interval->null".into(),
        (_, Val::Null) => format!("{tag}:value->null"),
        (Val::Other(s), _) if tag == "blob" && (s.contains("\\\\") || s.contains("''")) => {
            "blob:backslash-or-quote-doubled".into()
        }
        (Val::Str(s), Val::Str(r)) if s.strip_prefix('\u{feff}') == Some(r.as_str()) => "string:leading-bom-lost".into(),
        (Val::Str(s), _) => {
            let d = c.delim.unwrap_or(',');
            let q = c.quote.unwrap_or('"');
            let what = if s.contains(q) {
                "has-quote"
            } else if s.contains(d) {
                "has-delimiter"
            } else if s.contains('\r') || s.contains('\n') {
                "has-newline"
            } else if s.starts_with(' ') || s.ends_with(' ') || s.starts_with('\t') || s.ends_with('\t') {
                "has-edge-blank"
            } else if !s.is_ascii() {
                "non-ascii"
            } else {
                "plain"
            };
            format!("string:{what}:changed")
        }
        _ => format!("{tag}:value-changed"),
    }
}

/// Digit runs replaced by their length, blanks by '_': "10000-01-01 03:29:59 BC" -> "5-2-2_2:2:2_BC".
fn shape(text: &str) -> String {
    let mut out = String::new();
    let mut run = 0;
    for ch in text.chars().chain(std::iter::once('\0')) {
        if ch.is_ascii_digit() {
            run += 1;
            continue;
        }
        if run > 0 {
            out.push_str(&run.to_string());
            run = 0;
        }
        match ch {
            '\0' => {}
            ' ' => out.push('_'),
            c if c.is_ascii_graphic() => out.push(c),
            _ => out.push('?'),
        }
    }
    out.chars().take(32).collect()
}

fn err_sig(e: &str) -> String {
    // keep the error family, the target type and the shape of the offending text, drop the values
    let e = e.lines().next().unwrap_or("");
    if let (Some(i), Some(j)) = (e.find("failed to convert string \""), e.rfind("\" to ")) {
        let text = &e[i + 26..j.max(i + 26)];
        let to = e[j + 5..].split(':').next().unwrap_or("?");
        return format!("convert-{}:{}", to.trim().replace(' ', "-"), shape(text));
    }
    if e.contains("length mismatch") || e.contains("LengthMismatch") {
        return "length-mismatch".into();
    }
    let short: String = e.chars().filter(|c| !c.is_ascii_digit()).take(48).collect();
    short.trim().replace(' ', "-")
}

fn verdict(c: &Case, tr: &Trip) -> Verdict {
    let n = tr.t.len();
    let ctxt = |extra: String| {
        format!(
            "{extra}; table t({}) with {n} rows {}, options{}, source form {}, engine {}; file = {:?}",
            c.cols.join(", "),
            fmt_rows(&tr.t[..n.min(6)]),
            c.options(),
            c.src,
            if c.disk { "disk" } else { "memory" },
            String::from_utf8_lossy(&tr.file[..tr.file.len().min(300)])
        )
    };
    let has_null = |str_col: bool| {
        tr.t.iter().any(|r| r.iter().zip(&tr.tys).any(|(v, t)| v.is_null() && is_str_ty(t) == str_col))
    };
    // export
    match &tr.export {
        Out::Rows(r) if *r == vec![vec![Val::Int(n as i64)]] => {}
        Out::Rows(r) => {
            let sig = match tr.panics.first() {
                Some(p) => format!("csv:export:panic:{}", panic_sig(p)),
                None => "csv:export:row-count".into(),
            };
            return fail(sig, ctxt(format!("COPY TO must report {n} rows, it returned {}", fmt_rows(r))));
        }
        o => {
            return fail(
                format!("csv:export:{}", o.class()),
                ctxt(format!("COPY TO of an existing table must succeed, got {}", o.brief())),
            );
        }
    }
    // import
    match &tr.import {
        Out::Rows(_) => {}
        Out::Failed(e) => {
            let sig = if e.contains("\"NULL\"") && has_null(false) {
                "csv:import-error:null-cell-written-as-NULL".to_string()
            } else {
                format!("csv:import-error:{}", err_sig(e))
            };
            return fail(sig, ctxt(format!("COPY FROM of the exported file must succeed, got Failed({e})")));
        }
        o => {
            return fail(
                format!("csv:import:{}", o.class()),
                ctxt(format!("COPY FROM of the exported file must succeed, got {}", o.brief())),
            );
        }
    }
    let Out::Rows(u) = &tr.u else {
        return fail("csv:select-u", ctxt(format!("SELECT from the imported table failed: {}", tr.u.brief())));
    };
    let (ts, us) = (sorted(tr.t.clone()), sorted(u.clone()));
    if ts == us {
        // the printed rows agree; do the stored values?
        for (ty, lit, a, b) in &tr.probes {
            if let (Out::Rows(ra), Out::Rows(rb)) = (a, b) {
                if ra != rb {
                    return fail(
                        format!("csv:value:{}", ty_tag(ty)),
                        ctxt(format!(
                            "both tables print the same rows, but `c = cast({lit} as {ty})` holds for {} row(s) of t and {} row(s) of u: the value changed in a way its printed form does not show",
                            fmt_rows(ra),
                            fmt_rows(rb)
                        )),
                    );
                }
            }
        }
        return Verdict::Pass;
    }
    // multiset difference
    let mut missing = vec![];
    let mut extra = vec![];
    let (mut i, mut j) = (0, 0);
    while i < ts.len() || j < us.len() {
        if j >= us.len() || (i < ts.len() && ts[i] < us[j]) {
            missing.push(ts[i].clone());
            i += 1;
        } else if i >= ts.len() || us[j] < ts[i] {
            extra.push(us[j].clone());
            j += 1;
        } else {
            i += 1;
            j += 1;
        }
    }
    let msg = ctxt(format!(
        "rows after COPY TO + COPY FROM differ: {} row(s) of t missing from u {}, {} row(s) of u not in t {} (import said {})",
        missing.len(),
        fmt_rows(&missing[..missing.len().min(4)]),
        extra.len(),
        fmt_rows(&extra[..extra.len().min(4)]),
        tr.import.brief()
    ));
    if u.is_empty() && n > 0 {
        if let Some(p) = tr.panics.first() {
            let kind = if tr.tys.iter().any(|t| ty_tag(t) == "blob" || ty_tag(t) == "vector") && p.contains("cast array") {
                "csv:import:panic:blob-or-vector-column-cast".to_string()
            } else {
                format!("csv:import:panic:{}", panic_sig(p))
            };
            return fail(kind, format!("{msg}; panic: {p}"));
        }
    }
    if missing.len() != extra.len() {
        let sig = if c.header_on() && extra.is_empty() && missing.len() == 1 {
            "csv:header:first-row-lost"
        } else if missing.len() > extra.len() {
            "csv:rows:lost"
        } else {
            "csv:rows:invented"
        };
        return fail(sig, msg);
    }
    // same number of rows: pair each changed row of t with the row of u it became and describe
    // the cells. COPY keeps the order, so rows normally correspond by position; if the two scans
    // of t did not agree (the disk engine may order row-sets differently), pair by least cost.
    const KNOWN: [&str; 6] = [
        "null->text-NULL",
        "empty-string->null",
        "empty-blob->null",
        "zero-interval->null",
        "blob:backslash-or-quote-doubled",
        "string:leading-bom-lost",
    ];
    let cells = |m: &Row, e: &Row| -> Vec<String> {
        let z = m.iter().zip(e).zip(&tr.tys);
        z.filter(|((a, b), _)| a != b).map(|((a, b), ty)| cell_sig(ty, a, b, c)).collect()
    };
    let mut sigs = BTreeSet::new();
    let by_pos: Vec<(&Row, &Row)> = tr.t.iter().zip(u).filter(|(a, b)| a != b).collect();
    let positional = tr.t.len() == u.len()
        && sorted(by_pos.iter().map(|p| p.0.clone()).collect()) == missing
        && sorted(by_pos.iter().map(|p| p.1.clone()).collect()) == extra;
    if positional {
        for (m, e) in by_pos {
            sigs.extend(cells(m, e));
        }
    } else {
        let mut used = vec![false; extra.len()];
        for m in &missing {
            let cost = |k: &usize| -> usize {
                cells(m, &extra[*k]).iter().map(|s| if KNOWN.contains(&s.as_str()) { 1 } else { 100 }).sum()
            };
            let Some(k) = (0..extra.len()).filter(|&k| !used[k]).min_by_key(cost) else { break };
            used[k] = true;
            sigs.extend(cells(m, &extra[k]));
        }
    }
    // prefer a signature that is not one of the well-known shapes, so that a new failure is
    // not hidden behind a listed one occurring in the same case
    let sig = sigs
        .iter()
        .find(|s| !KNOWN.contains(&s.as_str()))
        .or_else(|| sigs.iter().next())
        .cloned()
        .unwrap_or_else(|| "rows-differ".into());
    fail(format!("csv:cell:{sig}"), msg)
}

fn classes(c: &Case, tr: &Trip) -> BTreeSet<&'static str> {
    let mut k = BTreeSet::new();
    let d = c.delim.unwrap_or(',');
    let q = c.quote.unwrap_or('"');
    for r in &tr.t {
        for (v, ty) in r.iter().zip(&tr.tys) {
            match v {
                Val::Null => {
                    k.insert("cell:null");
                }
                Val::Str(s) => {
                    if s.is_empty() {
                        k.insert("cell:empty-string");
                    }
                    if s.contains(d) {
                        k.insert("cell:str-with-delimiter");
                    }
                    if s.contains(q) {
                        k.insert("cell:str-with-quote");
                    }
                    if s.contains('\n') {
                        k.insert("cell:str-with-lf");
                    }
                    if s.contains('\r') {
                        k.insert("cell:str-with-cr");
                    }
                    if s.starts_with([' ', '\t']) || s.ends_with([' ', '\t']) {
                        k.insert("cell:str-edge-blank");
                    }
                    if !s.is_ascii() {
                        k.insert("cell:str-non-ascii");
                    }
                    if s == "NULL" {
                        k.insert("cell:str-NULL-word");
                    }
                    if s.starts_with('\u{feff}') {
                        k.insert("cell:str-leading-bom");
                    }
                }
                Val::F64(b) => {
                    let x = f64::from_bits(*b);
                    if !x.is_finite() {
                        k.insert("cell:float-nan-inf");
                    } else if x != 0.0 && (x.abs() >= 1e17 || x.abs() < 1e-5) {
                        k.insert("cell:float-extreme");
                    } else if format!("{x}").len() >= 15 {
                        k.insert("cell:float-many-digits");
                    }
                }
                Val::Int(i) => {
                    if [i16::MIN as i64, i16::MAX as i64, i32::MIN as i64, i32::MAX as i64, i64::MIN, i64::MAX].contains(i) {
                        k.insert("cell:int-boundary");
                    }
                }
                Val::Other(s) => {
                    if s == "interval:" {
                        k.insert("cell:zero-interval");
                    }
                    if s == "blob:" {
                        k.insert("cell:empty-blob");
                    }
                    if s.starts_with("dec:") && s.len() > 24 {
                        k.insert("cell:decimal-long");
                    }
                    if s.contains(" BC") {
                        k.insert("cell:bc-timestamp");
                    }
                    // the text form of a non-string value needs quoting
                    let text = s.split_once(':').map(|x| x.1).unwrap_or("");
                    if !is_str_ty(ty) && (text.contains(d) || text.contains(q)) {
                        k.insert("cell:non-string-needs-quoting");
                    }
                }
                Val::Bool(_) => {}
            }
            if let Val::Int(_) | Val::F64(_) = v {
                let text = v.to_string();
                if text.contains(d) {
                    k.insert("cell:non-string-needs-quoting");
                }
            }
        }
    }
    if tr.file.contains(&(q as u8)) {
        k.insert("file:has-quoted-field");
    }
    k
}

fn test(ctx: &Ctx, c: &Case, st: &mut Stats) -> Verdict {
    if c.cols.is_empty() || c.rows.iter().any(|r| r.len() != c.cols.len()) || c.rep == 0 {
        return Verdict::Discard("malformed-case");
    }
    let dir = ctx.case_dir("csv");
    let csv = dir.join("t.csv");
    let _ = take_panics();
    let disk = c.disk;
    let dbdir = dir.join("db");
    let run = block_on(async {
        let db = if disk {
            match open_disk(&DiskCfg::small(), &dbdir).await {
                Ok(db) => db,
                Err(_) => return Run::Setup("setup:open"),
            }
        } else {
            Database::new_in_memory()
        };
        let r = round_trip(&db, c, &csv).await;
        if disk {
            let _ = shutdown(&db).await;
        }
        r
    });
    st.evals(2);
    for (i, s) in SWITCHES.iter().enumerate() {
        if c.excl >> i & 1 == 1 {
            st.excluded(s);
        }
    }
    let tr = match run {
        Ok(Run::Done(tr)) => tr,
        Ok(Run::Setup(why)) => return Verdict::Discard(why),
        Err(_) => return Verdict::Discard("setup:panic"),
    };
    // coverage
    let k = classes(c, &tr);
    for x in &k {
        st.class(x);
    }
    st.class(if c.disk { "engine:disk" } else { "engine:memory" });
    st.class(match c.delim {
        None => "delimiter:default",
        Some(',' | '|' | ';' | '\t') => "delimiter:common",
        Some(_) => "delimiter:exotic",
    });
    st.class(match c.quote {
        None => "quote:default",
        Some('"') => "quote:double",
        Some('\'') => "quote:single",
        Some(_) => "quote:backtick",
    });
    st.class(["header:absent", "header:false", "header:true", "header:true"][c.header.min(3) as usize]);
    st.class(["source:table", "source:table-columns", "source:query-star", "source:query-projection", "source:import-column-list", "source:filtered-query"][c.src.min(5) as usize]);
    st.class(match tr.t.len() {
        0 => "rows:0",
        1..=40 => "rows:1-40",
        41..=1024 => "rows:41-1024",
        _ => "rows:>1024",
    });
    for t in &tr.tys {
        st.class(&format!("type:{}", ty_tag(t)));
    }
    let special = k.iter().any(|x| {
        matches!(
            *x,
            "cell:null"
                | "cell:empty-string"
                | "cell:str-with-delimiter"
                | "cell:str-with-quote"
                | "cell:str-with-lf"
                | "cell:str-with-cr"
                | "cell:str-edge-blank"
                | "cell:non-string-needs-quoting"
                | "cell:zero-interval"
                | "cell:empty-blob"
        )
    });
    if special {
        let bucket = match tr.t.len() {
            0 => 0,
            1..=1024 => 1,
            _ => 2,
        };
        st.nontrivial((&tr.tys, c.delim, c.quote, c.header, c.src, c.disk, &k, bucket));
    }
    verdict(c, &tr)
}

pub fn def() -> PropDef {
    PropDef {
        id: "C20",
        level: "exploration",
        rule: "one case = column type list (1-5 columns over bool/smallint/int/bigint/double/decimal/decimal(p,s)/varchar/char/text/date/timestamp/timestamptz/interval[/blob/vector]) x boundary-biased rows (0-10 distinct, optionally replicated past the 1024-row window, 1-4 INSERTs) x COPY options (delimiter, quote, header, format) x source form (table, column list, query, import column list) x engine; non-trivial = some exported cell is NULL, empty, or its text contains the delimiter / quote in effect, CR, LF or a leading/trailing blank; distinct = different (types, options, source, engine, set of cell classes, size bucket)",
        assumptions: vec![
            "SELECT * on t and on u reports the stored values faithfully (the same SELECT path reads both sides)",
            "INSERT ... VALUES with literals stores what SELECT then shows; cases whose setup fails are discarded and counted",
            "decimal values are compared after normalisation (1.50 = 1.5); doubles bit-exactly (NaN canonicalised)",
        ],
        min_nontrivial: 100,
        parts: vec![part("roundtrip", 20_000, 300_000, |ctx| strategy(ctx), |ctx, c, st| test(ctx, c, st))],
    }
}
