//! C06, part `sql`: the same arrays through the public path — `CREATE TABLE`, 1–4 `INSERT`s,
//! optionally one compaction pass (which may re-encode low-cardinality columns with the
//! dictionary encoding), `SELECT` — on the disk engine with a tiny `target_block_size`.
//! Touches `rowset_builder.rs`, the column builders chosen by the real options, the real files
//! and `RowSetIterator`. The in-memory engine runs the same statements to make sure the SQL
//! front end (casts of literals) delivered exactly the intended values to the storage layer.
use risinglight::Database;
use risinglight::types::{DataValue, Date};

use super::c06::{Case, expand};
use super::c06_vals::*;
use crate::engine::*;
use crate::sqlrun::*;

pub const MAX_SQL_ROWS: usize = 300;
pub const SQL_TYPES: [u8; 9] = [T_SMALLINT, T_INT, T_BIGINT, T_DOUBLE, T_BOOL, T_DECIMAL, T_DATE, T_INTERVAL, T_VARCHAR];

fn sql_type(ty: u8) -> &'static str {
    match ty {
        T_SMALLINT => "smallint",
        T_INT => "int",
        T_BIGINT => "bigint",
        T_DOUBLE => "double",
        T_BOOL => "boolean",
        T_DECIMAL => "decimal",
        T_DATE => "date",
        T_INTERVAL => "interval",
        _ => "varchar",
    }
}

fn literal(ty: u8, a: &Option<Atom>) -> String {
    let t = sql_type(ty);
    match a {
        None => "null".into(),
        Some(Atom::I(x)) => match ty {
            T_BOOL => format!("cast('{}' as boolean)", *x != 0),
            T_DATE => format!("cast('{}' as date)", Date::new(*x as i32)),
            // a multi-row VALUES list of casts to smallint is rejected by the binder
            T_SMALLINT => x.to_string(),
            _ => format!("cast('{x}' as {t})"),
        },
        Some(Atom::F(b)) => format!("cast('{:?}' as double)", f64::from_bits(*b)),
        Some(Atom::D(s)) => format!("cast('{s}' as decimal)"),
        Some(Atom::S(s)) => format!("'{}'", s.replace('\'', "''")),
        Some(Atom::Iv(m, d, s)) => format!("cast('{m} months {d} days {s} seconds' as interval)"),
        Some(other) => panic!("no SQL literal for {other:?}"),
    }
}

async fn rows_of_table(db: &Database) -> Result<Vec<(i64, DataValue)>, String> {
    match run_raw(db, "select id, v from t").await {
        Ok(Ok(chunks)) => {
            let mut rows = vec![];
            for cols in arrays_of(&chunks) {
                for i in 0..cols[0].len() {
                    let id = match cols[0].get(i) {
                        DataValue::Int32(x) => x as i64,
                        other => return Err(format!("id column returned {other:?}")),
                    };
                    rows.push((id, cols[1].get(i)));
                }
            }
            rows.sort_by_key(|r| r.0);
            Ok(rows)
        }
        Ok(Err(e)) => Err(format!("error: {}", e.to_string().lines().next().unwrap_or(""))),
        Err(p) => Err(format!("panic: {p}")),
    }
}

pub fn test(ctx: &Ctx, c: &Case, st: &mut Stats) -> Verdict {
    for (name, bit) in super::c06::SWITCHES {
        let applies = (bit == super::c06::L_INTERVAL_TIME && c.ty == T_INTERVAL)
            || (bit == super::c06::L_EQUAL_REPR && c.enc % 3 != 0 && (c.ty == T_DECIMAL || c.ty == T_DOUBLE));
        if c.lim & bit != 0 && applies && ctx.off(name) {
            st.excluded(name);
        }
    }
    let mut a = expand(c);
    a.truncate(MAX_SQL_ROWS);
    let len = a.len();
    if len == 0 {
        return Verdict::Discard("no rows");
    }
    let compact = c.enc % 3 != 0;
    let cfg = DiskCfg {
        block: c.block as usize,
        rowset: 1 << 20,
        checksum: c.checksum,
        first_key: true,
        cache: if c.first_key { 1 } else { 1024 },
        inmem: false,
    };
    let mut cutpos: Vec<usize> = c.cuts.iter().map(|&f| (f as usize * (len + 1)) >> 16).collect();
    cutpos.sort();
    cutpos.push(len);
    let create = format!("create table t(id int not null, v {}{})", sql_type(c.ty), if c.nullable { "" } else { " not null" });
    let mut inserts = vec![];
    let mut from = 0;
    for &to in &cutpos {
        if to > from {
            let vals: Vec<String> = (from..to).map(|i| format!("({i}, {})", literal(c.ty, &a[i]))).collect();
            inserts.push(format!("insert into t values {}", vals.join(", ")));
        }
        from = to;
    }
    let expected: Vec<DataValue> = a.iter().map(|x| to_dv(c.ty, x)).collect();
    let what = format!(
        "{} {} block_size={} rows={len} inserts={}{}",
        sql_type(c.ty),
        if c.nullable { "nullable" } else { "not-null" },
        c.block,
        inserts.len(),
        if compact { " + compaction pass" } else { "" }
    );
    let sig = |k: &str| format!("sql:{}:{}:{k}", type_class(c.ty), if compact { "compacted" } else { "fresh" });
    let dir = ctx.case_dir("c06sql");
    let _ = take_panics();
    st.eval();
    let res = block_on(async {
        // 1. the SQL front end must hand the intended values to the storage layer
        let mem = Database::new_in_memory();
        for q in std::iter::once(&create).chain(inserts.iter()) {
            let o = exec(&mem, q).await;
            if !o.is_ok() {
                return Err(("front-end", format!("in-memory engine: {} on {}", o.brief(), &q[..q.len().min(120)])));
            }
        }
        let mrows = rows_of_table(&mem).await.map_err(|e| ("front-end", e))?;
        if mrows.len() != len || mrows.iter().zip(&expected).any(|(r, e)| same(e, &r.1).is_err()) {
            return Err(("front-end", "in-memory engine does not return the literals' values".to_string()));
        }
        // 2. the disk engine
        let db = open_disk(&cfg, &dir).await.map_err(|p| ("fail:open", p))?;
        for q in std::iter::once(&create).chain(inserts.iter()) {
            let o = exec(&db, q).await;
            if !o.is_ok() {
                let _ = shutdown(&db).await;
                return Err(("fail:statement", format!("{} on {}", o.brief(), &q[..q.len().min(120)])));
            }
        }
        if compact {
            tick().await;
        }
        let rows = rows_of_table(&db).await;
        let _ = shutdown(&db).await;
        rows.map_err(|e| ("fail:select", e))
    });
    let panics = take_panics();
    let rows = match res {
        Err(p) => return fail(sig(&format!("panic:{}", panic_sig(&p))), format!("panicked: {p}; {what}")),
        Ok(Err(("front-end", e))) => {
            if std::env::var("C06_DEBUG").is_ok() {
                eprintln!("front-end: {e}; {what}");
            }
            return Verdict::Discard("the SQL front end altered or rejected the values before storage");
        }
        Ok(Err(("front-end-unused", _))) => return Verdict::Discard("the SQL front end altered or rejected the values before storage"),
        Ok(Err((k, e))) => {
            let k = k.trim_start_matches("fail:");
            return fail(sig(&format!("{k}-failed")), format!("{k} failed on the disk engine (the in-memory engine accepted the same statements): {e}; {what}"));
        }
        Ok(Ok(rows)) => rows,
    };
    if let Some(p) = panics.first() {
        return fail(sig(&format!("task-panic:{}", panic_sig(p))), format!("a task panicked: {p}; {what}"));
    }
    if rows.len() != len {
        return fail(sig("row-count"), format!("{} rows written, {} read back; {what}", len, rows.len()));
    }
    for (i, (id, got)) in rows.iter().enumerate() {
        if *id != i as i64 {
            return fail(sig("row-count"), format!("row ids read back are not 0..{len}: position {i} has id {id}; {what}"));
        }
        if let Err(kind) = same(&expected[i], got) {
            return fail(sig(kind), format!("row {i} was written as {} and read back as {}; {what}", show(&a[i]), show_dv(got)));
        }
    }
    st.class(&format!("sql:type:{}", sql_type(c.ty)));
    st.class(if compact { "sql:compaction-pass" } else { "sql:fresh-rowsets" });
    if inserts.len() > 1 {
        st.class("sql:several-rowsets");
    }
    if a.iter().any(|x| x.is_none()) {
        st.class("sql:has-null");
    }
    // several blocks are certain when the values alone exceed the block size
    let approx = len * match c.ty {
        T_SMALLINT => 2,
        T_BOOL => 1,
        T_DECIMAL => 16,
        T_INT | T_DATE => 4,
        _ => 8,
    };
    if approx > 2 * c.block as usize {
        st.class("sql:several-blocks");
        st.nontrivial(("sql", c.ty, c.nullable, compact, inserts.len(), len / 8, c.block / 32));
    }
    Verdict::Pass
}
